"""per-property claims that go into MANIFEST.json (see tools/gen_manifest.py)"""

CHECKS = {
    "C01": {
        "level": "proof",
        "technique": "static: ast->sympy abstract interpretation of operator factories/kernels into stencil tables; Taylor-residual valuation against continuum operators derived in the Cartesian embedding",
        "text": "For every operator registered on the numba backend (Cartesian 1-3d, polar, spherical, cylindrical; all documented "
        "option rows) and the d_d<axis>/d2_d<axis>2 family, the stencil read off the source is proved, identically in shape, "
        "spacing, position r>0 and inner radius, to equal the continuum operator up to O(h^2) (O(h) one-sided), with components "
        "in the documented order and the documented support. This is a proof about the extracted table for all inputs; the "
        "right level because the whole linear map is written down in a few lines of index arithmetic.",
        "note": "Trusted: CPython ast, sympy algebra, the continuum operators derived in pdelint/oracle.py, numba compiling Python "
        "semantics faithfully. Not decided: spectral (FFT) Laplacians, float round-off, near-axis uniformity (thorough tier only).",
    },
    "C02": {
        "level": "proof",
        "technique": "static: abstract interpretation (ast->sympy) of interpreted and compiled ghost-cell setters on shaped symbolic arrays; index tables + defining-equation identities",
        "text": "For every local boundary-condition class (Dirichlet, Neumann, Mixed incl. the infinite-coefficient repair branch, Curvature, "
        "periodic/anti-periodic, Normal* variants, Expression* with expression or callable, UserBC), each side, axis and 1-3 axes, "
        "rank 0/1 data, homogeneous and per-face values: the single store performed by the interpreted setter and by the compiled "
        "setter is extracted and proved to write exactly the virtual point of that side for all valid transverse cells (normal "
        "component iff `normal`), to read the adjacent cells with equal transverse/component indices, and to satisfy the defining "
        "equation identically in value, spacing and shape. Documented aliases are tied to the family whose equation was proved. Copies keep parameters: for every boundary-condition class the resolved copy() (following super().copy) rebuilds self.__class__ with every constructor parameter, each filled from the value the object was constructed with or restored unconditionally afterwards. Specification dictionaries: _parse_from_dict is interpreted on the whole key-presence lattice of an axis (wildcard, axis, one-sided, alias keys) and realises the documented precedence side/alias > axis > wildcard.",
        "note": "Trusted: CPython ast, sympy, sympy.parse_expr for the f-string templates, numba compiling Python semantics. Assumes >= 2 "
        "cells per axis. Not decided: meaning of arbitrary user expressions (C11); compiled MixedBC with linked value arrays; the "
        "parsing of nested BC specifications beyond the alias registry.",
    },
    "C05": {
        "level": "proof",
        "technique": "static: column-sum identities on stencil tables extracted by abstract interpretation, with cell volumes and ghost-cell formulas extracted from the grid / boundary-condition classes",
        "text": "Proves, identically in shape, spacing, position and inner radius, that every input cell has coefficient 0 in the "
        "volume-weighted sum of the discrete Laplacian (Cartesian 1-3d, polar, conservative spherical, cylindrical; zero-flux or "
        "periodic ghost cells as extracted from NeumannBC/_PeriodicBC) and of the central divergence (Cartesian, conservative "
        "spherical; normal Dirichlet-0 or periodic), for first/interior/last cells on every axis. Also: the configuration default "
        "selects the conservative spherical stencils, and the non-conservative Laplacian fails the identity (positive control).",
        "note": "Trusted: CPython ast, sympy; V(cell) = product of cell_volume_data factors. Not decided: whole-simulation consequence "
        "beyond linearity of explicit updates (C06), converged implicit iterations, round-off, one-sided divergence variants.",
    },
    "C18": {
        "level": "proof",
        "technique": "static: abstract interpretation of the sparse-matrix assemblers (row loops case-split first/interior/last + concrete 2-cell shapes) compared with the extracted numba stencil after ghost elimination; store-order rule; path rule for the residual test",
        "text": "All six Laplace-matrix assemblers (Cartesian 1-3d, polar, spherical, cylindrical) are interpreted from source with a "
        "recording sparse matrix; for Dirichlet/Neumann/Mixed/Curvature/periodic conditions per side, r_min = 0 and r_min > 0, every "
        "matrix row and vector entry is proved equal to the numba Laplace stencil with virtual points eliminated through "
        "get_virtual_point_data (so solving the matrix problem is solving the discrete problem the operators define). Additionally: "
        "no '=' after '+=' on one entry, every path of solve_poisson that writes the result passed an allclose(mat.dot(x), rhs) test, "
        "and solve_laplace_equation delegates to the Poisson solver. The residual test is decided semantically: it compares matrix*x with (arr - vector) for the very value stored into `out`, on the unscaled system (or with a correspondingly scaled constant tolerance). solve_poisson_equation lets every solver failure propagate (no handler path completes normally). Anti-periodic axes are covered and the axis objects are instances of the class the package uses (BoundaryPeriodic).",
        "note": "Trusted: CPython ast, sympy, numpy C-order ravel, scipy.sparse dok semantics (=, +=, setdiag, *=). Symbolic rows assume "
        "N >= 3 per axis, N = 2 covered concretely for 1-2 axes. Not decided: accuracy of spsolve/lsmr beyond the residual test.",
    },
    "C03": {
        "level": "other",
        "technique": "static: sibling comparison of extracted summaries (stencil tables, ghost-cell stores, dispatch order, effect summaries, sparse-matrix rows); symbolic small-shape interpretation of the dot/outer routes; call-site/definition signature rule; loop-carried-dependence and shared-write rules for nb.prange",
        "text": "Decides agreement of routes on what the code computes, for all inputs: scipy.ndimage kernels equal the numba kernels as "
        "stencil tables (all Cartesian operators, 1-3 axes, all methods); interpreted and compiled ghost-cell setters perform the same "
        "store (index and value) for every boundary class/side/axis and serve sides (high, low) and axes in the same order; the four "
        "operator-application bodies (numpy, numba apply_op, both overload implementations) have the same effect summary and hand `args` "
        "to the boundary conditions by keyword exactly once; every set_ghost_cells call site is compatible with the keyword-only `args`; "
        "every nb.prange kernel is free of loop-carried dependences and uses the common parallel flag, hence is schedule independent. "
        "The sparse-matrix route is decided by C18. Additionally: dot and outer products (field methods, numpy closures, numba overloads; every rank combination; out given and allocated; conjugation on/off) are interpreted on arrays of distinct symbols -- every route returns, fills `out` and yields identical entries; every store inside a prange loop goes to memory private to the iteration (syntax-level shared-write scan); the sparse-matrix rows of all Laplace assemblers equal the numba stencil with ghost cells eliminated (extraction shared with C18, incl. anti-periodic axes).",
        "note": "Sibling agreement, not an independent oracle (C01/C02 supply that). Trusted: documented semantics of ndimage.correlate1d/"
        "laplace, numba faithfully compiling Python, LLVM. Not decided: size of round-off differences between routes.",
    },
    "C04": {
        "level": "other",
        "technique": "static: cache-key model read from tools/cache.py (hash_mutable dispatch + decorator wrapper); class-index classification of every annotated argument of the cached sites; interprocedural tracking of address reads (.ctypes/__array_interface__) from cached methods; dominance rule for re-bind/invalidation; read-set vs compared-set of PDE._prepare_cache",
        "text": "For every @cached_method/@cached_property site, each declared argument type (closure over subclasses and over what the __dict__ "
        "fallback recurses into) contributes to the key in a way that separates what __eq__ separates and separates sibling classes; no "
        "ignore_args hides a used argument; every array whose address is captured by a cached result is either keyed by address or the "
        "per-object cache is dropped on every re-binding path; PDE._prepare_cache compares everything the rhs compilation reads from "
        "`state`. Decided for all inputs and histories over the annotated types; not a proof because annotations and the call-graph "
        "approximation are trusted. Cached results are not objects with a public mutation interface (item assignment, in-place operators, public property setters), so one cached instance cannot be customised by one caller for all later ones.",
        "note": "Trusted: CPython ast, parameter annotations, the Python data model (__eq__ without __hash__ means unhashable), class-hierarchy "
        "call resolution (unresolved calls with tracked arguments are listed in the evidence). Assumes fixed global configuration and no "
        "mutation of public PDE/BC attributes between calls. Unannotated / Any / **kwargs values are listed as unclassified.",
    },
    "C07": {
        "level": "other",
        "technique": "static: ownership/alias/effect rules on syntax + CFG reaching definitions; sympy closed forms of the stepping loops (interprocedural through the compiled closure); linear-form normalisation of the loop guard",
        "text": "The caller's state can only reach .copy(), and the copy is what is stepped, tracked and returned. The main loop asks the stepper "
        "for min(next action, t_end) under a strict guard with positive tolerance, takes time only from t_start or the stepper's return, and "
        "reports it as t_final. Every fixed stepper on numpy and numba (plus jax/torch in the thorough tier) computes steps = "
        "max(1, round(delta/dt)), accounts it once on every path, runs exactly `steps` iterations at t_start + i*dt, and returns "
        "t_start + steps*dt identically, hence within dt/2 of t_end for delta >= dt/2. No tracker `handle` in the package writes through, "
        "mutates in place, or retains a view of the state. Data carried between stepper calls (post-step hook data) is read from solver.info at each call and stored back in every stepper; no factory-time snapshot is used inside a stepper. An unknown loop idiom of the interpreted fixed stepper is decided by a witness search on its control skeleton (exact rational times, recording stand-ins); without a witness it stays an analysis error.",
        "note": "Trusted: ast, sympy simplification, |round(x) - x| <= 1/2, numba compiling Python semantics. Assumes copy() is independent (C15), "
        "storages copy (C20), user callables are read-only. Not decided: that per-segment roundings add up to exactly N steps / bit-identical "
        "states for all (dt, interval, range) -- a floating-point statement over unbounded inputs.",
    },
    "C08": {
        "level": "other",
        "technique": "static: hand-built CFG with StopIteration exception edges; dominance, post-dominance, path counting and reachability queries; reaching definitions; linear-form normalisation of tolerances",
        "text": "On every path of TrackerCollection.handle a due tracker is served with (state, t) and its slot advanced by interrupt.next(t) "
        "exactly once (never when not due), whether or not it raised StopIteration; the stop request is deferred past the loop and always "
        "re-raised. Controller._run_main_process handles once before each single stepper call, has exactly one final handle on the "
        "no-exception exit, and reaches neither stepper nor handle after a stop; finalize, t_final and stop_reason cover all non-raising "
        "exits, tolerances are 0.5*dt and 1e-6*dt at every site; the storage tracker pairs start, append(time=t) and end. Necessary "
        "structural conditions, for all inputs. The half-step tracker tolerance is confined to fixed stepping (on the adaptive branch the tracker tolerance is the loop tolerance, so scheduled times are served exactly); a stop raised in the final handle re-assigns the stop reason; the interpreted fixed stepper lands on the step nearest to the requested time (control-skeleton witness search shared with C07).",
        "note": "Trusted: CPython ast, the pdelint.cfg exception model (implicit raises only from calls inside try). Assumes trackers signal a stop "
        "only by StopIteration or a subclass. Not decided: frame counts floor(T/D)+1 for arbitrary D/dt (float arithmetic).",
    },
    "C09": {
        "level": "other",
        "technique": "static: CFG with IndexError edges from subscripts, reaching definitions on self._t_next / self._index, integer-valuedness, sign and ordering-fact flow",
        "text": "For every deterministic interrupt class each cursor store keeps the schedule on its lattice (+= dt or += dt*integer, +1, "
        "scale*factor**integer); one strictly positive advance lies on every path, catch-up counts are evaluated where they are >= 0, and "
        "every answer is handed out only where the code established it is not earlier than the query (or on the labelled float-repair "
        "path). Exhausted fixed schedules answer infinity without touching the cursor; the logarithmic gap is scaled exactly once before "
        "the inherited step; parse_interrupt dispatch is exhaustive.",
        "note": "Trusted: ast, ceil/floor return integer values. Assumes the documented parameter preconditions (dt > 0, factor > 1 resp. >= 1, "
        "increasing list) and one initialize followed by non-decreasing queries. Not decided: round-off near exact hits.",
    },
    "C15": {
        "level": "other",
        "technique": "static: FRESH/VIEW/MAYBE alias typing and write-effect analysis over all structured paths of the field classes (def-use per path, interprocedural summary of number_array), allow-listed writers of the padded array",
        "text": "For all histories, as far as the code shape decides: `data` stays a view of the padded array that only the _data_full setter "
        "re-binds; constructor, copy, arithmetic, out-less operator calls, collection copy/slice/append return memory that aliases no "
        "operand; binary operations never write an operand; in-place operations and setters write valid cells of self only; component "
        "access returns views of the parent; a collection lays members out in field order and links every member to a slice of its own "
        "fresh array. The constructor adopts a padded array only on the caller's own with_ghost_cells request (never for a field passed as data, never after re-binding the flag).",
        "note": "Trusted: CPython ast; documented numpy copy/view semantics; loops taken 0/1 times, explicit raises only; results of "
        "tools.expressions.evaluate not analysed. Not decided: aliasing introduced by numpy for exotic dtypes/strides.",
    },
    "C20": {
        "level": "other",
        "technique": "static: ast path enumeration with fact propagation; FRESH/VIEW alias typing through per-path def-use; paired-update rule on times/data; write-mode transition table extracted from start_writing with the inherited method spliced in",
        "text": "For all call sequences: an appended frame is a fresh copy of the data argument, appended together with its time stamp; no method "
        "lets times and data get out of step on any path, including raising ones; frames read back are fresh copies of the template filled "
        "by value; start_writing realises exactly the documented mode table and rejects readonly before writing anything; extract_field "
        "copies, extract_time_range and items pair by identical indices, clear empties both lists. The stored copy is exact (no cast by a dtype that is not the frame's own); the storage owns its `times` list on every constructor path (derived storages do not share it with their source).",
        "note": "Trusted: CPython ast; numpy copy semantics (np.array/copy=True/.copy()/np.copy allocate; indexing, asarray, reshape share). Assumes "
        "loops unrolled 0/1 and only explicit raises; from_fields/extract_time_range sharing is by design and outside the statement.",
    },
    "C06": {
        "level": "proof",
        "technique": "static: abstract interpretation of the stepping closures with an uninterpreted right-hand side -> Butcher tableau in exact rationals; rooted-tree order conditions; symbolic fixed point of implicit iterations; sibling comparison of python/numba loop summaries; loop-invariant check rate == rhs(state, t)",
        "text": "For Euler, RK4, the step-doubling estimator and RKF45 the tableau (A, b, c) is read off the source and proved to satisfy "
        "c_i = sum_j a_ij (every right-hand side evaluated at the time of its stage state), all rooted-tree order conditions up to the "
        "scheme's order (RKF45: 8 conditions for the propagated order-4 weights, 17 for the embedded b + r) and the stability function "
        "on du/dt = a u; implicit Euler and Crank-Nicolson (any explicit_fraction) via the fixed point of the extracted iteration map "
        "(1/(1-z), (1+z/2)/(1-z/2)); Adams-Bashforth recursion, start-up value and evaluation times; python and numba versions of "
        "Adams-Bashforth and of both adaptive loops are equal as extracted summaries (step clamp max(min(dt_opt, t_end-t), dt_min), "
        "acceptance, time advance, step accounting, dt-adjustment inputs), and adaptive Euler keeps rate == rhs(state, t). The convergence measure of the three fixed-point iterations is the mean over the cells of |new iterate - previous iterate|^2 (proved on diff = x + i*y, hence positive definite for complex fields) compared with maxerror**2.",
        "note": "Trusted: CPython ast, sympy, numba compiling Python semantics; post-step hooks assumed identity. Not decided: convergence of "
        "fixed-point iterations, the global error bound of adaptive stepping, scipy's integrator, round-off equality between backends; the "
        "fixed-step loop skeleton is decided by C07.",
    },
    "C13": {
        "level": "proof",
        "technique": "static: abstract interpretation of the stochastic stepping closures with uninterpreted rate/variance/noise symbols; symbolic increment identity; event-order, draw-count and generator rules on the extracted trace",
        "text": "The Euler-Maruyama, Milstein and semi-implicit closures are interpreted from source; the update is proved equal to "
        "dt*f + sqrt(var*dt/V)*xi + 1/2*alpha*dt*var'/V (+ 1/4*var'/V*((sqrt(dt) xi)^2 - dt) for Milstein; the semi-implicit map iterates "
        "from u + sqrt(var*dt/V)*xi) identically in all symbols, for alpha = 0 and alpha != 0, with the cell volume V. Exactly one normal "
        "draw per step, after all field-dependent evaluations at the pre-step state, from the generator pde.rng; numpy noise is "
        "rng.standard_normal(shape); the interpretation table and the is_sde dispatch (vanishing variance -> deterministic closure) are "
        "evaluated from source; per-field variances are written to the field's own slice. PDEBase.__init__ binds self.rng to np.random.default_rng(<the parameter, untouched>): the draws are those of the generator given.",
        "note": "Trusted: CPython ast, sympy, numpy's Generator. Not decided: numba's own generator (outside the bit-for-bit clause), user "
        "supplied noise realisations, float round-off.",
    },
    "C14": {
        "level": "other",
        "technique": "static: constructor may-dataflow (token domain) vs. state readers; key-table equality; inverse (de)serialiser pairs; dim/num_axes typing of component counts; symbolic slice-cursor recurrence",
        "text": "For every concrete grid class, each piece of identity filled from a constructor parameter is read by `state`; state, from_state "
        "and constructor key sets coincide; copy, deepcopy, JSON and pickle route through them. Field attribute keys written equal those "
        "consumed, with an inverse (de)serialiser pair per key. Every tensor component count uses `dim`. Collection slices are cumulative "
        "in field order. A reader property used by `state` may drop a leaf (radius -> bare outer radius) only under a condition that implies the exact value of the leaf, equal to the constructor's default for the collapsed form. StorageBase.start_writing refreshes info['field_attributes'] from the field on every completing path.",
        "note": "Trusted: CPython ast; sympy for cursor differences; getter/setter coherence; the conversion whitelist "
        "(tuple/list/float/int/bool/np.array/.copy); the rank/dim identifier table. Not decided: JSON float exactness; h5py/movie readers "
        "beyond the shared (de)serialisers.",
    },
    "C17": {
        "level": "other",
        "technique": "static: path-enumerating ast->sympy extraction of partition and cursor recurrences, neighbour case table (finite-model evaluation of the extracted table), MPI index tuples incl. compiled sibling; constructor-parameter matching of to_subgrid/from_bounds",
        "text": "Every bookkeeping ingredient of an exact tiling holds for all shapes and decompositions: one integer partition; start=end "
        "chaining on the parent lattice; slice chaining with overlap 2 iff ghost cells; a symmetric, periodicity-respecting neighbour "
        "table; _MPIBC reads -2|1 and writes -1|0; an MPI condition iff a neighbour exists; every to_subgrid and from_bounds reconstructs "
        "with the same parameters. A chunk partition that is not of the proved linspace form is evaluated in floating point on its syntax tree for all admissible (cells, chunks) up to 96: a pair whose sizes do not partition the cells is a violation with that witness.",
        "note": "Trusted: documented semantics of np.linspace, astype(int), diff and (un)ravel_index; the small-model argument for mesh sizes "
        "<= 7 (guards compare k with 0 and size-1 only). Not decided: end-to-end operator equality under MPI execution.",
    },
    "C19": {
        "level": "proof",
        "technique": "static: sympy identities (modulo Pythagorean ideals) on coordinate maps extracted by abstract interpretation; index-space typing of component order versus coordinate-system order; abstract interpretation of the tensor algebra on small concrete shapes with symbolic entries (pdelint/npsem.py) against the defining index formulas; structural route rules for grid conversion",
        "text": "(a) For Cartesian 1-3d, polar, spherical, cylindrical, bipolar and bispherical coordinates the extracted _basis_rotation is proved "
        "orthonormal with det +1 and equal to the normalised transposed Jacobian, the extracted _mapping_jacobian equal to the derivative of "
        "the extracted _pos_to_cart, and the scale factors equal to the column norms. (b) One component order: the order used by operators "
        "and name access (axes + symmetric axes) is computed per grid class and every subscript of a coordinate-ordered container by a "
        "component index, and every einsum contracting component data with basis_rotation without re-indexing, is reported where the orders "
        "differ (cylindrical grids); component naming sites all use axes + axes_symmetric. (c) Component algebra: every implementation of dot products (four rank combinations), outer products, transposition and the basis change to Cartesian components (field methods, numpy and numba back-ends, coordinate classes) is interpreted on arrays of distinct symbols; each entry equals the defining index formula. (d) Conversion routes: VectorField.interpolate_to_grid rotates with _vector_to_cartesian unless the basis is unchanged, the base implementation refuses, FieldCollection converts each member with the member's own interpolate_to_grid.",
        "note": "Trusted: CPython ast, sympy/Groebner reduction. Chart domains r>0, theta, sigma in (0, pi). One known finding is listed in "
        "known_findings.json (GridBase._vector_to_cartesian on cylindrical grids; the repository's own test pins the wrong order). The "
        "typing pass tracks indices produced by get_axis_index and parameters named `components` only.",
    },
    "C12": {
        "level": "proof",
        "technique": "static: abstract interpretation of geometry helpers and coordinate classes into sympy; exact integrals and sums; interpretation of normalize_point / integrate on arrays of symbols over all flag, axes and rank combinations (pdelint/npsem.py); structural leaf domain for sub-grid construction (pdelint/gridleaf.py); index-space typing of the periodicity flags handed to _difference_vector",
        "text": "Proved identically in shape, bounds, spacing and inner radius: documented cell-centre formula; n-ball volumes; for each grid "
        "class the product of cell_volume_data equals the exact integral of the extracted volume factor over the cell and the sum over all "
        "cells equals the `volume` property (r_min = 0 and > 0); for all coordinate classes volume factor = |det J| = product of scale "
        "factors and _cell_volume = box integral; pos_from_cart o pos_to_cart = id; all nine transform pairs return, cell<->grid are mutually "
        "inverse affine maps with centres at index + 1/2; normalize_point equals the periodic / reflect templates (range, idempotence and "
        "whole-period moves follow by the modulo lemma) in both code branches; integrate uses exactly the cell-volume factors of the "
        "integrated axes; the periodic flags/bounds given to _difference_vector are Cartesian-indexed and tied to the Cartesian direction "
        "of the periodic grid axis. Every returning path of every grid slice() hands the sub-grid constructor exactly the bounds (both ends; reader properties such as `radius` must be lossless), shape and periodicity of the retained axes; ScalarField.project/slice retain the sorted complement of the removed axes and reduce over exactly those; the radial volume factor of the cylinder equals the polar cell volume. normalize_point (all periodicity-flag combinations x reflect x scalar/point/batch) and integrate (Cartesian/cylindrical/spherical volume data x data rank 0/1/number x all axes selections) are decided by interpreting the source on arrays of symbols.",
        "note": "Trusted: CPython ast, sympy (integrate, summation, simplify), the modulo lemma. Inverse maps of bipolar/bispherical (and angles "
        "modulo 2*pi) are spot-evaluated on the extracted terms and recorded as such. Not decided: get_random_point containment and points "
        "within round-off of a face; ScalarField.project only through the integrate weights.",
    },
    "C11": {
        "level": "other",
        "technique": "static: abstract interpretation of numpy/numba make_expression_function under all (single_arg, user_funcs, consts) configurations into sibling tables; reaching-definition (def-use) rules on differentiate/derivatives, from_expression, _check_signature; extracted SPECIAL_FUNCTIONS and axis-alias tables",
        "text": "NARROW CLAUSE ONLY -- does not establish that a compiled expression evaluates to its formula (that is produced at run time by "
        "sympy's parser, simplifier, printers and lambdify, which no static analysis of /repo can bound). Establishes structural necessary "
        "conditions: numpy and numba expression compilers use the same printer settings, user-function precedence and module order; "
        "constants and variables reach lambdify and the call in the same order; every special function is known to the printer, present in "
        "the namespace and implemented with the printed arity; derivatives are taken with respect to the requested symbol(s) in vars order "
        "and keep signature, user_funcs and consts (also in the copy constructors); from_expression passes coordinates in grid.axes order "
        "and writes components where they were read; alias lists and axis-alias tables map every alias to its canonical variable. Array-literal printers are interpreted in two stages (string building, then the emitted numpy code on symbolic entries): all components of rank-1 and rank-2 literals are broadcast jointly into shape tensor-shape + broadcast-shape; derivatives built with Matrix.jacobian are flagged unless transposed (derivative index first).",
        "note": "Trusted: sympy semantics (lambdify positional binding and module priority; known functions printed as name(args); Heaviside "
        "default second argument; derive_by_array index order); the LIB_MEANING table (numpy.heaviside/hypot, scipy.special.erf meaning and "
        "arity); dict insertion order. Run-time behaviour of sympy and numba is NOT decided; the private _make_expression_array route and "
        "evaluate() are not covered.",
    },
    "C10": {
        "level": "proof",
        "technique": "static: abstract interpretation of evolution_rate / make_evolution_rate into an affine-operator term language (Op(x) = Lin(x) + b); normal-form identity; grammar-based parsing of the advertised expression text; interpretation of the expression-PDE wiring",
        "text": "For the eight predefined equation classes the field-API rate and the compiled closure are interpreted from source with symbolic "
        "parameters and proved identical as normal forms in which every operator application is an uninterpreted affine map labelled by "
        "(operator, boundary-condition attribute, time passed): same parameters, same boundary condition per operator, args={'t': t} at every "
        "operator, same field order, and -L(x) distinguished from L(-x). The expression(s) text, evaluated from source and parsed with a "
        "grammar for the printed notation, equals the rate with boundary terms dropped. For the generic expression PDE: the first matching "
        "`var:operator` condition is used with the `*:*` default appended last, and the compiled expression is called in signature order "
        "with bc_args['t'] = t. evolution_rate never hands `state` or a member of it to FieldCollection (which re-links fields) or to an in-place update; the special cases of expr_prod are guarded by exact comparisons and print exactly c*expression.",
        "note": "Trusted: CPython ast, sympy. Operators with boundary conditions are assumed affine; parameters generic (not 0, +-1). Not decided: "
        "arbitrary user expressions (C11 narrow clause), the 6-significant-digit printing of parameters, round-off between backends.",
    },
    "C16": {
        "level": "proof",
        "technique": "static: ast->sympy formula extraction (fx) of the interpolation/insertion closures; path enumeration of the axis branch table via the decide callback with linear path conditions; slot-symbol interpretation of the 1/2/3-axis callers; sympy identities plus Fourier-Motzkin infeasibility proofs",
        "text": "For every shape, spacing, point and cell-volume table: the per-axis getter accepts exactly [-1/2, N-1/2] on bounded axes (every point "
        "on periodic ones) and returns in-range cells; its weights sum to 1, are non-negative and reproduce the coordinate; boundary strips use "
        "the nearest cell, periodic axes wrap modulo N, ghost-cell mode shifts indices by one. All three interpolators are the multilinear "
        "form with cell/weight pairing by tuple slot, hence exact at centres and on affine data, within the data range, and periodic; all "
        "callers test the sentinel before use. The compiled and the interpreted inserter add exactly `amount` to sum(V*u) and agree cell by "
        "cell on every region, including which points they reject. The interpreted inserter updates one cell per statement execution (a fancy-indexed `+=` over the list of support cells loses contributions on repeated cells).",
        "note": "Assumes real arithmetic (divmod(x, 1.0) exact; weights clipped below 1e-15), N >= 1, cell_volumes[i,...] is the volume of valid "
        "cell i. Trusted: fx interpreter, sympy, the Fourier-Motzkin prover in c16.py (infeasibility only). Ghost-cell values are C02's; "
        "points within round-off of a branch boundary are not decided.",
    },
}

# clauses added after the fourth batch of seeded changes (appended to the texts above by tools/gen_manifest.py; DESIGN.md section 10)
TEXT_ADDENDA = {
    "C01": "Kernels that store single cells after their loop get one more consistency row per such cell.",
    "C02": "GridBase._boundary_coordinates (used by both routes for expression conditions) is interpreted on grids with 1-3 axes of pairwise different sizes and returns the coordinates of the boundary point of every face cell; get_boundary_axis is interpreted for every documented spelling of (anti-)periodic axes.",
    "C03": "The resolved set_ghost_cells of every axis-level boundary class (including overrides) leaves the same padded array as the per-side setters chained in the order of the compiled route, hands `args` to both sides and lets MPI sides send before anything is set. No scalar is carried across prange iterations (syntax-level scan); matrix rows also for single-cell axes, boundary data taken for the face cell of the row.",
    "C04": "_cache_hash hooks recompute at every call; make_operator hands the resolved operator info to the cached back-end method; make_stepper reads no info entry the same call has not written; hash_mutable is called only in tools/cache.py and _cache_hash hooks (no hand-written memo outside the analysed decorators); cached evaluators of expression classes must carry `consts` in their key (two known findings); functions receiving `consts`/`user_funcs` do not change the caller's dictionary.",
    "C05": "Every fixed-step scheme has the increment form u + dt*(combination of rhs evaluations) with weight of the old state exactly 1, for every explicit_fraction.",
    "C06": "No value bound directly to a call of the rate function is updated in place by a stepper (the compiled rate may return its argument). Every numpy/numba stepping loop copies the array returned by the post-step hook back into its buffer parameter.",
    "C07": "Back-end make_stepper wrappers hand times through and return the inner stepper's result unmodified; info['steps'] is reset unconditionally when a stepper is built.",
    "C08": "Every make_stepper that publishes info['dt'] declares info['dt_adaptive']; a stepper not built from the fixed-step machinery declares it True. Constant tolerances are used only where the solver's own dt is unknown too; copies of interrupt objects carry every constructor parameter.",
    "C09": "Constructors of the lattice-based interrupts store dt, t_start, scale and factor as python floats (double precision cursor arithmetic). initialize assigns every cursor attribute that next feeds back before it is read, so a re-used interrupt object restarts its schedule.",
    "C10": "Every equation of a multi-field PDE gets its own operator table; coordinate arguments of the expression rate are bound to cell_coords in the order of grid.axes.",
    "C11": "Printers of logical connectives are decided in two stages (emission interpreted, emitted text evaluated with numpy's binary ufunc semantics on all truth assignments). tools.expressions.evaluate binds every coordinate name of the signature to the coordinate array of its own axis (interpreted slice, every subset of used axes).",
    "C12": "Every return path of difference_vector passes the periodic wrap; get_random_point draws within the bounds of the grid for both values of avoid_center; normalize_point converts the point to floating point before the in-place folding (integer coordinates are not truncated).",
    "C13": "noise_var(state, t) is evaluated inside every step closure; make_noise_variance yields one entry per data component carrying the variance of its field. The numpy noise closure is interpreted against a recording generator: call k returns the k-th block of the stream and nothing is drawn ahead.",
    "C14": "The exact-collapse rule also covers the JSON form of `state`; FieldCollection.copy keeps member labels; from_data allocates members with the dtype of the data.",
    "C15": "The duplicate-object test of FieldCollection.__init__ looks at the final list of field objects. Component access passes the parent's dtype, so components are views for every dtype.",
    "C17": "GridMesh.from_grid never stores the caller's grid object itself as a sub-grid.",
    "C18": "Matrix rows are also compared on shapes with a single cell along a Cartesian axis or the axial direction of cylinders; every get_sparse_matrix_data call passes the loop variables of the row besides the virtual index. The result field of solve_poisson_equation has the dtype of the right-hand side.",
    "C19": "Hand-written consumers of the rotation matrix contract R[k, i]*v_k; _basis_rotation divides by nothing that vanishes at an admissible point where the mapping itself is regular.",
    "C20": "extract_time_range replaces only a missing bound (None), never the legitimate bound 0.",
}

NOT_APPLICABLE: dict[str, str] = {}

NOTES = (
    "All checks are static: they parse /repo's working tree with ast on every run, never import or execute pde. "
    "Exit 0 ok / 1 VIOLATION / 2 ANALYSIS-ERROR (anchor vanished or syntax outside the extractor's grammar). "
    "Known findings: known_findings.json. Mutation self-test corpus: mutants/<id>.json (python -m pdelint.selftest)."
)

"""per-property claims that go into MANIFEST.json (see tools/gen_manifest.py)"""

CHECKS = {
    "C01": {
        "level": "proof",
        "technique": "static: ast->sympy abstract interpretation of operator factories/kernels into stencil tables; Taylor-residual valuation against continuum operators derived in the Cartesian embedding",
        "text": "For every operator registered on the numba backend (Cartesian 1-3d, polar, spherical, cylindrical; all documented "
        "option rows) and the d_d<axis>/d2_d<axis>2 family, the stencil read off the source is proved, identically in shape, "
        "spacing, position r>0 and inner radius, to equal the continuum operator up to O(h^2) (O(h) one-sided), with components "
        "in the documented order and the documented support. This is a proof about the extracted table for all inputs; the "
        "right level because the whole linear map is written down in a few lines of index arithmetic.",
        "note": "Trusted: CPython ast, sympy algebra, the continuum operators derived in pdelint/oracle.py, numba compiling Python "
        "semantics faithfully. Not decided: spectral (FFT) Laplacians, float round-off, near-axis uniformity (thorough tier only).",
    },
    "C02": {
        "level": "proof",
        "technique": "static: abstract interpretation (ast->sympy) of interpreted and compiled ghost-cell setters on shaped symbolic arrays; index tables + defining-equation identities",
        "text": "For every local boundary-condition class (Dirichlet, Neumann, Mixed incl. the infinite-coefficient repair branch, Curvature, "
        "periodic/anti-periodic, Normal* variants, Expression* with expression or callable, UserBC), each side, axis and 1-3 axes, "
        "rank 0/1 data, homogeneous and per-face values: the single store performed by the interpreted setter and by the compiled "
        "setter is extracted and proved to write exactly the virtual point of that side for all valid transverse cells (normal "
        "component iff `normal`), to read the adjacent cells with equal transverse/component indices, and to satisfy the defining "
        "equation identically in value, spacing and shape. Documented aliases are tied to the family whose equation was proved.",
        "note": "Trusted: CPython ast, sympy, sympy.parse_expr for the f-string templates, numba compiling Python semantics. Assumes >= 2 "
        "cells per axis. Not decided: meaning of arbitrary user expressions (C11); compiled MixedBC with linked value arrays; the "
        "parsing of nested BC specifications beyond the alias registry.",
    },
    "C05": {
        "level": "proof",
        "technique": "static: column-sum identities on stencil tables extracted by abstract interpretation, with cell volumes and ghost-cell formulas extracted from the grid / boundary-condition classes",
        "text": "Proves, identically in shape, spacing, position and inner radius, that every input cell has coefficient 0 in the "
        "volume-weighted sum of the discrete Laplacian (Cartesian 1-3d, polar, conservative spherical, cylindrical; zero-flux or "
        "periodic ghost cells as extracted from NeumannBC/_PeriodicBC) and of the central divergence (Cartesian, conservative "
        "spherical; normal Dirichlet-0 or periodic), for first/interior/last cells on every axis. Also: the configuration default "
        "selects the conservative spherical stencils, and the non-conservative Laplacian fails the identity (positive control).",
        "note": "Trusted: CPython ast, sympy; V(cell) = product of cell_volume_data factors. Not decided: whole-simulation consequence "
        "beyond linearity of explicit updates (C06), converged implicit iterations, round-off, one-sided divergence variants.",
    },
    "C18": {
        "level": "proof",
        "technique": "static: abstract interpretation of the sparse-matrix assemblers (row loops case-split first/interior/last + concrete 2-cell shapes) compared with the extracted numba stencil after ghost elimination; store-order rule; path rule for the residual test",
        "text": "All six Laplace-matrix assemblers (Cartesian 1-3d, polar, spherical, cylindrical) are interpreted from source with a "
        "recording sparse matrix; for Dirichlet/Neumann/Mixed/Curvature/periodic conditions per side, r_min = 0 and r_min > 0, every "
        "matrix row and vector entry is proved equal to the numba Laplace stencil with virtual points eliminated through "
        "get_virtual_point_data (so solving the matrix problem is solving the discrete problem the operators define). Additionally: "
        "no '=' after '+=' on one entry, every path of solve_poisson that writes the result passed an allclose(mat.dot(x), rhs) test, "
        "and solve_laplace_equation delegates to the Poisson solver.",
        "note": "Trusted: CPython ast, sympy, numpy C-order ravel, scipy.sparse dok semantics (=, +=, setdiag, *=). Symbolic rows assume "
        "N >= 3 per axis, N = 2 covered concretely for 1-2 axes. Not decided: accuracy of spsolve/lsmr beyond the residual test.",
    },
    "C03": {
        "level": "other",
        "technique": "static: sibling comparison of extracted summaries (stencil tables, ghost-cell stores, dispatch order, effect summaries); call-site/definition signature rule; loop-carried-dependence rule for nb.prange",
        "text": "Decides agreement of routes on what the code computes, for all inputs: scipy.ndimage kernels equal the numba kernels as "
        "stencil tables (all Cartesian operators, 1-3 axes, all methods); interpreted and compiled ghost-cell setters perform the same "
        "store (index and value) for every boundary class/side/axis and serve sides (high, low) and axes in the same order; the four "
        "operator-application bodies (numpy, numba apply_op, both overload implementations) have the same effect summary and hand `args` "
        "to the boundary conditions by keyword exactly once; every set_ghost_cells call site is compatible with the keyword-only `args`; "
        "every nb.prange kernel is free of loop-carried dependences and uses the common parallel flag, hence is schedule independent. "
        "The sparse-matrix route is decided by C18.",
        "note": "Sibling agreement, not an independent oracle (C01/C02 supply that). Trusted: documented semantics of ndimage.correlate1d/"
        "laplace, numba faithfully compiling Python, LLVM. Not decided: size of round-off differences between routes.",
    },
}

NOT_APPLICABLE: dict[str, str] = {}

NOTES = (
    "All checks are static: they parse /repo's working tree with ast on every run, never import or execute pde. "
    "Exit 0 ok / 1 VIOLATION / 2 ANALYSIS-ERROR (anchor vanished or syntax outside the extractor's grammar). "
    "Known findings: known_findings.json. Mutation self-test corpus: mutants/<id>.json (python -m pdelint.selftest)."
)

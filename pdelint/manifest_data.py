"""per-property claims that go into MANIFEST.json (see tools/gen_manifest.py)"""

CHECKS = {
    "C01": {
        "level": "proof",
        "technique": "static: ast->sympy abstract interpretation of operator factories/kernels into stencil tables; Taylor-residual valuation against continuum operators derived in the Cartesian embedding",
        "text": "For every operator registered on the numba backend (Cartesian 1-3d, polar, spherical, cylindrical; all documented "
        "option rows) and the d_d<axis>/d2_d<axis>2 family, the stencil read off the source is proved, identically in shape, "
        "spacing, position r>0 and inner radius, to equal the continuum operator up to O(h^2) (O(h) one-sided), with components "
        "in the documented order and the documented support. This is a proof about the extracted table for all inputs; the "
        "right level because the whole linear map is written down in a few lines of index arithmetic.",
        "note": "Trusted: CPython ast, sympy algebra, the continuum operators derived in pdelint/oracle.py, numba compiling Python "
        "semantics faithfully. Not decided: spectral (FFT) Laplacians, float round-off, near-axis uniformity (thorough tier only).",
    },
}

NOT_APPLICABLE: dict[str, str] = {}

NOTES = (
    "All checks are static: they parse /repo's working tree with ast on every run, never import or execute pde. "
    "Exit 0 ok / 1 VIOLATION / 2 ANALYSIS-ERROR (anchor vanished or syntax outside the extractor's grammar). "
    "Known findings: known_findings.json. Mutation self-test corpus: mutants/<id>.json (python -m pdelint.selftest)."
)

"""Runge-Kutta order conditions from rooted trees (Butcher), exact rational arithmetic."""

from __future__ import annotations

from functools import lru_cache

import sympy as sp


@lru_cache(maxsize=None)
def trees(order: int) -> tuple:
    """all rooted trees with `order` vertices; a tree is a sorted tuple of its subtrees"""
    if order == 1:
        return ((),)
    out = set()

    def partitions(n, maxpart):
        if n == 0:
            yield ()
            return
        for p in range(min(n, maxpart), 0, -1):
            for rest in partitions(n - p, p):
                yield (p,) + rest

    for part in partitions(order - 1, order - 1):
        # choose subtrees of the given sizes (multisets)
        def rec(k, chosen):
            if k == len(part):
                out.add(tuple(sorted(chosen)))
                return
            for t in trees(part[k]):
                rec(k + 1, chosen + [t])

        rec(0, [])
    return tuple(sorted(out))


def tree_order(t) -> int:
    return 1 + sum(tree_order(c) for c in t)


def density(t) -> int:
    g = tree_order(t)
    for c in t:
        g *= density(c)
    return g


def elementary_weights(t, A, s):
    """vector Phi_i(t), i = 0..s-1"""
    if not t:
        return [sp.Integer(1)] * s
    out = [sp.Integer(1)] * s
    for c in t:
        phi_c = elementary_weights(c, A, s)
        inner = [sum(A[i][j] * phi_c[j] for j in range(s)) for i in range(s)]
        out = [out[i] * inner[i] for i in range(s)]
    return out


def tree_name(t) -> str:
    return "[" + "".join(tree_name(c) for c in t) + "]" if t else "."


def order_conditions(A, b, order: int):
    """yield (tree name, residual) for all trees up to `order`"""
    s = len(b)
    for p in range(1, order + 1):
        for t in trees(p):
            phi = elementary_weights(t, A, s)
            lhs = sum(b[i] * phi[i] for i in range(s))
            yield p, tree_name(t), sp.nsimplify(lhs) - sp.Rational(1, density(t))


def stability_function(A, b, z):
    s = len(b)
    M = sp.eye(s) - z * sp.Matrix(A)
    ones = sp.ones(s, 1)
    return sp.simplify(1 + z * (sp.Matrix([b]) * M.inv() * ones)[0, 0])

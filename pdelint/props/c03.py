"""C03 -- every route to the same operator-with-BC result agrees (sibling agreement).

(a) numba vs scipy Cartesian raw kernels: equal stencil tables;
(c) interpreted vs compiled ghost-cell setters: equal extracted stores, and the same
    order of sides (high, low) and axes in every route;
(d) the bodies that apply an operator with boundary conditions (numpy ``apply_operator``,
    numba ``apply_op`` and both ``apply_op_impl`` overloads) have the same effect summary;
(e) call convention: every call of a ``set_ghost_cells`` method is compatible with the
    keyword-only ``args`` parameter of the definitions it may reach;
(f) schedule independence of every ``nb.prange`` kernel.
(b) -- the sparse-matrix route -- is decided by C18 and referenced here.
"""

from __future__ import annotations

import ast
import itertools
import multiprocessing as mp
import os

import numpy as np
import sympy as sp
from sympy.core.function import AppliedUndef

from .. import scipy_model
from ..core import AnalysisError, Report
from ..fx import ALL, Closure, Interp, Model, Opaque, RaisedInCode, SymArray, UFunc, Unsupported, make_grid_model
from ..index import ClassInfo, dotted, get_index
from ..kernels import apply_kernel, backend_model, read_config_defaults, registrations, run_factory, std_overrides
from ..stencil import kernel_table
from . import c01, c02

NB = "pde/backends/numba/backend.py"
NP = "pde/backends/numpy/backend.py"
AXIS = "pde/grids/boundaries/axis.py"
AXES = "pde/grids/boundaries/axes.py"

# prange loops that are not operator kernels: one named construct + reason each
PRANGE_EXCEPTIONS = {
    "pde/backends/numba/utils.py": "NumbaEnvironment self-test: a scalar reduction over 4 items used only to probe threading support, not a data kernel",
}


# ----------------------------------------------------------------------------
# (a) numba vs scipy
# ----------------------------------------------------------------------------
def scipy_table(ix, cfg, reg, n_axes, options):
    grid = make_grid_model(ix, "CartesianGrid", n_axes)
    it = Interp(ix, overrides=std_overrides(ix, cfg))
    it.overrides["uniform_discretization"] = lambda g: g._attrs["discretization"].items[0]
    scipy_model.install(it, n_axes)
    fac = it.make_closure(reg.factory, it.module_env(reg.factory.module))
    closure = it.call(fac, (grid,), dict(options))
    arr = SymArray("arr", shape=(n_axes,) * reg.rank_in + tuple(grid._attrs["_shape_full"]))
    out = SymArray("out", shape=(n_axes,) * reg.rank_out + tuple(grid._attrs["shape"]))
    n0 = len(it.stores)
    it.call(closure, (arr, out), {})
    comps = {}
    for idx, v in it.final_stores("out").items():
        if any(i is ALL for i in idx):
            continue
        comp = tuple(int(c) for c in idx[: len(idx) - n_axes])
        spat = idx[len(idx) - n_axes :]
        for s, lv in zip(spat, [sp.Symbol(n, integer=True) for n in scipy_model.GENERIC[:n_axes]]):
            if sp.simplify(s - (lv - 1)) != 0:
                raise Unsupported(f"scipy store index {idx}")
        comps[comp] = sp.sympify(v)
    funcs = sorted({s.func for s in it.stores[n0:] if s.base == "out"})
    return grid, comps, funcs


def _ab_job(job):
    name, n_axes, options = job
    ix = get_index()
    cfg = read_config_defaults(ix)
    sreg = [r for r in registrations(ix, "ScipyBackend", "pde/backends/scipy/operators/") if r.name == name and r.grid_cls == "CartesianGrid"]
    nreg = [r for r in registrations(ix, "NumbaBackend", "pde/backends/numba/operators/") if r.name == name and r.grid_cls == "CartesianGrid"]
    if not sreg or not nreg:
        return {"job": job, "error": f"registration of `{name}` vanished on one backend"}
    try:
        grid, sc, sfuncs = scipy_table(ix, cfg, sreg[0], n_axes, options)
        g2 = make_grid_model(ix, "CartesianGrid", n_axes)
        it, closure = run_factory(ix, nreg[0].factory, g2, options, cfg)
        k = apply_kernel(it, closure, g2, factory=nreg[0].factory.ref, options=options)
        nb_tab = kernel_table(k, n_axes).comps
    except RaisedInCode as e:
        return {"job": job, "error": f"raised {e.exc_name}", "module": nreg[0].factory.module.rel}
    except Unsupported as e:
        return {"job": job, "error": str(e), "module": nreg[0].factory.module.rel}
    hs = grid._attrs["discretization"].items
    uniform = {h: hs[0] for h in hs[1:]} if "laplace" in name else {}
    diffs = []
    if (sreg[0].rank_in, sreg[0].rank_out) != (nreg[0].rank_in, nreg[0].rank_out):
        diffs.append(("ranks", f"scipy {(sreg[0].rank_in, sreg[0].rank_out)} vs numba {(nreg[0].rank_in, nreg[0].rank_out)}"))
    for comp in sorted(set(sc) | set(nb_tab)):
        a = sc.get(comp)
        b = nb_tab.get(comp)
        if a is None or b is None:
            diffs.append((str(comp), f"component written by {'numba' if a is None else 'scipy'} only"))
            continue
        d = sp.simplify((a - b).subs(uniform))
        if d != 0:
            diffs.append((str(comp), f"scipy: {a}   numba: {b}"))
    return {"job": job, "diffs": diffs, "scipy_funcs": sfuncs, "factory": sreg[0].factory.ref, "sample": {str(c): str(v) for c, v in list(sc.items())[:1]}}


# ----------------------------------------------------------------------------
# (c) interpreted vs compiled ghost-cell setters
# ----------------------------------------------------------------------------
def _ghost_job(job):
    cname, n_axes, axis, upper, rank, flip = job
    ix = get_index()
    cfg = read_config_defaults(ix)
    res = {}
    for route in ("python", "numba"):
        try:
            grid, bc, normal, stores, it = c02.run_route(ix, cfg, route, cname, n_axes, axis, upper, rank, None, True, flip=flip)
        except RaisedInCode as e:
            return {"job": job, "error": f"{route} raised {e.exc_name}"}
        except Unsupported as e:
            return {"job": job, "error": f"{route}: {e}"}
        if len(stores) != 1:
            return {"job": job, "diff": f"{route} route performs {len(stores)} stores"}
        problems, g = c02.analyse_store(stores[0], grid, axis, upper, rank, normal, n_axes)
        # canonical written index
        idx = stores[0].idx
        canon = []
        Ns = grid._attrs["shape"]
        for k, e in enumerate(idx[rank:]):
            if k == axis:
                canon.append(str(c02.classify_axis_index(e, Ns[k])))
            else:
                canon.append(c02.transverse_canon(e, Ns[k], stores[0].loops)[0])
        comps = [("ALL" if c is ALL else str(c)) for c in idx[:rank]]
        res[route] = (tuple(comps), tuple(canon), g, stores[0].func)
    (c1, w1, g1, f1), (c2_, w2, g2, f2) = res["python"], res["numba"]
    diff = None
    if c1 != c2_ or w1 != w2:
        diff = f"written index differs: interpreted {c1 + w1}, compiled {c2_ + w2}"
    elif g1 is None or g2 is None or sp.simplify(g1 - g2) != 0:
        diff = f"ghost value differs: interpreted `{g1}`, compiled `{g2}`"
    return {"job": job, "diff": diff, "funcs": (f1, f2), "value": str(g1)}


def side_order(ix, cfg):
    """order in which the two sides of an axis / the axes are served by each route"""
    out = {}
    # interpreted: BoundaryAxisBase.set_ghost_cells
    log: list[str] = []

    def side(name):
        return Model(
            f"bc-{name}",
            {
                "set_ghost_cells": lambda d, args=None: log.append(name),
                "send_ghost_cells": lambda d, args=None: log.append("send-" + name),
                "__isinstance__": lambda c: False,
                "grid": Model("g", {"num_axes": 1, "periodic": [False], "shape": (3,)}),
                "axis": 0,
                "periodic": False,
                "rank": 0,
                "upper": name == "high",
            },
        )

    it = Interp(ix, overrides=std_overrides(ix, cfg))
    axis_cls = ix.cls(AXIS, "BoundaryAxisBase")
    ax = Model("axis", {"low": side("low"), "high": side("high")}, cls=axis_cls)
    it.call(it.getattr(ax, "set_ghost_cells"), (Opaque("data"),), {"args": None})
    out["python-sides"] = list(log)
    # compiled: NumbaBackend._make_axis_ghost_cell_setter
    log2: list[str] = []
    be = backend_model()
    be._attrs["_make_local_ghost_cell_setter"] = lambda bc: (lambda d, args=None: log2.append(bc))
    f = ix.func(NB, "NumbaBackend._make_axis_ghost_cell_setter")
    it2 = Interp(ix, overrides=std_overrides(ix, cfg, be))
    setter = it2.call(it2.make_closure(f, it2.module_env(f.module)), (be, Model("axis", {"low": "low", "high": "high"})), {})
    it2.call(setter, (Opaque("data"),), {"args": None})
    out["numba-sides"] = list(log2)
    # axes order, interpreted
    log3: list[int] = []
    list_cls = ix.cls(AXES, "BoundariesList")
    axes = [Model(f"ax{k}", {"set_ghost_cells": (lambda k: lambda d, args=None: log3.append(k))(k)}) for k in range(3)]
    bl = Model("bcs", {"__iter__": lambda: list(axes), "grid": Model("g", {"num_axes": 3})}, cls=list_cls)
    it3 = Interp(ix, overrides=std_overrides(ix, cfg))
    it3.call(it3.getattr(bl, "set_ghost_cells"), (Opaque("data"),), {"args": None})
    out["python-axes"] = list(log3)
    # axes order, compiled
    log4: list[int] = []
    be2 = backend_model()
    be2._attrs["_make_axis_ghost_cell_setter"] = lambda a: (lambda d, args=None: log4.append(a))
    f2 = ix.func(NB, "NumbaBackend.make_ghost_cell_setter")
    it4 = Interp(ix, overrides=std_overrides(ix, cfg, be2))
    bl2 = Model("bcs", {"__iter__": lambda: [0, 1, 2]}, cls=list_cls)
    setter = it4.call(it4.make_closure(f2, it4.module_env(f2.module)), (be2, bl2), {})
    it4.call(setter, (Opaque("data"),), {"args": None})
    out["numba-axes"] = list(log4)
    return out


# ----------------------------------------------------------------------------
# (d) effect summaries of the operator-application bodies
# ----------------------------------------------------------------------------
def apply_summaries(ix, cfg):
    """returns {route: [events]} for the four bodies"""
    res = {}
    ARGS = sp.Symbol("ARGS")

    def run(body_name, closure_getter, out_given):
        events: list = []

        def rec(kind):
            def f(*a, **k):
                names = []
                for x in a:
                    names.append(getattr(x, "_name", None) or getattr(x, "name", None) or str(x))
                kw = {kk: (getattr(v, "_name", None) or getattr(v, "name", None) or str(v)) for kk, v in k.items()}
                events.append((kind, tuple(names), tuple(sorted(kw.items()))))
                return None

            return f

        class Arr(Model):
            pass

        def new_arr(name, shape):
            events.append(("alloc", name, str(shape)))
            return Model(name, {"shape": shape, "dtype": "dtype", "__setitem__": lambda key, v, aug, st: events.append(("fill-valid", name, getattr(v, "_name", str(v)), str(key))), "__isinstance__": lambda c: True}, strict=True)

        counter = {"n": 0}

        def np_empty(shape, dtype=None):
            counter["n"] += 1
            # the first allocation in program order is `out` when it was not supplied
            return new_arr(f"alloc{counter['n']}:{shape}", shape)

        grid = Model("grid", {"dim": 2, "num_axes": 2, "shape": ("N0", "N1"), "_shape_full": ("N0+2", "N1+2"), "_idx_valid": (("slice", 1, -1, None), ("slice", 1, -1, None))})
        bcs = Model("bcs", {"set_ghost_cells": rec("ghost"), "grid": grid, "rank": 0})
        return events, np_empty, grid, bcs, rec

    # numpy backend --------------------------------------------------------
    for route, rel, qn in (("numpy", NP, "NumpyBackend.make_operator"), ("numba", NB, "NumbaBackend.make_operator")):
        for out_given in (False, True):
            events, np_empty, grid, bcs, rec = run(route, None, out_given)
            be_cls = ix.cls(rel, qn.split(".")[0])
            raw = rec("operator_raw")
            info = Model("opinfo", {"factory": lambda g, **k: raw, "rank_in": 0, "rank_out": 0})
            be = Model(
                "backend",
                {
                    "get_operator_info": lambda g, o: info,
                    "compile_function": lambda f, **k: f,
                    "_config_parameter": lambda *a: None,
                    "_logger": Model("logger", {k_: (lambda *a, **kw: None) for k_ in ("info", "warning", "debug", "error")}),
                    "make_ghost_cell_setter": lambda b: (lambda d, args=None: rec("ghost")(d, args=args)),
                    "__isinstance__": lambda c: True,
                },
                cls=be_cls,
            )
            ov = std_overrides(ix, cfg, be)
            ov["is_jitted"] = lambda f: True
            it = Interp(ix, overrides=ov)
            it.np["empty"] = np_empty
            f = ix.func(rel, qn)
            try:
                op = it.call(it.make_closure(f, it.module_env(f.module)), (be, grid, "laplace"), {"bcs": bcs})
            except (Unsupported, RaisedInCode) as e:
                raise AnalysisError(f"{rel}::{qn}: {e}") from e
            arr = Model("arr", {"shape": ("N0", "N1"), "dtype": "dtype", "_name": "arr", "__isinstance__": lambda c: True})
            outm = (
                Model(
                    "out",
                    {
                        "shape": ("N0", "N1"),
                        "_name": "out",
                        "__isinstance__": lambda c: not (isinstance(c, Opaque) and c.name.split(".")[-1] in ("NoneType", "Omitted")),
                    },
                )
                if out_given
                else None
            )
            bodies = {}
            if isinstance(op, Closure):
                # numba: `apply_op_compiled` calls apply_op; the overload provides the compiled bodies
                target = None
                try:
                    target = op.env.lookup("apply_op")
                except KeyError:
                    pass
                if target is not None and route == "numba":
                    bodies["apply_op"] = target
                    for name, a, k in target.decorators:
                        if name == "overloaded_by":
                            gen = a[0]
                            impl = it.call(gen, (arr, outm), {"args": None})
                            bodies["apply_op_impl"] = impl
                else:
                    bodies["apply_operator"] = op
            for bname, body in bodies.items():
                del events[:]
                try:
                    ret = it.call(body, (arr, outm), {"args": ARGS})
                except (Unsupported, RaisedInCode) as e:
                    raise AnalysisError(f"{rel}::{qn}.{bname}: {e}") from e
                events.append(("return", getattr(ret, "_name", "fresh" if ret is not None else "None")))
                res[f"{route}:{bname}:out={'given' if out_given else 'None'}"] = (list(events), body.qualname)
    return res


def normalise_events(events):
    """[(kind, ...)] -> canonical effect summary"""
    out = []
    for ev in events:
        kind = ev[0]
        if kind == "alloc":
            out.append(("alloc", ev[2]))
        elif kind == "fill-valid":
            out.append(("fill-valid", "arr" if ev[2] == "arr" else ev[2]))
        elif kind == "ghost":
            kw = dict(ev[2])
            out.append(("ghost-cells", "args=" + str(kw.get("args", "<not passed>")), f"positional={len(ev[1])}"))
        elif kind == "operator_raw":
            out.append(("operator_raw", len(ev[1])))
        elif kind == "return":
            out.append(("return", "out" if ev[1] in ("out",) else ("fresh-out" if ev[1] != "None" else "None")))
    return out


# ----------------------------------------------------------------------------
# (e) call convention of set_ghost_cells
# ----------------------------------------------------------------------------
def call_convention(rep: Report, ix):
    defs = [f for f in ix.all_functions() if f.node.name == "set_ghost_cells" and f.cls is not None and f.module.rel.startswith("pde/grids/boundaries")]
    rep.floor("definitions of boundary set_ghost_cells", len(defs), 8)
    cap = min(len(d.node.args.args) - 1 for d in defs)  # positional capacity (without self)
    has_varargs = all(d.node.args.vararg is not None for d in defs)
    kwnames = set.intersection(*[{a.arg for a in d.node.args.kwonlyargs} | {a.arg for a in d.node.args.args[1:]} for d in defs])
    n_sites = 0
    field_defs = {f.cls.name for f in ix.all_functions() if f.node.name == "set_ghost_cells" and f.cls is not None and not f.module.rel.startswith("pde/grids/boundaries")}
    for f in ix.all_functions():
        if f.module.rel.startswith(("pde/backends/torch", "pde/backends/jax")):
            continue
        for node in ast.walk(f.node):
            if not (isinstance(node, ast.Call) and isinstance(node.func, ast.Attribute) and node.func.attr == "set_ghost_cells"):
                continue
            # only direct children of this function (nested defs are visited on their own)
            if _owner(f.node, node) is not f.node:
                continue
            recv = node.func.value
            # calls on a field object (self inside a field class, other receivers named like fields) use another method
            if isinstance(recv, ast.Name) and recv.id == "self" and f.cls is not None and f.cls.name in field_defs | _subclass_names(ix, field_defs):
                continue
            if isinstance(recv, ast.Name) and recv.id == "self" and _enclosing_class(f) is not None and _enclosing_class(f).name in field_defs | _subclass_names(ix, field_defs):
                continue
            n_sites += 1
            npos = sum(1 for a in node.args if not isinstance(a, ast.Starred))
            star = [a for a in node.args if isinstance(a, ast.Starred)]
            bad = None
            if npos > cap and not has_varargs:
                bad = f"{npos} positional arguments, the definitions accept {cap}"
            elif star and not has_varargs:
                bad = f"a starred positional argument `*{ast.unparse(star[0].value)}` is passed although the definitions accept only {cap} positional argument(s) and `args` is keyword-only"
            for kw in node.keywords:
                if kw.arg is not None and kw.arg not in kwnames and not any(d.node.args.kwarg for d in defs):
                    if kw.arg not in set.union(*[{a.arg for a in d.node.args.kwonlyargs} for d in defs]):
                        bad = f"unknown keyword `{kw.arg}`"
            rep.oblige(f"call-convention:{f.ref}:{ast.unparse(node)[:50]}", bad is None, bad)
            if bad:
                rep.violation(
                    "C03.call-convention",
                    f"{f.ref}::call-set_ghost_cells::{'starred' if star else 'positional'}",
                    f"`{ast.unparse(node)}`: {bad}; this route raises TypeError (or drops `args`) where the other routes work",
                    line=node.lineno,
                )
    rep.floor("call sites of boundary set_ghost_cells", n_sites, 6)


def _owner(func_node, target):
    """innermost FunctionDef containing target"""
    best = None

    def visit(n, cur):
        nonlocal best
        for ch in ast.iter_child_nodes(n):
            c2 = ch if isinstance(ch, (ast.FunctionDef, ast.Lambda)) else cur
            if ch is target:
                best = cur
                return True
            if visit(ch, c2):
                return True
        return False

    visit(func_node, func_node)
    return best


def _enclosing_class(f):
    g = f
    while g is not None:
        if g.cls is not None:
            return g.cls
        g = g.parent
    return None


def _subclass_names(ix, names):
    out = set()
    for c in ix.all_classes():
        if any(b.name in names for b in c.mro()):
            out.add(c.name)
    return out


# ----------------------------------------------------------------------------
# (f) prange schedule independence
# ----------------------------------------------------------------------------
def _prange_job(job):
    gcls, name, n_axes, options, extra = job
    ix = get_index()
    cfg = read_config_defaults(ix)
    cfg.update(extra.get("config", {}))
    reg = [r for r in registrations(ix, "NumbaBackend", "pde/backends/numba/operators/") if r.grid_cls == gcls and r.name == name][0]
    grid = make_grid_model(ix, gcls, n_axes, periodic=extra.get("periodic"))
    try:
        it, closure = run_factory(ix, reg.factory, grid, options, cfg)
        k = apply_kernel(it, closure, grid, factory=reg.factory.ref, options=options)
    except (Unsupported, RaisedInCode) as e:
        return {"job": job, "error": str(e), "module": reg.factory.module.rel}
    problems = []
    pr = [lp for lp in k.loops if lp.kind == "prange"]
    funcs = sorted({lp.func for lp in pr})
    lines = sorted({(lp.func, lp.line) for lp in pr})
    for lp in pr:
        if lp.carried:
            problems.append((lp.func, f"scalar(s) {sorted(lp.carried)} carried across iterations of the prange loop over `{lp.var}`"))
        pos_by_base = {}
        for st in k.stores:
            if lp not in st.loops:
                continue
            hit = [p for p, e in enumerate(st.idx) if sp.sympify(e).has(lp.sym)]
            if len(hit) != 1:
                problems.append((st.func, f"store {st.base}{list(st.idx)} inside prange({lp.var}) is indexed by the loop variable in {len(hit)} positions"))
                continue
            e = sp.sympify(st.idx[hit[0]])
            if sp.simplify(sp.diff(e, lp.sym) - 1) != 0 or (e - lp.sym).has(lp.sym):
                problems.append((st.func, f"store index `{e}` is not `{lp.var} + const`"))
            # position relative to the end of the index tuple (components may be prepended)
            rel = len(st.idx) - hit[0]
            pos_by_base.setdefault(st.base, set()).add(rel)
            if st.base != "out":
                problems.append((st.func, f"the input array `{st.base}` is written inside the prange loop"))
        written = {st.base for st in k.stores if lp in st.loops}
        for base, idx, loops, func in it.reads:
            if lp not in loops or base not in written:
                continue
            full = [e for e in idx if e is not ALL]
            # aliases such as out_rr = out[0, 0] are partial reads (no loop variable): harmless
            if not any(sp.sympify(e).has(lp.sym) for e in full):
                continue
            # reading exactly a cell stored in this iteration (+=) is fine
            same = any(st.base == base and lp in st.loops and tuple(sp.sympify(a) for a in st.idx) == tuple(sp.sympify(a) for a in idx) for st in k.stores)
            if not same:
                problems.append((func, f"store target `{base}` is read at {list(idx)} inside the prange loop over `{lp.var}`"))
        for b, poss in pos_by_base.items():
            if len(poss) > 1:
                problems.append((lp.func, f"stores to `{b}` use the prange variable at different axis positions {sorted(poss)}"))
    pars = set()
    for lp in pr:
        for name_, a_, kw_ in it.closure_decorators.get(lp.func, []):
            if name_ in ("jit", "njit") and "parallel" in kw_:
                pars.add(str(kw_["parallel"]))
    par = sorted(pars)[0] if len(pars) == 1 else (f"inconsistent {sorted(pars)}" if pars else "None")
    return {"job": job, "prange_funcs": funcs, "prange_sites": lines, "problems": problems, "parallel": par, "shape": [str(s) for s in grid._attrs["shape"]]}


def prange_sites(ix):
    sites = []
    for m in ix.modules.values():
        if not m.rel.startswith("pde/backends/numba"):
            continue
        for f in m.functions.values():
            for node in ast.walk(f.node):
                if isinstance(node, ast.For) and isinstance(node.iter, ast.Call) and dotted(node.iter.func).endswith("prange") and _owner(f.node, node) is f.node:
                    sites.append((m.rel, f.qualname, node.lineno))
    return sites


ALLOCATORS = {"np.empty", "np.zeros", "np.ones", "np.full", "np.empty_like", "np.zeros_like", "np.ones_like", "np.full_like", "np.array", "np.copy"}


def prange_shared_writes(ix):
    """syntax-level dependence scan of every nb.prange loop: a store inside the loop body must
    go to a function parameter indexed by the prange variable, or to an array allocated inside
    the loop body (private to the iteration).  A store to an array that lives outside the loop
    and is not indexed by the prange variable is shared by all threads: a data race.
    Returns [(rel, qualname, line, message)]."""
    out = []
    for m in ix.modules.values():
        if not m.rel.startswith("pde/backends/numba"):
            continue
        for f in m.functions.values():
            params = {a.arg for a in f.node.args.args + f.node.args.kwonlyargs}
            for loop in ast.walk(f.node):
                if not (isinstance(loop, ast.For) and isinstance(loop.iter, ast.Call) and dotted(loop.iter.func).endswith("prange") and _owner(f.node, loop) is f.node):
                    continue
                if not isinstance(loop.target, ast.Name):
                    continue
                pv = loop.target.id
                # names that depend on the prange variable (i_s = i - 1 ...) and arrays allocated per iteration
                dep = {pv}
                private = set()
                changed = True
                body_nodes = [n for st in loop.body for n in ast.walk(st)]
                while changed:
                    changed = False
                    for n in body_nodes:
                        if isinstance(n, ast.Assign) and len(n.targets) == 1 and isinstance(n.targets[0], ast.Name):
                            t = n.targets[0].id
                            if t not in dep and any(isinstance(x, ast.Name) and x.id in dep for x in ast.walk(n.value)):
                                dep.add(t)
                                changed = True
                            if isinstance(n.value, ast.Call) and dotted(n.value.func) in ALLOCATORS and t not in private:
                                private.add(t)
                                changed = True
                            # views of the prange slice of a parameter: out_x = out[i] ...
                            if isinstance(n.value, ast.Subscript) and t not in private and any(isinstance(x, ast.Name) and x.id in dep for x in ast.walk(n.value.slice)):
                                private.add(t)
                                changed = True
                for n in body_nodes:
                    targets = []
                    if isinstance(n, ast.Assign):
                        targets = n.targets
                    elif isinstance(n, ast.AugAssign):
                        targets = [n.target]
                    for t in targets:
                        if not isinstance(t, ast.Subscript):
                            continue
                        base = t.value
                        while isinstance(base, ast.Subscript):
                            base = base.value
                        if not isinstance(base, ast.Name):
                            continue
                        if base.id in private:
                            continue
                        uses_pv = any(isinstance(x, ast.Name) and x.id in dep for x in ast.walk(t.slice))
                        # views of a parameter may be aliased before the loop (out_x = out[0]); those are indexed by pv inside
                        if not uses_pv:
                            where = "a parameter" if base.id in params else "an array that lives outside the loop"
                            out.append((m.rel, f.qualname, n.lineno, f"`{ast.unparse(t)}` is stored inside `for {pv} in nb.prange(...)` but `{base.id}` is {where} and the index does not involve `{pv}`: all threads write the same cells (data race; the result depends on the schedule)"))
                # scalars carried from one iteration to the next: a local name whose first occurrence in the body (in
                # program order) is a read, and which the body also re-binds, holds the value of the *previous* iteration;
                # numba privatises such scalars per thread without a warning (recognised reductions `x += ...` excepted)
                first: dict[str, str] = {}
                bound: dict[str, int] = {}
                reduction_only: dict[str, bool] = {}

                def occ(node):
                    # evaluation order: value before targets
                    if isinstance(node, ast.Assign):
                        occ(node.value)
                        for t_ in node.targets:
                            occ(t_)
                        return
                    if isinstance(node, ast.AugAssign):
                        if isinstance(node.target, ast.Name):
                            first.setdefault(node.target.id, "aug")
                            bound.setdefault(node.target.id, node.lineno)
                            reduction_only[node.target.id] = reduction_only.get(node.target.id, True) and isinstance(node.op, (ast.Add, ast.Mult, ast.Sub))
                            occ(node.value)
                            return
                        occ(node.value)
                        occ(node.target)
                        return
                    if isinstance(node, ast.For):
                        occ(node.iter)
                        occ(node.target)
                        for b_ in node.body + node.orelse:
                            occ(b_)
                        return
                    if isinstance(node, ast.Name):
                        if isinstance(node.ctx, ast.Load):
                            first.setdefault(node.id, "load")
                        else:
                            first.setdefault(node.id, "store")
                            bound.setdefault(node.id, node.lineno)
                            reduction_only[node.id] = False
                        return
                    for ch in ast.iter_child_nodes(node):
                        occ(ch)

                for st in loop.body:
                    occ(st)
                for nm, kind in first.items():
                    if nm == pv or nm not in bound:
                        continue
                    if kind == "load" and not reduction_only.get(nm, False):
                        out.append((m.rel, f.qualname, bound[nm], f"`{nm}` is read in `for {pv} in nb.prange(...)` before the iteration assigns it and is re-bound at line {bound[nm]}: its value is carried over from the previous iteration, which does not exist under a parallel schedule (numba makes the scalar private per thread): the result depends on the schedule"))
    return out


# ----------------------------------------------------------------------------
def binary_operator_routes(rep: Report, ix):
    """(g) dot / outer products: field method, numpy closure and numba overload, each with
    `out` given and with `out` allocated, are interpreted on arrays of distinct symbols
    (pdelint/tensoralg.py); within one group (ranks, dim, conjugate) every route must return
    and all routes must return the same entries"""
    from .. import tensoralg as ta

    outs = [o for o in ta.all_outcomes(ix) if o.route in ("field", "numpy", "numba") and not o.group.startswith("transpose")]
    groups: dict[str, list] = {}
    for o in outs:
        groups.setdefault(o.group, []).append(o)
    reported = set()
    for gname, group in sorted(groups.items()):
        rep.saw("binary-operator route groups", gname)
        returning = [o for o in group if o.raised is None]
        raising = [o for o in group if o.raised is not None]
        ok = not raising or not returning
        rep.oblige(f"binary-operator routes all return: {gname} ({len(group)} routes)", ok, [(o.site, o.scenario, o.raised) for o in raising[:3]])
        if not ok:
            for o in raising:
                key = (o.site, o.role, bool(o.scenario.get("out given")))
                if key in reported:
                    continue
                reported.add(key)
                og = "given" if o.scenario.get("out given") else "None"
                rep.violation(
                    "C03.binary-operator-route",
                    f"{o.site}::{o.role}::out={og}::raises",
                    f"{o.site} ({o.route} route, out={og}) ends in `{o.raised}` for {o.role} in scenario {o.scenario}, while {returning[0].site} (out={'given' if returning[0].scenario.get('out given') else 'None'}) returns a result for the same operands",
                    line=o.line,
                )
        for o in returning:
            if o.mismatches and o.mismatches[0][0] == "out-not-filled":
                key = (o.site, o.role, "out-not-filled")
                if key not in reported:
                    reported.add(key)
                    rep.violation(
                        "C03.binary-operator-route",
                        f"{o.site}::{o.role}::out=given::not-filled",
                        f"{o.site} ({o.route} route) returns {o.role} but leaves the array passed as `out` unwritten in scenario {o.scenario}: evaluation with an `out` array does not deliver the result there",
                        line=o.line,
                    )
        rep.oblige(f"binary-operator routes fill `out`: {gname}", not any(o.mismatches and o.mismatches[0][0] == "out-not-filled" for o in returning), len(returning))
        if len(returning) > 1:
            ref = returning[0]
            for o in returning[1:]:
                diff = ta.arrays_equal(o.value, ref.value)
                same = not diff and not o.uninit and not ref.uninit
                if not same:
                    key = (o.site, o.role, "differs")
                    if key in reported:
                        continue
                    reported.add(key)
                    og = "given" if o.scenario.get("out given") else "None"
                    rep.violation(
                        "C03.binary-operator-route",
                        f"{o.site}::{o.role}::out={og}::differs",
                        f"{o.site} ({o.route} route, out={og}) and {ref.site} ({ref.route} route) disagree on {o.role} in scenario {o.scenario}: {diff[:1] or 'uninitialised entries'}",
                        line=o.line,
                    )
            rep.oblige(f"binary-operator routes agree: {gname}", all(not ta.arrays_equal(o.value, ref.value) for o in returning[1:]), len(returning))
    rep.floor("binary-operator route groups (ranks x dim x conjugate)", len(groups), 27)


def axis_level_routes(rep: Report, ix, compiled_order):
    """(h) the interpreted ghost-cell route at the level of one axis: for every class of
    pde/grids/boundaries/axis.py the resolved `set_ghost_cells` is interpreted (npsem) on a small
    padded array of distinct symbols.  The two sides are stand-ins carrying the per-side
    semantics that rules (c)/C02 establish for the local classes (periodic: sign * opposite
    valid layer, written on the valid range of the other axes; other pairs: an uninterpreted
    function of the adjacent valid layer).  The array left behind must equal the one obtained by
    applying the same stand-ins in the order in which the compiled route chains the sides, the
    caller's `args` must reach both sides, and MPI sides must send before anything is set."""
    from .. import npsem as ns

    axis_cls = ix.cls(AXIS, "BoundaryAxisBase")
    classes = [c for c in ix.subclasses(axis_cls) if c.module.rel == AXIS]
    rep.floor("axis-level boundary classes", len(classes), 3)
    ARGS = ns.Opaque("ARGS")
    n_scen = 0
    for c in classes:
        fi = c.find_method("set_ghost_cells")
        if fi is None:
            raise AnalysisError(f"{c.ref}: no set_ghost_cells resolved")
        periodic = c.name == "BoundaryPeriodic" or any(b.name == "BoundaryPeriodic" for b in c.mro())
        where = f"{fi.module.rel}::{fi.qualname}"
        rep.saw("axis-level ghost-cell routes", f"{c.name} -> {where}")
        bad: dict[str, str] = {}
        thorough = os.environ.get("PDELINT_TIER") == "thorough"
        geoms = ((1, 0), (2, 0), (2, 1), (3, 1)) + (((3, 0), (3, 2)) if thorough else ())
        for num_axes, axis in geoms:
            for rank in (0, 1, 2) if thorough else (0, 1):
                for flip in ((False, True) if periodic else (False,)):
                    for mpi in ((False,) if periodic else (False, True)):
                        n_scen += 1
                        scen = f"axes={num_axes} axis={axis} rank={rank}" + (" flip_sign" if flip else "") + (" mpi" if mpi else "")
                        shape = (2,) * rank + (5,) * num_axes
                        log: list = []

                        def make_side(name, upper, data_ref):
                            F = sp.Function(f"bc_{name}")
                            sign = -1 if flip else 1

                            def write(data_full, *, args=None):
                                log.append((name, "set", args is ARGS, data_full is data_ref[0]))
                                w = [slice(None)] * rank + [slice(1, -1)] * num_axes
                                r = list(w)
                                w[rank + axis] = -1 if upper else 0
                                if periodic:
                                    r[rank + axis] = 1 if upper else -2
                                    data_full[tuple(w)] = sign * data_full[tuple(r)]
                                else:
                                    r[rank + axis] = -2 if upper else 1
                                    src = data_full[tuple(r)]
                                    if isinstance(src, np.ndarray):
                                        val = np.empty(src.shape, dtype=object)
                                        for i in np.ndindex(src.shape):
                                            val[i] = F(src[i])
                                    else:
                                        val = F(src)
                                    data_full[tuple(w)] = val

                            def send(data_full, *, args=None):
                                log.append((name, "send", args is ARGS, data_full is data_ref[0]))

                            attrs = {"set_ghost_cells": write, "upper": upper, "axis": axis, "flip_sign": flip, "__kind__": ("_MPIBC", "BCBase") if mpi else ("BCBase",)}
                            if mpi:
                                attrs["send_ghost_cells"] = send
                            return ns.Stub(f"side-{name}", **attrs), write

                        ref_box: list = [None]
                        low, w_low = make_side("low", False, ref_box)
                        high, w_high = make_side("high", True, ref_box)
                        grid = ns.Stub("grid", num_axes=num_axes, shape=(3,) * num_axes, dim=num_axes)
                        me = ns.Stub("axis", low=low, high=high, grid=grid, axis=axis, periodic=periodic, flip_sign=flip, rank=rank)
                        data = ns.sym_array("d", shape)
                        ref_box[0] = data
                        sem = ns.NpSem(where=where)
                        scope = {"_MPIBC": ns.KindRef("_MPIBC"), "np": ns.NP}
                        try:
                            sem.run_function(fi.node, scope, args=(me, data), kwargs={"args": ARGS})
                        except ns.Raised as e:
                            bad.setdefault("raises", f"{scen}: ends in `{e}`")
                            continue
                        events = list(log)
                        # the compiled route chains the per-side setters in `compiled_order`
                        expect = ns.sym_array("d", shape)
                        ref_box[0] = expect
                        log.clear()
                        for side in compiled_order:
                            {"low": w_low, "high": w_high}[side](expect, args=ARGS)
                        diff = ns.arrays_equal(data, expect)
                        if diff:
                            bad.setdefault("differs", f"{scen}: padded array differs from the chained per-side setters at {diff[0]}")
                        sets = [e for e in events if e[1] == "set"]
                        if not all(e[2] for e in events):
                            bad.setdefault("args", f"{scen}: the caller's `args` does not reach {[e[0] for e in events if not e[2]]}")
                        if not diff and sorted(e[0] for e in sets) != ["high", "low"]:
                            pass  # equal arrays decide; the count is informational for hand-written overrides
                        if mpi:
                            first_set = min((i for i, e in enumerate(events) if e[1] == "set"), default=len(events))
                            sends = [i for i, e in enumerate(events) if e[1] == "send"]
                            if len(sends) != 2 or any(i > first_set for i in sends):
                                bad.setdefault("mpi-send", f"{scen}: MPI sides must each send their layer before any ghost cell is set; events {[(e[0], e[1]) for e in events]}")
        rep.oblige(f"axis-level ghost cells: {c.name}.set_ghost_cells == chained per-side setters", not bad, bad)
        for role, msg in bad.items():
            rep.violation("C03.axis-level-route", f"{where}::{c.name}::{role}", f"interpreted ghost-cell route of {c.name} ({where}): {msg}", line=fi.node.lineno)
    rep.floor("axis-level ghost-cell scenarios", n_scen, 40)


def check(tier: str) -> Report:
    rep = Report("C03", tier, "other", "sibling agreement of extracted tables / effect summaries; call-convention and prange dependence rules")
    rep.explanation = (
        "Routes are compared on their extracted summaries, never on text: (a) scipy.ndimage kernels (correlate1d / laplace given their "
        "documented transfer functions) vs numba kernels as stencil tables; (c) interpreted vs compiled ghost-cell setters as "
        "(written index, value) pairs and the order of sides/axes obtained by interpreting the dispatch code with logging stand-ins; "
        "(d) effect summaries (allocate, fill valid, ghost cells with args, raw operator, return) of the four operator-application "
        "bodies; (e) compatibility of every set_ghost_cells call site with the keyword-only `args`; (f) for every nb.prange loop: "
        "stores indexed by the loop variable (+const) at one axis position, store targets not read, nothing carried across iterations; "
        "(g) dot and outer products: the field methods, the numpy closures and the numba overloads are interpreted on arrays of distinct "
        "symbols for every rank combination, with `out` given and allocated; every route must return (an unbound closure variable or a "
        "shape error on one route only is a violation) and all routes must return identical entries; "
        "(b) the sparse-matrix route used by the Poisson solvers: every row of every Laplace-matrix assembler equals the numba stencil with the "
        "virtual points eliminated through get_virtual_point_data (all boundary-condition classes per side, r_min = 0 and > 0)."
    )
    ix = get_index()
    cfg = read_config_defaults(ix)
    # ------------------------------------------------------------------ (f0) syntax-level race scan (before any extraction)
    racy = set()
    for rel, qn, line, msg in prange_shared_writes(ix):
        qn = qn.split("#")[0]  # (several definitions of one name in a factory are numbered by the index)
        racy.add(f"{rel}::{qn}")
        rep.violation("C03.prange-dependence", f"{rel}::{qn}::prange-shared-write", msg, line=line)
    rep.oblige("no store inside a prange loop goes to memory shared between iterations (syntax-level scan)", not racy, sorted(racy))

    def demoted(err: str, module: str | None = None) -> bool:
        """extraction failures inside a kernel already reported as racy (or in the module of such a kernel, when the
        failing extraction cannot name the function) are notes, not analysis errors"""
        if any(r in err for r in racy) or (module is not None and any(r.split("::")[0] == module for r in racy)):
            rep.note(f"extraction skipped for a kernel already in violation: {err[:200]}")
            return True
        return False

    # ------------------------------------------------------------------ (a)
    jobs = []
    sregs = [r for r in registrations(ix, "ScipyBackend", "pde/backends/scipy/operators/") if r.grid_cls == "CartesianGrid" and r.name != "poisson_solver"]
    rep.floor("scipy Cartesian operator registrations", len(sregs), 6)
    for r in sregs:
        for n_axes in (1, 2, 3):
            for options in c01.option_rows(r.factory):
                jobs.append((r.name, n_axes, options))
    gjobs = []
    base = ix.cls(c02.LOCAL, "BCBase")
    for c in ix.subclasses(base, strict=True):
        fam, mro = c02.families_of(c)
        if c.module.rel != c02.LOCAL or fam is None or "ConstBCBase" not in mro:
            continue
        is_normal = c02._class_attr_true(c, "normal")
        for n_axes, axis in c02.GEOMS:
            for upper in (False, True):
                for flip in ((False, True) if fam == "periodic" else (False,)):
                    gjobs.append((c.name, n_axes, axis, upper, 1 if is_normal else 0, flip))
    pjobs = []
    for r in registrations(ix, "NumbaBackend", "pde/backends/numba/operators/"):
        if r.grid_cls not in c01.GRIDS:
            continue
        for n_axes in c01.GRIDS[r.grid_cls][1]:
            for options in c01.option_rows(r.factory):
                pjobs.append((r.grid_cls, r.name, n_axes, options, {}))
    pjobs.append(("CartesianGrid", "laplace", 2, {}, {"config": {"operators.cartesian.laplacian_2d_corner_weight": sp.Rational(1, 3)}, "periodic": (False, False)}))
    with mp.get_context("fork").Pool(min(16, os.cpu_count() or 1)) as pool:
        ares = pool.map(_ab_job, jobs, chunksize=2)
        gres = pool.map(_ghost_job, gjobs, chunksize=4)
        pres = pool.map(_prange_job, pjobs, chunksize=2)
    for res in ares:
        name, n_axes, options = res["job"]
        tag = f"scipy-vs-numba:{name}/{n_axes}:{c01._fmt(options)}"
        if "error" in res:
            if demoted(res["error"], res.get("module")):
                continue
            raise AnalysisError(f"{tag}: {res['error']}")
        rep.saw("sibling rows", tag)
        rep.oblige(tag, not res["diffs"], res["diffs"][:2])
        for comp, d in res["diffs"][:3]:
            rep.violation("C03.scipy-vs-numba", f"{res['factory']}::{name}::{c01._fmt(options)}::axes={n_axes}::out{comp}", f"{tag}: component {comp} differs -- {d}")
        if len(rep.samples) < 4:
            rep.sample({"row": tag, "scipy_stencil": res["sample"]})
    for res in gres:
        cname, n_axes, axis, upper, rank, flip = res["job"]
        tag = f"ghost:{cname}:axes={n_axes}:axis={axis}:{'upper' if upper else 'lower'}:rank={rank}{':flip' if flip else ''}"
        if "error" in res:
            raise AnalysisError(f"{tag}: {res['error']}")
        rep.saw("sibling rows", tag)
        rep.oblige(tag, res["diff"] is None, res.get("diff") or res.get("value"))
        if res["diff"]:
            rep.violation("C03.interpreted-vs-compiled", f"{c02.LOCAL}::{cname}::{tag}", f"{tag}: {res['diff']}")
    order = side_order(ix, cfg)
    rep.sample({"order": order})
    ok = order["python-sides"] == order["numba-sides"] and len(order["python-sides"]) == 2
    rep.oblige("order of sides equal in interpreted and compiled route", ok, order)
    if not ok:
        rep.violation("C03.side-order", f"{NB}::NumbaBackend._make_axis_ghost_cell_setter::order", f"sides are served in order {order['numba-sides']} by the compiled route but {order['python-sides']} by the interpreted one")
    ok = order["python-axes"] == order["numba-axes"] == [0, 1, 2]
    rep.oblige("order of axes equal in interpreted and compiled route", ok, order)
    if not ok:
        rep.violation("C03.axis-order", f"{NB}::NumbaBackend.make_ghost_cell_setter::order", f"axes are served in order {order['numba-axes']} by the compiled route but {order['python-axes']} by the interpreted one")
    # ------------------------------------------------------------------ (h)
    if sorted(order["numba-sides"]) == ["high", "low"]:
        axis_level_routes(rep, ix, order["numba-sides"])
    # ------------------------------------------------------------------ (d)
    summ = apply_summaries(ix, cfg)
    rep.floor("operator-application bodies summarised", len(summ), 6)
    canon = {k: normalise_events(ev) for k, (ev, qn) in summ.items()}
    for given in ("None", "given"):
        group = {k: v for k, v in canon.items() if k.endswith(f"out={given}")}
        ref_key = f"numpy:apply_operator:out={given}"
        ref = _strip_alloc_labels(group[ref_key])
        for k, v in group.items():
            same = _strip_alloc_labels(v) == ref
            rep.oblige(f"effect-summary:{k}", same, v)
            if not same:
                rep.violation("C03.effect-summary", f"{summ[k][1]}::effects::out={given}", f"effect summary of {k} is {v}, the numpy reference body gives {group[ref_key]}")
        rep.sample({"effects": {k: v for k, v in group.items()}})
    for k, v in canon.items():
        ghosts = [e for e in v if e[0] == "ghost-cells"]
        ok = len(ghosts) == 1 and ghosts[0][1] == "args=ARGS"
        rep.oblige(f"args-reach-ghost-cells:{k}", ok, ghosts)
        if not ok:
            rep.violation("C03.args-dropped", f"{summ[k][1]}::args", f"{k}: boundary conditions are applied as {ghosts}; `args` must reach set_ghost_cells by keyword exactly once")
    # ------------------------------------------------------------------ (e)
    call_convention(rep, ix)
    # ------------------------------------------------------------------ (f)
    sites = prange_sites(ix)
    analysed = set()
    par_exprs = {}
    for res in pres:
        gcls, name, n_axes, options, extra = res["job"]
        tag = f"prange:{gcls}/{n_axes}:{name}:{c01._fmt(options)}"
        if "error" in res:
            if demoted(res["error"], res.get("module")):
                for rel_, qn_, line_ in sites:
                    if f"{rel_}::{qn_.split('#')[0]}" in racy:
                        analysed.add((rel_, line_))
                continue
            raise AnalysisError(f"{tag}: {res['error']}")
        for fn, line in res["prange_sites"]:
            analysed.add((fn.split("::")[0], line))
        if res["prange_funcs"]:
            rep.saw("prange kernels", tag)
            rep.oblige(tag, not res["problems"], res["problems"][:3])
            want = "*".join(res["shape"]) + " >= multithreading_threshold"
            got = res["parallel"]
            same = sp.simplify(sp.sympify(got.split(" >= ")[0]) - sp.sympify(want.split(" >= ")[0])) == 0 if ">=" in got else False
            rep.oblige(tag + ":parallel-flag", same, got)
            if not same:
                rep.violation("C03.parallel-flag", f"{'+'.join(res['prange_funcs'])}::parallel", f"{tag}: parallel flag is `{got}`, expected `{want}` like every other kernel")
        for fn, msg in res["problems"]:
            rep.violation("C03.prange-dependence", f"{fn}::prange", f"{tag}: {msg} -- the result may depend on the thread schedule")
    missing = []
    for rel, qn, line in sites:
        if (rel, line) in analysed:
            continue
        if rel in PRANGE_EXCEPTIONS:
            rep.note(f"prange loop in {rel}::{qn} exempted: {PRANGE_EXCEPTIONS[rel]}")
            continue
        missing.append(f"{rel}::{qn}")
    rep.floor("nb.prange loops found", len(sites), 20)
    if missing:
        raise AnalysisError(f"prange loops not reached by the kernel extraction (cannot decide schedule independence): {missing}")
    # ------------------------------------------------------------------ (g)
    binary_operator_routes(rep, ix)
    # ------------------------------------------------------------------ (b) sparse-matrix route
    from . import c18

    try:
        c18.check_matrix_rows(rep, ix, rule_mismatch="C03.matrix-vs-stencil", rule_overwrite=None)
    except AnalysisError as e:
        # the matrix rows are compared with the numba Laplace kernels: if one of those is already reported as racy its
        # extraction may fail on the unknown shape -- a note of that violation, not a second verdict
        if not any("laplace" in r for r in racy):
            raise
        rep.note(f"matrix route skipped, a Laplace kernel is already in violation: {str(e)[:200]}")
    rep.note("(b) sparse-matrix route: rows of every _get_laplace_matrix* assembler == numba stencil with ghost cells eliminated (extraction shared with C18)")
    rep.assumptions += [
        "documented semantics of scipy.ndimage.correlate1d / laplace (boundary mode only touches the discarded outer layer)",
        "scipy Laplacian compared under uniform spacing (the factory raises otherwise)",
        "round-off level differences between routes are not decided; numba/LLVM code generation is trusted",
    ]
    return rep


def _strip_alloc_labels(v):
    return [(e[0],) + tuple(x for x in e[1:] if not str(x).startswith("alloc")) if e[0] in ("alloc",) else e for e in v]

"""C17 -- splitting a grid into sub-grids changes nothing (static ingredients).

Every fragment of the decomposition bookkeeping in ``pde/grids/_mesh.py`` and
``_MPIBC`` is turned into sympy terms by the path-enumerating evaluator ``SymEval``
(nothing of the repository is imported or run) and compared with what a tiling needs:

R1 chunk-partition  -- ``_subdivide``: one integer partition ``diff(linspace(0, num,
                       chunks+1).astype(int))`` guarded by ``chunks > num``: sizes sum to
                       ``num`` and are >= 1.
R2 bounds-chain     -- ``_subdivide_along_axis`` interpreted (fx) on symbolic grids with 1-3
                       axes, each split axis, 1-3 chunks: the captured ``from_bounds``
                       calls tile the parent (shared faces, first/last at the parent's
                       bounds), every sub-grid has the parent's cell size, other axes and
                       flags are the parent's, the split axis is not periodic.
R2b index-pair      -- ``_idx2id`` of a generic index equals the row-major polynomial whose
                       digits ``_id2idx`` (``np.unravel_index``) returns, for 1-3 axes.
R3 data-slices      -- ``_get_data_indices_1d``: ``slice(last, last+n+i_add)``,
                       ``last -> last+n`` from 0, ``i_add = 2 iff ghost cells``; consumers
                       index ``[axis][node index]`` and pass the ghost flag through.
R4 neighbor-table   -- ``get_neighbor``: extracted case table; checked on every
                       (size, k, periodic) with size <= 7: lower(upper(k)) = k, wrap only
                       when periodic, ``None`` only at the outer faces.
R5 mpibc-indices    -- ``_MPIBC`` reads ``-2|1`` and writes ``-1|0`` on its axis, valid
                       cells elsewhere; compiled sibling (numba_mpi) agrees; message
                       tags of the two sides of a face agree.
R6 bc-extraction    -- ``extract_boundary_conditions``: MPI condition iff a neighbour
                       exists, else ``to_subgrid(current_grid)``; order (lower, upper).
R7 to-subgrid-params-- every ``to_subgrid`` rebuilds ``self.__class__`` with exactly the
                       constructor parameters of that class, each from the value it was
                       constructed with.
R8 from-bounds      -- ``from_bounds`` of every grid class hands bounds/shape/periodic to
                       the constructor slots that fill ``_axes_bounds/_shape/_periodic``.
"""

from __future__ import annotations

import ast
import itertools

import sympy as sp

from ..core import AnalysisError, Report
from ..index import ClassInfo, FuncInfo, Index, dotted, get_index, strip_doc
from ..ispace_lite import (
    ELLIPSIS,
    NONE,
    F,
    HeapFlow,
    Path,
    PyList,
    SliceV,
    StarV,
    State,
    SymEval,
    Tok,
    _as_term,
    deps_of,
    func_params,
    has_havoc,
    head_name,
    kwarg_term,
    leaves,
    positional_args,
    unwrap,
)

MESH = "pde/grids/_mesh.py"
LOCAL = "pde/grids/boundaries/local.py"
SELF = sp.Symbol("self")


def run(f: FuncInfo, lenient: bool = False) -> tuple[SymEval, list[Path]]:
    ev = SymEval(f.ref, lenient=lenient)
    env = {n: sp.Symbol(n) for n in func_params(f)}
    return ev, ev.run(strip_doc(f.node.body), Path(env))


def same(a, b) -> bool:
    if isinstance(a, sp.Basic) and isinstance(b, sp.Basic):
        try:
            return sp.simplify(a - b) == 0
        except Exception:  # noqa: BLE001 -- non-arithmetic terms
            return a == b
    return a == b


def attr(name: str, obj):
    return F("attr_" + name)(obj)


def elem(obj, key):
    return F("elem")(obj, key)


def as_ge1(rel, polarity: bool):
    """integer relation -> expression e such that the relation holds iff e >= 1"""
    if not polarity:
        rel = sp.Not(rel)
        if isinstance(rel, sp.Not):
            return None
    if isinstance(rel, sp.StrictGreaterThan):
        return rel.lhs - rel.rhs
    if isinstance(rel, sp.GreaterThan):
        return rel.lhs - rel.rhs + 1
    if isinstance(rel, sp.StrictLessThan):
        return rel.rhs - rel.lhs
    if isinstance(rel, sp.LessThan):
        return rel.rhs - rel.lhs + 1
    return None


# ============================================================================= R1
def _eval_numeric(t, env):
    """floating-point value (numpy semantics) of an extracted partition term"""
    import numpy as np

    if isinstance(t, sp.Symbol):
        if t in env:
            return env[t]
        raise AnalysisError(f"free symbol {t} in the partition term")
    if isinstance(t, (sp.Integer, int)):
        return int(t)
    if isinstance(t, sp.Rational):
        return int(t.p) / int(t.q)
    if isinstance(t, sp.Float):
        return float(t)
    h = head_name(t)
    if h.startswith("call_"):
        pos = [_eval_numeric(a, env) for a in positional_args(t)[1:]] if h in ("call_diff", "call_linspace", "call_arange", "call_floor", "call_ceil", "call_round", "call_rint", "call_cumsum") else None
        if h == "call_diff":
            return np.diff(pos[0])
        if h == "call_linspace":
            kw = {}
            ep = kwarg_term(t, "endpoint")
            if ep is not None:
                kw["endpoint"] = bool(ep == sp.true)
            return np.linspace(*pos, **kw)
        if h == "call_arange":
            return np.arange(*pos)
        if h == "call_cumsum":
            return np.cumsum(pos[0])
        if h in ("call_floor", "call_ceil", "call_round", "call_rint"):
            return getattr(np, h[5:])(pos[0])
        if h == "call_astype" and t.args[1] == sp.Symbol("int"):
            return np.asarray(_eval_numeric(t.args[0], env)).astype(int)
        raise AnalysisError(f"`{h[5:]}` in the partition term is not modelled")
    if isinstance(t, sp.Add):
        out = 0
        for a in t.args:
            out = out + _eval_numeric(a, env)
        return out
    if isinstance(t, sp.Mul):
        # keep the association the source uses as far as sympy preserves it: numerator factors first, one division
        numer, denom = [], []
        for a in t.args:
            if isinstance(a, sp.Pow) and a.exp == -1:
                denom.append(_eval_numeric(a.base, env))
            else:
                numer.append(_eval_numeric(a, env))
        arrays = [x for x in numer if hasattr(x, "shape") and getattr(x, "shape", ()) != ()]
        scal = [x for x in numer if x not in arrays] if not arrays else [x for x in numer if not (hasattr(x, "shape") and getattr(x, "shape", ()) != ())]
        if env.get("__assoc__") == "array-first":
            # (array * numerators) / denominators
            out = 1
            for x in arrays + scal:
                out = out * x
            for x in denom:
                out = out / x
            return out
        sc = 1.0
        for x in scal:
            sc = sc * x
        for x in denom:
            sc = sc / x
        out = sc
        for x in arrays:
            out = x * out
        return out
    if isinstance(t, sp.Pow):
        return _eval_numeric(t.base, env) ** _eval_numeric(t.exp, env)
    raise AnalysisError(f"term `{t}` in the partition formula is not modelled")


def _partition_witness(t, num, chunks, bound: int = 96, assoc: str = "scalar-first"):
    import numpy as np

    for n0 in range(1, bound + 1):
        for c0 in range(1, n0 + 1):
            try:
                sizes = np.asarray(_eval_numeric(t, {num: n0, chunks: c0, "__assoc__": assoc}))
            except AnalysisError:
                raise
            except Exception as e:  # noqa: BLE001
                return n0, c0, [], f"evaluation fails with {type(e).__name__}: {e}"
            sl = [int(x) for x in np.ravel(sizes)]
            if len(sl) != c0:
                return n0, c0, sl, f"{len(sl)} chunks instead of {c0}"
            if sum(sl) != n0:
                return n0, c0, sl, f"the sizes add up to {sum(sl)} instead of {n0} cells"
            if min(sl) < 1:
                return n0, c0, sl, "a chunk has no cells"
    return None


_NUMERIC_CALLS = {"arange", "linspace", "diff", "cumsum", "floor", "ceil", "round", "rint", "array", "asarray", "concatenate"}


def _eval_ast_numeric(e: ast.AST, env: dict):
    """value of an arithmetic / numpy expression of the partition function on concrete numbers, operation by operation
    as written (numpy floating-point semantics); everything else is outside the grammar"""
    import numpy as np

    if isinstance(e, ast.Constant) and isinstance(e.value, (int, float)):
        return e.value
    if isinstance(e, ast.Name):
        if e.id in env:
            return env[e.id]
        if e.id == "int":
            return int
        raise AnalysisError(f"name `{e.id}` in the partition formula")
    if isinstance(e, ast.BinOp):
        l, r = _eval_ast_numeric(e.left, env), _eval_ast_numeric(e.right, env)
        ops = {ast.Add: lambda a, b: a + b, ast.Sub: lambda a, b: a - b, ast.Mult: lambda a, b: a * b, ast.Div: lambda a, b: a / b, ast.FloorDiv: lambda a, b: a // b, ast.Mod: lambda a, b: a % b, ast.Pow: lambda a, b: a**b}
        if type(e.op) in ops:
            return ops[type(e.op)](l, r)
    if isinstance(e, ast.UnaryOp) and isinstance(e.op, ast.USub):
        return -_eval_ast_numeric(e.operand, env)
    if isinstance(e, (ast.List, ast.Tuple)):
        return [_eval_ast_numeric(x, env) for x in e.elts]
    if isinstance(e, ast.Call):
        args = [_eval_ast_numeric(a, env) for a in e.args]
        kw = {k.arg: _eval_ast_numeric(k.value, env) for k in e.keywords if k.arg}
        if isinstance(e.func, ast.Attribute) and isinstance(e.func.value, ast.Name) and e.func.value.id == "np" and e.func.attr in _NUMERIC_CALLS:
            return getattr(np, e.func.attr)(*args, **kw)
        if isinstance(e.func, ast.Attribute) and e.func.attr == "astype" and len(args) == 1 and args[0] is int:
            return np.asarray(_eval_ast_numeric(e.func.value, env)).astype(int)
        if isinstance(e.func, ast.Name) and e.func.id in ("int", "round", "float", "len", "max", "min"):
            return {"int": int, "round": round, "float": float, "len": len, "max": max, "min": min}[e.func.id](*args)
    raise AnalysisError(f"`{ast.unparse(e)[:60]}` in the partition formula is outside the grammar of the numeric evaluation")


def _partition_witness_ast(f: FuncInfo, num_name: str, chunks_name: str, bound: int = 96):
    import numpy as np

    body = strip_doc(f.node.body)
    for n0 in range(1, bound + 1):
        for c0 in range(1, n0 + 1):
            env = {num_name: n0, chunks_name: c0}
            sizes = None
            try:
                for st in body:
                    if isinstance(st, ast.If):
                        continue  # the guard refusing chunks > num (judged separately); admissible pairs fall through
                    if isinstance(st, ast.Assign) and len(st.targets) == 1 and isinstance(st.targets[0], ast.Name):
                        env[st.targets[0].id] = _eval_ast_numeric(st.value, env)
                    elif isinstance(st, ast.Return) and st.value is not None:
                        sizes = _eval_ast_numeric(st.value, env)
                        break
                    else:
                        raise AnalysisError(f"statement `{type(st).__name__}` in the partition function")
            except AnalysisError:
                raise
            except Exception as e:  # noqa: BLE001
                return n0, c0, [], f"evaluation fails with {type(e).__name__}: {e}"
            if sizes is None:
                raise AnalysisError(f"{f.ref}: no return reached")
            sl = [int(x) for x in np.ravel(np.asarray(sizes))]
            if len(sl) != c0:
                return n0, c0, sl, f"{len(sl)} chunks instead of {c0}"
            if sum(sl) != n0:
                return n0, c0, sl, f"the sizes add up to {sum(sl)} instead of {n0} cells"
            if min(sl) < 1:
                return n0, c0, sl, "a chunk has no cells"
    return None


def rule_chunk_partition(rep: Report, ix: Index) -> None:
    f = ix.func(MESH, "_subdivide")
    rep.saw("functions", f.ref)
    num_name, chunks_name = func_params(f)[:2]
    num, chunks = sp.Symbol(num_name), sp.Symbol(chunks_name)
    ev, paths = run(f)
    rets = [p for p in paths if p.outcome and p.outcome[0] == "return"]
    raises = [p for p in paths if p.outcome and p.outcome[0] == "raise"]
    if len(rets) != 1:
        raise AnalysisError(f"{f.ref}: expected exactly one returning path, found {len(rets)}")
    t = rets[0].outcome[1]
    # a partition that is not of the proved form np.diff(np.linspace(0, num, chunks + 1).astype(int)): the extracted
    # term is evaluated in floating point for every admissible (num, chunks) up to a bound; a pair for which the
    # sizes do not partition `num` is a violation with that witness; without a witness the form stays undecided
    lin_form = (
        isinstance(t, sp.Basic)
        and head_name(t) == "call_diff"
        and len(positional_args(t)) == 2
        and head_name(positional_args(t)[1]) == "call_astype"
        and head_name(positional_args(t)[1].args[0]) == "call_linspace"
    )
    if not lin_form and isinstance(t, sp.Basic):
        # (evaluated on the syntax tree, which keeps the association of the floating-point operations)
        import os as _os

        witness = _partition_witness_ast(f, num_name, chunks_name, bound=256 if _os.environ.get("PDELINT_TIER") == "thorough" else 96)
        if witness is not None:
            n0, c0, sizes, why = witness
            rep.oblige("partition:endpoints-exact=>sum(sizes)=num", False, {"witness": [n0, c0], "sizes": sizes})
            rep.violation(
                "C17.chunk-partition",
                f"{f.ref}::endpoints",
                f"the chunk sizes `{t}` are not computed from the exact lattice np.linspace(0, {num_name}, {chunks_name} + 1); evaluated in floating point for {num_name}={n0}, {chunks_name}={c0} "
                f"they are {sizes}: {why} (cells are lost or a chunk is empty, nothing raises)",
                line=f.node.lineno,
            )
            return
    # grammar: np.diff( np.linspace(a, b, n).astype(int) )
    if not (isinstance(t, sp.Basic) and head_name(t) == "call_diff" and len(positional_args(t)) == 2):
        raise AnalysisError(f"{f.ref}: returned `{t}` is not `np.diff(...)`; partition grammar not recognised")
    inner = positional_args(t)[1]
    if not (head_name(inner) == "call_astype" and len(inner.args) == 2 and inner.args[1] == sp.Symbol("int")):
        raise AnalysisError(f"{f.ref}: `{inner}` is not `<array>.astype(int)`; partition grammar not recognised")
    lin = inner.args[0]
    if head_name(lin) != "call_linspace":
        raise AnalysisError(f"{f.ref}: `{lin}` is not `np.linspace(...)`; partition grammar not recognised")
    pos = positional_args(lin)[1:]
    a = pos[0] if len(pos) > 0 else kwarg_term(lin, "start")
    b = pos[1] if len(pos) > 1 else kwarg_term(lin, "stop")
    n = pos[2] if len(pos) > 2 else kwarg_term(lin, "num")
    endpoint = kwarg_term(lin, "endpoint")
    extra_kw = [x for x in lin.args if head_name(x).startswith("kw_") and head_name(x) not in ("kw_start", "kw_stop", "kw_num", "kw_endpoint")]
    probs = []
    if a is None or not same(a, sp.Integer(0)):
        probs.append(("endpoints", f"lattice starts at `{a}`, not 0: chunk sizes do not sum to `{num_name}`"))
    if b is None or not same(b, num):
        probs.append(("endpoints", f"lattice ends at `{b}`, not `{num_name}`: chunk sizes do not sum to `{num_name}`"))
    if n is None or not same(n, chunks + 1):
        probs.append(("count", f"lattice has `{n}` points, not `{chunks_name} + 1`: wrong number of chunks"))
    if endpoint is not None and endpoint != sp.true:
        probs.append(("endpoints", "`endpoint` is not True: the last lattice point is not `num`"))
    if extra_kw:
        raise AnalysisError(f"{f.ref}: unknown linspace keywords {extra_kw}")
    # guard: raise iff chunks > num  (then step = num/chunks >= 1, so truncated consecutive
    # lattice points differ by >= 1)
    guard_ok = False
    if len(raises) == 1 and len(raises[0].guards) == 1:
        g, pol = raises[0].guards[0]
        e = as_ge1(g, pol) if isinstance(g, sp.Rel) else None
        guard_ok = e is not None and same(e, chunks - num)
        if not guard_ok:
            probs.append(("guard", f"the function refuses `{g}`={pol}; it must refuse exactly `{chunks_name} > {num_name}` (sizes >= 1 for every admissible chunk count up to the number of cells)"))
    else:
        probs.append(("guard", f"no single guard refusing `{chunks_name} > {num_name}`: a chunk of size 0 is possible"))
    rep.oblige("partition:endpoints-exact=>sum(sizes)=num", not any(r == "endpoints" for r, _ in probs), {"start": str(a), "stop": str(b)})
    rep.oblige("partition:count=chunks", not any(r == "count" for r, _ in probs), str(n))
    rep.oblige("partition:guard=>sizes>=1", not any(r == "guard" for r, _ in probs))
    for role, msg in probs:
        rep.violation("C17.chunk-partition", f"{f.ref}::{role}", msg, line=f.node.lineno)
    rep.sample({"_subdivide": str(t), "refuses": [str(p.guards) for p in raises]})


# ============================================================================= R2
def rule_bounds_chain(rep: Report, ix: Index) -> None:
    """``_subdivide_along_axis`` is interpreted (fx) for 1-3 axes, every split axis and
    2-3 chunks on a symbolic grid (bounds a_k..b_k, N_k cells, flags p_k); the partition
    ``_subdivide`` returns symbolic sizes s_j (R1 proves sum = N).  The captured
    ``from_bounds`` calls must tile the parent exactly: chunk j spans
    ``a + (b-a)/N * (s_0+..+s_{j-1})`` to ``a + (b-a)/N * (s_0+..+s_j)`` on the split axis
    (hence the same cell size as the parent and shared faces), all other entries are
    the parent's, the split axis is not periodic, and the returned list is in this order."""
    from .. import fx

    f = ix.func(MESH, "_subdivide_along_axis")
    rep.saw("functions", f.ref)
    probs: dict[str, str] = {}
    n_cases = 0
    samples = {}
    for nax in (1, 2, 3):
        for axis in range(nax):
            for chunks in (1, 2, 3):
                N = [sp.Symbol(f"N{k}", integer=True, positive=True) for k in range(nax)]
                lo = [sp.Symbol(f"a{k}", real=True) for k in range(nax)]
                hi = [sp.Symbol(f"b{k}", real=True) for k in range(nax)]
                per = [sp.Symbol(f"p{k}") for k in range(nax)]
                sizes = [sp.Symbol(f"s{j}", integer=True, positive=True) for j in range(chunks)]
                calls: list[tuple] = []

                def from_bounds(bounds=None, shape=None, periodic=False, _calls=calls, **kw):
                    if kw:
                        raise AnalysisError(f"{f.ref}: from_bounds called with unknown keywords {sorted(kw)}")
                    _calls.append((bounds, shape, periodic))
                    return fx.Opaque(f"subgrid{len(_calls) - 1}")

                klass = fx.Model("grid-class", {"from_bounds": from_bounds})
                grid = fx.Model("grid", {"shape": tuple(N), "axes_bounds": tuple((lo[k], hi[k]) for k in range(nax)), "periodic": list(per), "__class__": klass, "num_axes": nax})
                part_args = []

                def _subdivide(num, ch, _sizes=sizes, _pa=part_args):
                    _pa.append((num, ch))
                    return fx.Vec(list(_sizes))

                it = fx.Interp(ix, overrides={"_subdivide": _subdivide, "type": lambda o, _k=klass, _g=grid: _k if o is _g else fx.Opaque("type()")})
                try:
                    res = it.call(it.make_closure(f, it.module_env(f.module)), (grid, axis, chunks), {})
                except fx.Unsupported as e:
                    raise AnalysisError(f"{f.ref}: cannot be interpreted for axes={nax}, axis={axis}, chunks={chunks}: {e}") from None
                n_cases += 1
                tag = f"axes={nax},axis={axis},chunks={chunks}"
                res = list(res) if isinstance(res, (list, tuple, fx.Vec)) else None
                if res is None:
                    raise AnalysisError(f"{f.ref}: does not return a list of sub-grids ({tag})")
                if chunks == 1:
                    if not (len(res) == 1 and res[0] is grid and not calls):
                        probs.setdefault("single", f"a single chunk does not return `[grid]` ({tag})")
                    continue
                if part_args != [(N[axis], chunks)]:
                    probs.setdefault("partition-args", f"chunk sizes do not come from one call `_subdivide(grid.shape[axis], chunks)` but from {part_args} ({tag})")
                names = [getattr(r, "name", None) for r in res]
                if sorted(n for n in names if n) != [f"subgrid{j}" for j in range(chunks)] or len(res) != chunks:
                    probs.setdefault("order", f"the function does not return exactly the {chunks} sub-grids it built: {names} ({tag})")
                    continue
                ordered = [calls[int(n[len("subgrid") :])] for n in names]
                h = (hi[axis] - lo[axis]) / N[axis]
                used: list = []
                edge = lo[axis]
                for j, (B, Sh, Per) in enumerate(ordered):
                    try:
                        B, Sh, Per = list(B), list(Sh), list(Per)
                        pair = list(B[axis])
                    except TypeError:
                        raise AnalysisError(f"{f.ref}: from_bounds arguments are not sequences ({tag})") from None
                    if not (len(B) == len(Sh) == len(Per) == nax and len(pair) == 2):
                        probs.setdefault("bounds", f"sub-grid {j} does not get {nax} bounds/shape/periodic entries ({tag})")
                        break
                    for k in range(nax):
                        if k == axis:
                            continue
                        bk = list(B[k])
                        if not (same(bk[0], lo[k]) and same(bk[1], hi[k])):
                            probs.setdefault("bounds", f"sub-grid {j}: bounds of the untouched axis {k} are `{tuple(bk)}`, not the parent's ({tag})")
                        if not same(Sh[k], N[k]):
                            probs.setdefault("shape", f"sub-grid {j}: shape of the untouched axis {k} is `{Sh[k]}`, not the parent's ({tag})")
                        if Per[k] != per[k]:
                            probs.setdefault("periodic", f"sub-grid {j}: periodicity of the untouched axis {k} is `{Per[k]}`, not the parent's ({tag})")
                    sz = Sh[axis]
                    if sz not in sizes or any(sz is u or sz == u for u in used):
                        probs.setdefault("shape", f"sub-grid {j}: the number of cells along the split axis is `{sz}`, not one (distinct) chunk size of `_subdivide` ({tag})")
                        break
                    used.append(sz)
                    if Per[axis] is not False and Per[axis] != sp.false:
                        probs.setdefault("periodic", f"sub-grid {j}: the split axis keeps the periodicity flag `{Per[axis]}` instead of False ({tag})")
                    if not same(pair[0], edge):
                        probs.setdefault("bounds", f"sub-grid {j} starts at `{sp.simplify(pair[0])}` but the previous one (or the parent) ends at `{sp.simplify(edge)}`: the sub-grids do not tile the parent ({tag})")
                    if not same(pair[1] - pair[0], sz * h):
                        probs.setdefault("bounds", f"sub-grid {j} with `{sz}` cells spans `{sp.simplify(pair[1] - pair[0])}`, not `{sz}` cells of the parent's size `{h}`: its cells differ from the parent's ({tag})")
                    edge = pair[1]
                else:
                    total = edge.subs(sizes[-1], N[axis] - sum(sizes[:-1]))
                    if not same(total, hi[axis]):
                        probs.setdefault("bounds", f"the last sub-grid ends at `{sp.simplify(total)}`, not at the parent's upper bound ({tag})")
                if nax == 2 and axis == 1 and chunks == 2:
                    samples = {"case": tag, "from_bounds_calls": [[str(x) for x in c] for c in ordered]}
    rep.floor("subdivide_along_axis cases interpreted", n_cases, 18)
    # from_bounds(bounds, shape, periodic): positional order of every implementation
    base = ix.cls("pde/grids/base.py", "GridBase")
    n_fb = 0
    for c in [base, *ix.subclasses(base, strict=True)]:
        for g in c.methods.get("from_bounds", []):
            n_fb += 1
            rep.saw("functions", g.ref)
            if func_params(g)[:3] != ["bounds", "shape", "periodic"]:
                probs.setdefault("signature", f"{g.ref} does not take (bounds, shape, periodic) in this order")
    rep.floor("from_bounds implementations", n_fb, 4)
    rep.oblige("subdivide:sub-grids-tile-parent-with-parent-cell-size", "bounds" not in probs, probs.get("bounds"))
    rep.oblige("subdivide:shape-periodic-order", not [1 for r in probs if r != "bounds"], [m for r, m in probs.items() if r != "bounds"])
    for role, msg in probs.items():
        rep.violation("C17.bounds-chain", f"{f.ref}::{role}", msg, line=f.node.lineno)
    rep.sample({"subdivide_along_axis": samples})


# ============================================================================= R3
def rule_data_slices(rep: Report, ix: Index) -> None:
    f = ix.func(MESH, "GridMesh._get_data_indices_1d")
    rep.saw("functions", f.ref)
    flag_name = func_params(f)[0]
    flag = sp.Symbol(flag_name)
    ev, paths = run(f)
    if len(ev.loops) != 2:
        raise AnalysisError(f"{f.ref}: expected an axis loop containing a sub-grid loop, found {len(ev.loops)} loops")
    outer, inner = ev.loops
    probs: list[tuple[str, str]] = []
    axis = outer.target
    if _as_term(outer.iter_value) != F("call_range")(attr("num_axes", SELF)):
        probs.append(("axes", f"outer loop runs over `{_as_term(outer.iter_value)}`, not over `range(self.num_axes)`"))
    row = F("tuple")(F("store")(F("repeat")(sp.Integer(0), attr("num_axes", SELF)), axis, F("slice")(NONE, NONE, NONE)))
    want_iter = elem(attr("subgrids", SELF), row)
    if _as_term(inner.iter_value) != want_iter:
        probs.append(("row", f"sub-grids are enumerated as `{_as_term(inner.iter_value)}`, not along `axis` through the first node of every other axis"))
    grid = inner.target
    n = elem(attr("shape", grid), axis)
    live = [p for p in inner.paths if p.outcome is None]
    if len(live) != 1:
        raise AnalysisError(f"{f.ref}: inner loop body has {len(live)} completing paths")
    p = live[0]
    lists = [k for k in inner.carried if isinstance(inner.pre_env.get(k), PyList)]
    cursors = [k for k in inner.carried if not isinstance(inner.pre_env.get(k), PyList)]
    apps = [e for e in p.events if e[0] == "append" and e[1] in lists]
    overlap = None
    if len(apps) != 1 or not isinstance(apps[0][2], SliceV):
        probs.append(("slice", "an iteration does not append exactly one slice"))
    else:
        sl: SliceV = apps[0][2]
        cur = [k for k in cursors if sl.lo is not None and same(sl.lo, inner.carried[k])]
        if len(cur) != 1 or sl.step is not None:
            probs.append(("chain", f"slice start `{sl.lo}` is not the running cursor"))
        else:
            c = cur[0]
            S = inner.carried[c]
            init = inner.pre_env.get(c)
            if not (isinstance(init, sp.Basic) and init == 0):
                probs.append(("chain", f"cursor `{c}` starts at `{init}`, not 0 (it must restart for every axis)"))
            if not same(p.env[c], S + n):
                probs.append(("chain", f"cursor `{c}` advances to `{p.env[c]}`, not by the number of cells `grid.shape[axis]` of this sub-grid"))
            overlap = sp.simplify(sl.hi - S - n)
            want = F("ifexp")(flag, sp.Integer(2), sp.Integer(0))
            if overlap != want:
                probs.append(("overlap", f"slice length is `grid.shape[axis] + ({overlap})`; it must be `+2` with ghost cells and `+0` without (`{want}`)"))
        pre = inner.pre_env[apps[0][1]]
        if not (pre.items == [] and not pre.appended):
            probs.append(("chain", f"`{apps[0][1]}` is not reset for every axis"))
    # outer: exactly one append of the per-axis list, returned
    live_o = [q for q in outer.paths if q.outcome is None]
    oapps = [e for q in live_o for e in q.events if e[0] == "append"]
    if not (len(live_o) == 1 and len(oapps) == 1 and apps and isinstance(oapps[0][2], PyList) and str(oapps[0][2].base).startswith(apps[0][1] + "@end")):
        probs.append(("axes", "the per-axis list of slices is not appended exactly once per axis"))
    rep.oblige("indices_1d:slices-chain-from-0", not [1 for r, _ in probs if r in ("chain", "slice", "row", "axes")], [m for _, m in probs])
    rep.oblige("indices_1d:overlap=2-iff-ghost-cells", not [1 for r, _ in probs if r == "overlap"], str(overlap))
    for role, msg in probs:
        rep.violation("C17.data-slices", f"{f.ref}::{role}", msg, line=inner.node.lineno)
    rep.sample({"_get_data_indices_1d": {"slice": str(_as_term(apps[0][2])) if apps else None, "overlap": str(overlap)}})

    # ---- consumers: [axis][node index] slots and ghost flag pass-through
    n_slots = 0
    for qn in ("GridMesh._get_data_indices", "GridMesh.extract_field_data"):
        g = ix.func(MESH, qn)
        rep.saw("functions", g.ref)
        gflag = [a for a in func_params(g) if a == flag_name]
        calls = [c for c in ast.walk(g.node) if isinstance(c, ast.Call) and isinstance(c.func, ast.Attribute) and c.func.attr == "_get_data_indices_1d" and dotted(c.func.value) == "self"]
        if len(calls) != 1:
            raise AnalysisError(f"{g.ref}: expected one call of `_get_data_indices_1d`")
        c = calls[0]
        passed = c.args[0] if c.args else next((k.value for k in c.keywords if k.arg == flag_name), None)
        ok = bool(gflag) and isinstance(passed, ast.Name) and passed.id == flag_name
        rep.oblige(f"{qn}:ghost-flag-passed-through", ok)
        if not ok:
            rep.violation("C17.data-slices", f"{g.ref}::ghost-flag", f"`{flag_name}` is not handed on to `_get_data_indices_1d`", line=c.lineno)
        tbl = {t.id for a in ast.walk(g.node) if isinstance(a, ast.Assign) and a.value is c for t in a.targets if isinstance(t, ast.Name)}
        for comp in ast.walk(g.node):
            if isinstance(comp, (ast.GeneratorExp, ast.ListComp)) and len(comp.generators) == 1:
                gen = comp.generators[0]
                if not (isinstance(gen.iter, ast.Call) and dotted(gen.iter.func) == "enumerate" and isinstance(gen.target, ast.Tuple) and len(gen.target.elts) == 2):
                    continue
                cnt, item = (dotted(t) for t in gen.target.elts)
                e = comp.elt
                if isinstance(e, ast.Subscript) and isinstance(e.value, ast.Subscript) and isinstance(e.value.value, ast.Name) and e.value.value.id in tbl:
                    n_slots += 1
                    ok = dotted(e.value.slice) == cnt and dotted(e.slice) == item
                    rep.oblige(f"{qn}:slot-order[axis][node]", ok)
                    if not ok:
                        rep.violation("C17.data-slices", f"{g.ref}::slots", f"`{ast.unparse(e)}` does not index the slice table as [axis][node index along that axis]", line=e.lineno)
    rep.floor("consumers indexing the 1d slice table", n_slots, 2)
    # combine_field_data: out[(..., *indices[id2idx(i)])] = subfields[i]
    g = ix.func(MESH, "GridMesh.combine_field_data")
    rep.saw("functions", g.ref)
    ev2, _ = run(g, lenient=True)
    stores = [(L, e) for L in ev2.loops for p in L.paths for e in p.events if e[0] == "setitem"]
    ok = False
    detail = None
    if len(stores) >= 1:
        L, e = stores[0]
        i = L.target
        key, val = e[2], e[3]
        gflag = sp.Symbol(flag_name)
        tbl = F("call__get_data_indices")(SELF, F("kw_" + flag_name)(gflag))
        tbl2 = F("call__get_data_indices")(SELF, gflag)
        want_idx = [elem(t, F("call__id2idx")(SELF, i)) for t in (tbl, tbl2)]
        detail = str(_as_term(key))
        ok = (
            isinstance(i, sp.Basic)
            and _as_term(L.iter_value) == F("call_range")(F("len")(SELF))
            and head_name(_as_term(key)) == "binop_Add"
            and _as_term(key).args[0] == F("tuple")(ELLIPSIS)
            and _as_term(key).args[1] in want_idx
            and _as_term(val) == elem(sp.Symbol(func_params(g)[0]), i)
        )
    rep.oblige("combine_field_data:node-i-written-at-indices[id2idx(i)]", ok, detail)
    if not ok:
        rep.violation("C17.data-slices", f"{g.ref}::store", "sub-field `i` is not stored at `(..., *indices[id2idx(i)])` for the same ghost-cell flag", line=g.node.lineno)
    rule_index_pair(rep, ix)


def rule_index_pair(rep: Report, ix: Index) -> None:
    """``_idx2id(_id2idx(k)) == k``: both methods are interpreted (fx) on meshes with 1-3
    axes of symbolic shape.  ``np.unravel_index(k, shape)`` yields the row-major digits
    ``d_j`` of k (``k = sum_j d_j prod_{m>j} n_m`` by definition); ``_idx2id`` of a
    generic index must therefore be exactly that polynomial in the index entries."""
    from .. import fx

    a = ix.func(MESH, "GridMesh._id2idx")
    b = ix.func(MESH, "GridMesh._idx2id")
    rep.saw("functions", a.ref)
    rep.saw("functions", b.ref)
    cls = ix.cls(MESH, "GridMesh")

    def strip_int(e):
        e = sp.sympify(e)
        return e.replace(lambda x: isinstance(x, sp.Function) and x.func.__name__ in ("int", "Integer") and len(x.args) == 1, lambda x: x.args[0])

    bad: list[str] = []
    shown = {}
    for nax in (1, 2, 3):
        n = [sp.Symbol(f"n{k}", integer=True, positive=True) for k in range(nax)]
        i = [sp.Symbol(f"i{k}", integer=True, nonnegative=True) for k in range(nax)]
        k = sp.Symbol("k", integer=True, nonnegative=True)
        mesh = fx.Model("mesh", {"shape": tuple(n), "num_axes": nax}, cls=cls)
        it = fx.Interp(ix)
        try:
            lin = it.call(it.getattr(mesh, "_idx2id"), (tuple(i),), {})
            dig = it.call(it.getattr(mesh, "_id2idx"), (k,), {})
            lin = strip_int(it.as_expr(lin))
            dig = [strip_int(it.as_expr(d)) for d in dig]
        except (fx.Unsupported, TypeError) as e:
            raise AnalysisError(f"{a.ref}/{b.ref}: cannot be interpreted on a mesh with {nax} axes: {e}") from None
        want_digits = [fx.UNRAVEL(k, j, *n) for j in range(nax)]
        if dig != want_digits:
            # an explicit div/mod formulation is a legitimate rewrite this rule cannot decide
            raise AnalysisError(f"{a.ref}: returns `{dig}` on a {nax}-axes mesh; only the row-major digits `np.unravel_index(node_id, self.shape)` are understood")
        want = sp.Integer(0)
        for ij, nj in zip(i, n):
            want = want * nj + ij
        shown[nax] = str(lin)
        if sp.expand(lin - want) != 0:
            bad.append(f"{nax} axes: `_idx2id(idx)` = `{lin}` but `_id2idx` enumerates nodes as `{sp.expand(want)}`")
    rep.oblige("id2idx/idx2id:inverse-pair-over-mesh-shape", not bad, bad or shown)
    if bad:
        rep.violation("C17.data-slices", f"{b.ref}::inverse", "`_idx2id` is not the inverse of `_id2idx`: " + "; ".join(bad), line=b.node.lineno)
    rep.sample({"idx2id": shown})


# ============================================================================= R4
def eval_guard(g, model: dict):
    """evaluate a guard term on a finite model {atom term: value}"""
    if g in model:
        return model[g]
    if isinstance(g, sp.Not):
        return not eval_guard(g.args[0], model)
    if isinstance(g, sp.And):
        return all(eval_guard(a, model) for a in g.args)
    if isinstance(g, sp.Or):
        return any(eval_guard(a, model) for a in g.args)
    if isinstance(g, sp.Rel):
        r = g.xreplace({k: sp.Integer(v) for k, v in model.items() if isinstance(v, int) and not isinstance(v, bool)})
        if r in (sp.true, sp.false):
            return bool(r)
    raise AnalysisError(f"cannot evaluate guard `{g}` on the finite model")


def rule_neighbor_table(rep: Report, ix: Index) -> None:
    f = ix.func(MESH, "GridMesh.get_neighbor")
    rep.saw("functions", f.ref)
    aname, uname, nname = func_params(f)[:3]
    axis, upper, node = sp.Symbol(aname), sp.Symbol(uname), sp.Symbol(nname)
    ev, paths = run(f)
    SZ = elem(attr("shape", SELF), axis)
    PER = elem(attr("periodic", attr("basegrid", SELF)), axis)
    ISNONE = F("is_none")(node)
    k, size = sp.Symbol("k", integer=True), sp.Symbol("size", integer=True)
    rows = []
    for p in paths:
        if not p.outcome or p.outcome[0] != "return":
            raise AnalysisError(f"{f.ref}: a path does not return")
        # which node is looked at on this path
        cur_is_none = [pol for g, pol in p.guards if g == ISNONE]
        who = attr("current_node", SELF) if (cur_is_none and cur_is_none[0]) else node
        base = F("list")(F("call__id2idx")(SELF, who))
        K = elem(base, axis)
        v = p.outcome[1]
        if v is None:
            res = None
        else:
            if not (isinstance(v, sp.Basic) and head_name(v) == "call__idx2id" and v.args[0] == SELF):
                raise AnalysisError(f"{f.ref}: returns `{v}`, not `self._idx2id(idx)`")
            t = v.args[1]
            res = K
            other_axes = False
            while head_name(t) == "store":
                t, key, val = t.args
                if key == axis:
                    if res is K:
                        res = val
                else:
                    other_axes = True
            if t != base or other_axes:
                rep.violation("C17.neighbor-table", f"{f.ref}::index", f"the neighbour index is not `_id2idx(node)` with only entry `{aname}` changed (got `{v.args[1]}`)", line=f.node.lineno)
                return
            res = res.xreplace({K: k, SZ: size})
        guards = [(g.xreplace({K: k, SZ: size}) if isinstance(g, sp.Basic) else g, pol) for g, pol in p.guards]
        for g, _ in guards:
            atoms = [g] if not isinstance(g, (sp.Rel, sp.Not, sp.And, sp.Or)) else []
            if isinstance(g, sp.Rel):
                atoms = [s for s in g.free_symbols if s not in (k, size)] + [u for u in g.atoms(sp.core.function.AppliedUndef)]
            foreign = [a for a in atoms if a not in (PER, upper, ISNONE)]
            if foreign:
                rep.violation(
                    "C17.neighbor-table",
                    f"{f.ref}::guard",
                    f"the neighbour decision depends on `{foreign[0]}`; it may only depend on the node index along `{aname}`, the mesh size along `{aname}`, "
                    f"`{uname}` and the periodicity of the base grid along `{aname}`",
                    line=f.node.lineno,
                )
                return
        rows.append((guards, res))
    rep.floor("rows of the neighbour case table", len(rows), 7)

    def lookup(kv: int, sz: int, per: bool, up: bool, none: bool):
        model = {k: kv, size: sz, PER: per, upper: up, ISNONE: none}
        hits = [res for guards, res in rows if all(eval_guard(g, model) == pol for g, pol in guards)]
        if len(hits) != 1:
            raise AnalysisError(f"{f.ref}: case table is not a partition at k={kv}, size={sz}, periodic={per}, upper={up}: {len(hits)} rows")
        r = hits[0]
        if r is None:
            return None
        r = r.xreplace({k: sp.Integer(kv), size: sp.Integer(sz)})
        if not r.is_Integer:
            raise AnalysisError(f"{f.ref}: neighbour index `{r}` not numeric on the model")
        return int(r)

    probs: dict[str, str] = {}
    n_cases = 0
    for none in (True, False):
        for per in (False, True):
            # size 1: never a neighbour
            for up in (False, True):
                if lookup(0, 1, per, up, none) is not None:
                    probs.setdefault("size-1", "an undivided axis reports a neighbour")
            for sz in range(2, 8):
                for kv in range(sz):
                    n_cases += 1
                    u = lookup(kv, sz, per, True, none)
                    lw = lookup(kv, sz, per, False, none)
                    want_u = kv + 1 if kv < sz - 1 else (0 if per else None)
                    want_l = kv - 1 if kv > 0 else (sz - 1 if per else None)
                    tag = f"k={kv}, size={sz}, periodic={per}"
                    if u != want_u:
                        probs.setdefault("upper", f"upper neighbour of {tag} is {u}, expected {want_u}")
                    if lw != want_l:
                        probs.setdefault("lower", f"lower neighbour of {tag} is {lw}, expected {want_l}")
                    if u is not None and 0 <= u < sz and lookup(u, sz, per, False, none) != kv:
                        probs.setdefault("symmetry", f"lower(upper(k)) != k at {tag}: upper={u}, lower(upper)={lookup(u, sz, per, False, none)}")
                    if lw is not None and 0 <= lw < sz and lookup(lw, sz, per, True, none) != kv:
                        probs.setdefault("symmetry", f"upper(lower(k)) != k at {tag}: lower={lw}, upper(lower)={lookup(lw, sz, per, True, none)}")
                    for r in (u, lw):
                        if r is not None and not 0 <= r < sz:
                            probs.setdefault("range", f"neighbour index {r} outside 0..{sz - 1} at {tag}")
    rep.oblige("neighbor:table-symmetric-and-respects-periodicity(size<=7)", not probs, {"cases": n_cases, **probs})
    for role, msg in probs.items():
        rep.violation("C17.neighbor-table", f"{f.ref}::{role}", msg, line=f.node.lineno)
    rep.sample({"get_neighbor_rows": [{"if": [f"{g}={pol}" for g, pol in guards if g not in (ISNONE,)], "idx[axis]": str(res)} for guards, res in rows[:7]]})
    rep.note("neighbour table: guards are comparisons of k with 0 and size-1 only, so sizes 1..7 exercise every ordering of the constants (small-model argument on the extracted table, not on the repository code)")


# ============================================================================= R5
def rule_mpibc(rep: Report, ix: Index) -> None:
    f = ix.func(LOCAL, "_MPIBC.__init__")
    rep.saw("functions", f.ref)
    ev, paths = run(f, lenient=True)
    live = [p for p in paths if p.outcome is None]
    if len(live) != 1:
        raise AnalysisError(f"{f.ref}: expected one completing path, found {len(live)}")
    p = live[0]
    want = {"_idx_read": (-2, 1), "_idx_write": (-1, 0)}
    AX = attr("axis", SELF)
    UP = attr("upper", SELF)
    NA = attr("num_axes", attr("grid", SELF))
    got = {}
    for name, (hi, lo) in want.items():
        sets = [e for e in p.events if e[0] == "setattr" and e[2] == name and e[1] == SELF]
        if len(sets) != 1:
            raise AnalysisError(f"{f.ref}: `self.{name}` is not assigned exactly once")
        v = sets[0][3]
        probs = []
        if has_havoc(v):
            raise AnalysisError(f"{f.ref}: `self.{name}` depends on a statement outside the grammar: {ev.skipped}")
        if not (isinstance(v, tuple) and len(v) == 2 and v[0] == ELLIPSIS and isinstance(v[1], StarV) and isinstance(v[1].value, PyList)):
            raise AnalysisError(f"{f.ref}: `self.{name}` = `{_as_term(v)}` is not `(Ellipsis, *idx)`")
        lst: PyList = v[1].value
        if lst.repeat is None or lst.repeat[0] != SliceV(sp.Integer(1), sp.Integer(-1)) or lst.repeat[1] != NA:
            probs.append(f"other axes are `{_as_term(lst.repeat) if lst.repeat else lst.term()}`, not the valid range `slice(1, -1)` on each of the `grid.num_axes` axes")
        keys = {str(kk) for kk, _ in lst.stores}
        if keys != {str(AX)}:
            probs.append(f"entries {sorted(keys)} are replaced, expected only `self.axis`")
            on_axis = None
        else:
            on_axis = lst.load(AX)
        expect = F("ifexp")(UP, sp.Integer(hi), sp.Integer(lo))
        got[name] = str(on_axis)
        if on_axis is not None and on_axis != expect:
            what = "reads (sends) the outermost valid cell" if name == "_idx_read" else "writes (receives into) the ghost cell"
            probs.append(f"index on the boundary axis is `{on_axis}`; the condition {what}: `{hi} if upper else {lo}`")
        rep.oblige(f"_MPIBC:{name}={hi}|{lo}", not probs, got[name])
        for m in probs:
            rep.violation("C17.mpibc-indices", f"{f.ref}::{name}", m, line=sets[0][4].lineno)
    # send uses _idx_read, receive uses _idx_write, same partner and tag
    for qn, fn, idx in (("_MPIBC.send_ghost_cells", "mpi_send", "_idx_read"), ("_MPIBC.set_ghost_cells", "mpi_recv", "_idx_write")):
        g = ix.func(LOCAL, qn)
        rep.saw("functions", g.ref)
        data = func_params(g)[0]
        calls = [c for c in ast.walk(g.node) if isinstance(c, ast.Call) and dotted(c.func).split(".")[-1] in ("mpi_send", "mpi_recv")]
        ok = (
            len(calls) == 1
            and dotted(calls[0].func).split(".")[-1] == fn
            and len(calls[0].args) == 3
            and isinstance(calls[0].args[0], ast.Subscript)
            and dotted(calls[0].args[0].value) == data
            and dotted(calls[0].args[0].slice) == f"self.{idx}"
            and dotted(calls[0].args[1]) == "self._neighbor_id"
            and dotted(calls[0].args[2]) == "self._mpi_flag"
        )
        rep.oblige(f"{qn}:{fn}(data[{idx}], neighbor, flag)", ok)
        if not ok:
            rep.violation("C17.mpibc-indices", f"{g.ref}::call", f"does not `{fn}(data_full[self.{idx}], self._neighbor_id, self._mpi_flag)`", line=g.node.lineno)
    # neighbour / flag wiring in the constructor
    nid = [e for e in p.events if e[0] == "setattr" and e[2] == "_neighbor_id"]
    flg = [e for e in p.events if e[0] == "setattr" and e[2] == "_mpi_flag"]
    params = func_params(f)
    mesh, axis, upper = (sp.Symbol(x) for x in params[:3])
    ok = len(nid) == 1 and head_name(nid[0][3]) == "call_get_neighbor" and positional_args(nid[0][3])[:3] == [mesh, axis, upper] and kwarg_term(nid[0][3], "node_id") == sp.Symbol("node_id")
    ok2 = len(flg) == 1 and flg[0][3] in (F("call_get_boundary_flag")(mesh, attr("_neighbor_id", SELF), upper), F("call_get_boundary_flag")(mesh, nid[0][3] if nid else NONE, upper))
    rep.oblige("_MPIBC:neighbor-and-flag-of-this-face", ok and ok2)
    if not (ok and ok2):
        rep.violation("C17.mpibc-indices", f"{f.ref}::partner", "neighbour id / message tag are not those of (axis, upper, node_id) of this boundary", line=f.node.lineno)
    rep.sample({"_MPIBC": got})

    # ---- compiled sibling (numba_mpi backend)
    rel = "pde/backends/numba_mpi/backend.py"
    for qn, inner, fn, (hi, lo) in (
        ("NumbaMPIBackend._make_local_ghost_cell_sender", "ghost_cell_sender", "mpi_send", (-2, 1)),
        ("NumbaMPIBackend._make_local_ghost_cell_setter", "ghost_cell_setter", "mpi_recv", (-1, 0)),
    ):
        g = ix.func(rel, qn)
        rep.saw("functions", g.ref)
        check_compiled_mpi(rep, ix, g, inner, (hi, lo))


def check_compiled_mpi(rep: Report, ix: Index, g: FuncInfo, inner: str, want: tuple[int, int]) -> None:
    bc = func_params(g)[0]
    defs: dict[str, list[ast.expr]] = {}
    for n in ast.walk(g.node):
        if isinstance(n, ast.Assign) and len(n.targets) == 1 and isinstance(n.targets[0], ast.Name):
            defs.setdefault(n.targets[0].id, []).append(n.value)

    def one(name):
        v = defs.get(name, [])
        return v[0] if len(v) == 1 else None

    idx_def = one("idx")
    ok = (
        isinstance(idx_def, ast.IfExp)
        and dotted(idx_def.test) == f"{bc}.upper"
        and _int(idx_def.body) == want[0]
        and _int(idx_def.orelse) == want[1]
    )
    rep.oblige(f"{g.qualname}:idx={want[0]}|{want[1]}", ok)
    if not ok:
        rep.violation("C17.mpibc-indices", f"{g.ref}::idx", f"compiled route uses `{ast.unparse(idx_def) if idx_def is not None else '?'}`; expected `{want[0]} if {bc}.upper else {want[1]}`", line=g.node.lineno)
    na, ax = None, None
    for name, vs in defs.items():
        if len(vs) == 1 and dotted(vs[0]) == f"{bc}.grid.num_axes":
            na = name
        if len(vs) == 1 and dotted(vs[0]) == f"{bc}.axis":
            ax = name
    if na is None or ax is None:
        raise AnalysisError(f"{g.ref}: locals holding `{bc}.grid.num_axes` / `{bc}.axis` not found")
    variants = 0

    def test_eq(t: ast.expr, name: str):
        if isinstance(t, ast.Compare) and len(t.ops) == 1 and isinstance(t.ops[0], ast.Eq) and dotted(t.left) == name:
            return _int(t.comparators[0])
        return None

    def walk(body: list[ast.stmt], n_axes, axis, remaining_axes) -> None:
        nonlocal variants
        for st in body:
            if isinstance(st, ast.If):
                v = test_eq(st.test, na)
                if v is not None:
                    walk(st.body, v, None, list(range(v)))
                    walk(st.orelse, n_axes, axis, remaining_axes)
                    continue
                v = test_eq(st.test, ax)
                if v is not None and n_axes is not None:
                    walk(st.body, n_axes, v, remaining_axes)
                    rest = [a for a in remaining_axes if a != v]
                    # plain `else:` = the one remaining axis
                    if st.orelse and not (len(st.orelse) == 1 and isinstance(st.orelse[0], ast.If)):
                        if len(rest) != 1:
                            raise AnalysisError(f"{g.ref}: `else` branch covers axes {rest}")
                        walk(st.orelse, n_axes, rest[0], rest)
                    else:
                        walk(st.orelse, n_axes, None, rest)
                    continue
                if isinstance(st.test, ast.UnaryOp) or "isinstance" in ast.dump(st.test):
                    continue  # the non-MPI early exit
                walk(st.body, n_axes, axis, remaining_axes)
                walk(st.orelse, n_axes, axis, remaining_axes)
            elif isinstance(st, ast.FunctionDef) and st.name == inner:
                if n_axes is None:
                    raise AnalysisError(f"{g.ref}: kernel outside a `num_axes` branch")
                a = axis if axis is not None else (0 if n_axes == 1 else None)
                if a is None:
                    raise AnalysisError(f"{g.ref}: kernel for {n_axes} axes without an `axis` branch")
                variants += 1
                subs = [s for s in ast.walk(st) if isinstance(s, ast.Subscript) and dotted(s.value) == st.args.args[0].arg and isinstance(s.slice, ast.Tuple)]
                if not subs:
                    raise AnalysisError(f"{g.ref}: kernel ({n_axes} axes, axis {a}) does not index the data")
                for s in subs:
                    el = s.slice.elts
                    good = len(el) == n_axes + 1 and isinstance(el[0], ast.Constant) and el[0].value is Ellipsis
                    if good:
                        for j, x in enumerate(el[1:]):
                            if j == a:
                                good &= isinstance(x, ast.Name) and x.id == "idx"
                            else:
                                good &= isinstance(x, ast.Slice) and _int(x.lower) == 1 and _int(x.upper) == -1 and x.step is None
                    rep.oblige(f"{g.qualname}:{n_axes}d:axis{a}:index-tuple@{subs.index(s)}", good)
                    if not good:
                        rep.violation(
                            "C17.mpibc-indices",
                            f"{g.ref}::{n_axes}d-axis{a}",
                            f"compiled kernel for {n_axes} axes / axis {a} indexes `{ast.unparse(s.slice)}`; expected `...` then `idx` at position {a} and `1:-1` elsewhere",
                            line=s.lineno,
                        )

    walk(g.node.body, None, None, [])
    rep.floor(f"compiled MPI kernels in {g.qualname}", variants, 6)


def _int(e: ast.AST | None):
    try:
        v = ast.literal_eval(e) if e is not None else None
    except Exception:  # noqa: BLE001
        return None
    return v if isinstance(v, int) and not isinstance(v, bool) else None


def rule_mpi_flags(rep: Report, ix: Index) -> None:
    cls = ix.cls(MESH, "MPIFlags")
    consts = {}
    for name, e in cls.attrs.items():
        v = _int(e)
        if v is not None:
            consts[name] = v
    tables = {}
    for which in ("boundary_lower", "boundary_upper"):
        f = ix.func(MESH, f"MPIFlags.{which}")
        rep.saw("functions", f.ref)
        ev, paths = run(f)
        tables[which] = (f, paths, [sp.Symbol(x) for x in func_params(f)[:2]])
    gb = ix.func(MESH, "GridMesh.get_boundary_flag")
    rep.saw("functions", gb.ref)
    _, gpaths = run(gb)
    nb, up = (sp.Symbol(x) for x in func_params(gb)[:2])
    ok = True
    for p in gpaths:
        pol = [pl for g, pl in p.guards if g == up]
        v = p.outcome[1] if p.outcome and p.outcome[0] == "return" else None
        want = "call_boundary_upper" if (pol and pol[0]) else "call_boundary_lower"
        ok &= isinstance(v, sp.Basic) and head_name(v) == want and positional_args(v)[1:] == [attr("current_node", SELF), nb]
    rep.oblige("get_boundary_flag:upper->boundary_upper(me, neighbor)", ok)
    if not ok:
        rep.violation("C17.mpi-flags", f"{gb.ref}::dispatch", "the tag of a face is not `boundary_upper(me, neighbour)` for upper / `boundary_lower(me, neighbour)` for lower faces", line=gb.node.lineno)

    def flag(which: str, a: int, b: int) -> int:
        f, paths, (me, other) = tables[which]
        model = {me: a, other: b}
        hits = []
        for p in paths:
            if all(eval_guard(g, model) == pol for g, pol in p.guards):
                hits.append(p.outcome[1])
        if len(hits) != 1:
            raise AnalysisError(f"{f.ref}: not a partition at ({a},{b})")
        r = hits[0].xreplace({me: sp.Integer(a), other: sp.Integer(b)})
        r = r.xreplace({attr(n, sp.Symbol("cls")): sp.Integer(v) for n, v in consts.items()})
        if not r.is_Integer:
            raise AnalysisError(f"{f.ref}: tag `{r}` not numeric")
        return int(r)

    probs = {}
    reserved = {v for n, v in consts.items() if not n.startswith("_")}
    for a, b in itertools.permutations(range(6), 2):
        if flag("boundary_upper", a, b) != flag("boundary_lower", b, a):
            probs.setdefault("pairing", f"upper face of node {a} towards {b} uses tag {flag('boundary_upper', a, b)} but node {b} expects {flag('boundary_lower', b, a)} on its lower face")
        if flag("boundary_upper", a, b) == flag("boundary_lower", a, b):
            probs.setdefault("distinct", f"both faces between nodes {a} and {b} use tag {flag('boundary_upper', a, b)} (two-node periodic axis)")
        if {flag("boundary_upper", a, b), flag("boundary_lower", a, b)} & reserved:
            probs.setdefault("reserved", f"a boundary tag collides with the field split/combine tags {sorted(reserved)}")
    rep.oblige("mpi-flags:upper(a,b)=lower(b,a)!=lower(a,b)", not probs, probs)
    for role, msg in probs.items():
        rep.violation("C17.mpi-flags", f"{cls.ref}::{role}", msg, line=cls.node.lineno)


# ============================================================================= R6
def rule_bc_extraction(rep: Report, ix: Index) -> None:
    f = ix.func(MESH, "GridMesh.extract_boundary_conditions")
    rep.saw("functions", f.ref)
    base = sp.Symbol(func_params(f)[0])
    ev, paths = run(f)
    if len(ev.loops) != 2:
        raise AnalysisError(f"{f.ref}: expected an axis loop containing a side loop")
    outer, inner = ev.loops
    axis, upper = outer.target, inner.target
    probs: list[tuple[str, str]] = []
    if _as_term(outer.iter_value) != F("call_range")(attr("num_axes", SELF)):
        probs.append(("axes", f"axes are enumerated by `{_as_term(outer.iter_value)}`, not `range(self.num_axes)`"))
    if not (isinstance(inner.iter_value, (PyList, tuple)) and list(inner.iter_value.items if isinstance(inner.iter_value, PyList) else inner.iter_value) == [False, True]):
        probs.append(("sides", "sides are not enumerated as (lower, upper) = [False, True]"))
    BC = elem(elem(base, axis), upper)
    gn_pos = F("call_get_neighbor")(SELF, axis, upper)
    gn_kw = F("call_get_neighbor")(SELF, axis, F("kw_upper")(upper))
    gn_kw2 = F("call_get_neighbor")(SELF, F("kw_axis")(axis), F("kw_upper")(upper))
    live = [p for p in inner.paths if p.outcome is None]
    lists = [k for k in inner.carried if isinstance(inner.pre_env.get(k), PyList)]
    seen_pol = set()
    for p in live:
        g = [(t, pol) for t, pol in p.guards if head_name(t) == "is_none" and head_name(t.args[0]) == "call_get_neighbor"]
        apps = [e for e in p.events if e[0] == "append" and e[1] in lists]
        if len(g) != 1 or len(apps) != 1:
            probs.append(("branch", "a side is not decided by exactly one `get_neighbor(...) is None` test followed by one append"))
            continue
        t, pol = g[0]
        if t.args[0] not in (gn_pos, gn_kw, gn_kw2):
            probs.append(("neighbor-args", f"neighbour looked up as `{t.args[0]}`, not for (axis, upper) of this side on the current node"))
        val = apps[0][2]
        seen_pol.add(pol)
        if pol:  # no neighbour: physical boundary
            want = F("call_to_subgrid")(BC, attr("current_grid", SELF))
            if val != want:
                probs.append(("outer-face", f"outer face gets `{val}`, not `bcs_base[axis][upper].to_subgrid(self.current_grid)`"))
        else:
            wants = [
                F("call__MPIBC")(SELF, axis, upper, F("kw_rank")(attr("rank", BC))),
            ]
            if val not in wants:
                probs.append(("inner-face", f"inner face gets `{val}`, not `_MPIBC(self, axis, upper, rank=bc.rank)`"))
    if seen_pol != {True, False}:
        probs.append(("branch", "both cases (neighbour / no neighbour) must be handled"))
    # pair + list construction
    live_o = [q for q in outer.paths if q.outcome is None]
    oapps = [e for q in live_o for e in q.events if e[0] == "append"]
    ok_pair = len(oapps) == 1 and head_name(_as_term(oapps[0][2])) == "call_BoundaryPair" and lists and str(_as_term(oapps[0][2]).args[0]).startswith(f"star({lists[0]}@end")
    if not ok_pair:
        probs.append(("pair", "the two sides of an axis are not combined as `BoundaryPair(*[lower, upper])` once per axis"))
    rets = [q for q in paths if q.outcome and q.outcome[0] == "return"]
    if not (len(rets) == 1 and head_name(rets[0].outcome[1]) == "call_BoundariesList"):
        probs.append(("pair", "result is not `BoundariesList(bcs)`"))
    # signature of _MPIBC / get_neighbor as bound above
    mp = ix.func(LOCAL, "_MPIBC.__init__")
    gnf = ix.func(MESH, "GridMesh.get_neighbor")
    if func_params(mp)[:3] != ["mesh", "axis", "upper"] or "rank" not in func_params(mp):
        probs.append(("inner-face", f"{mp.ref} no longer takes (mesh, axis, upper, *, rank)"))
    if func_params(gnf)[:2] != ["axis", "upper"]:
        probs.append(("neighbor-args", f"{gnf.ref} no longer takes (axis, upper)"))
    cg = ix.func(MESH, "GridMesh.current_grid")
    _, cp = run(cg)
    gi = ix.func(MESH, "GridMesh.__getitem__")
    ok_cg = len(cp) == 1 and cp[0].outcome[1] == elem(SELF, attr("current_node", SELF))
    if not ok_cg:
        probs.append(("outer-face", "`current_grid` is not `self[self.current_node]`"))
    rep.saw("functions", cg.ref)
    rep.saw("functions", gi.ref)
    rep.oblige("extract_bcs:mpi-iff-neighbour-else-to_subgrid", not probs, [m for _, m in probs])
    for role, msg in probs:
        rep.violation("C17.bc-extraction", f"{f.ref}::{role}", msg, line=inner.node.lineno)
    # GridBase.get_boundary_conditions: sub-grids derive their conditions from the base grid
    g = ix.func("pde/grids/base.py", "GridBase.get_boundary_conditions")
    rep.saw("functions", g.ref)
    calls = [c for c in ast.walk(g.node) if isinstance(c, ast.Call) and isinstance(c.func, ast.Attribute) and c.func.attr == "extract_boundary_conditions"]
    defs = {}
    for n in ast.walk(g.node):
        if isinstance(n, ast.Assign) and len(n.targets) == 1 and isinstance(n.targets[0], ast.Name):
            defs.setdefault(n.targets[0].id, []).append(n.value)
    ok = False
    if len(calls) == 1 and dotted(calls[0].func.value) == "self._mesh" and len(calls[0].args) == 1 and isinstance(calls[0].args[0], ast.Name):
        src = defs.get(calls[0].args[0].id, [])
        if len(src) == 1 and isinstance(src[0], ast.Call) and dotted(src[0].func).endswith("from_data"):
            kw = {k.arg: k.value for k in src[0].keywords}
            ok = dotted(kw.get("grid", ast.Constant(value=None))) == "self._mesh.basegrid" and dotted(kw.get("rank", ast.Constant(value=None))) == "rank"
    rep.oblige("get_boundary_conditions:subgrid-bcs-from-basegrid", ok)
    if not ok:
        rep.violation("C17.bc-extraction", f"{g.ref}::basegrid", "conditions of a sub-grid are not built on `self._mesh.basegrid` (same rank) and then extracted", line=g.node.lineno)


# ============================================================================= R7
def rule_to_subgrid(rep: Report, ix: Index) -> None:
    base = ix.cls(LOCAL, "BCBase")
    base_ts = ix.func(LOCAL, "BCBase.to_subgrid")
    classes = [c for c in ix.subclasses(base, strict=True) if c.module.rel == LOCAL]
    rep.floor("boundary condition classes", len(classes), 15)
    overrides = {c.name for c in classes if c.methods.get("to_subgrid")}
    rep.floor("to_subgrid overrides", len(overrides), 3)
    n_pairs = 0
    for c in classes:
        T = c.find_method("to_subgrid")
        I = c.find_method("__init__")
        if T is None or I is None:
            raise AnalysisError(f"{c.ref}: to_subgrid/__init__ not resolvable")
        if T is base_ts:
            # refuses loudly (NotImplementedError): nothing can be lost
            body = strip_doc(T.node.body)
            if not any(isinstance(s, ast.Raise) for s in body):
                raise AnalysisError(f"{T.ref}: base implementation no longer raises")
            continue
        rep.saw("to_subgrid pairs", f"{c.name}: {T.qualname} -> {I.qualname}")
        n_pairs += 1
        sub = func_params(T)[0]
        ctor = [
            n
            for n in ast.walk(T.node)
            if isinstance(n, ast.Call)
            and (
                (isinstance(n.func, ast.Attribute) and n.func.attr == "__class__" and dotted(n.func.value) == "self")
                or (isinstance(n.func, ast.Call) and dotted(n.func.func) == "type" and len(n.func.args) == 1 and dotted(n.func.args[0]) == "self")
            )
        ]
        if len(ctor) != 1:
            raise AnalysisError(f"{T.ref}: expected one `self.__class__(...)` call, found {len(ctor)}")
        call = ctor[0]
        a = I.node.args
        pos = [p.arg for p in a.posonlyargs + a.args][1:]
        allp = pos + [p.arg for p in a.kwonlyargs]
        if a.vararg or a.kwarg or any(isinstance(x, ast.Starred) for x in call.args) or any(k.arg is None for k in call.keywords):
            raise AnalysisError(f"{T.ref}/{I.ref}: star arguments are outside the grammar of the rule")
        passed: dict[str, ast.expr] = {}
        for name, arg in zip(pos, call.args):
            passed[name] = arg
        for k in call.keywords:
            passed[k.arg] = k.value
        extra = [k for k in passed if k not in allp]
        missing = [p for p in allp if p not in passed]
        rep.oblige(f"to_subgrid:{c.name}:same-parameter-set", not extra and not missing, {"passed": sorted(passed), "constructor": allp})
        for k in extra:
            rep.violation(
                "C17.to-subgrid-params",
                f"{T.ref}::{c.name}/extra={k}",
                f"{c.name} inherits `to_subgrid` from {T.cls.name}, which passes `{k}=` to `self.__class__`, but {I.ref} has no such parameter: "
                f"transferring this condition to a sub-grid raises TypeError",
                line=call.lineno,
            )
        for p in missing:
            rep.violation(
                "C17.to-subgrid-params",
                f"{T.ref}::{c.name}/missing={p}",
                f"`to_subgrid` of {c.name} rebuilds the condition without `{p}` (parameter of {I.ref}): the sub-grid condition silently gets the default",
                line=call.lineno,
            )
        # each parameter must be rebuilt from what it was constructed with
        hf = HeapFlow(ix, c, ())
        st, _ = hf.run_init()
        for p, e in passed.items():
            if p in extra:
                continue
            if p == "grid":
                ok = isinstance(e, ast.Name) and e.id == sub
                src = ast.unparse(e)
            else:
                v = hf.ev(e, State({}, st.heap), 0)
                d = {x[2:] for x in deps_of(unwrap(v)) | frozenset().union(*[deps_of(l) for _, l in leaves(v)]) if x.startswith("p:")}
                ok = d == {p}
                src = f"{ast.unparse(e)} <- parameters {sorted(d)}"
            rep.oblige(f"to_subgrid:{c.name}:{p}<-same-parameter", ok, src)
            if not ok:
                rep.violation(
                    "C17.to-subgrid-params",
                    f"{T.ref}::{c.name}/param={p}",
                    f"`to_subgrid` of {c.name} fills `{p}` with `{src}`, which is not the value the condition was constructed with",
                    line=call.lineno,
                )
    rep.floor("(class, to_subgrid, __init__) triples analysed", n_pairs, 15)


# ============================================================================= R8
class _CtorCapture(HeapFlow):
    """HeapFlow that records the arguments of the constructor call inside from_bounds"""

    def __init__(self, ix, cls, identity, clsname: str):
        super().__init__(ix, cls, identity)
        self.clsname = clsname
        self.captured: list[tuple[ClassInfo, dict]] = []

    def call(self, e: ast.Call, st, depth):
        target = None
        if isinstance(e.func, ast.Name):
            if e.func.id == self.clsname:
                target = self.cls
            else:
                f0: FuncInfo = st.env.get("__func__")
                r = self.ix.resolve_name(f0.module, e.func.id) if f0 is not None else None
                if isinstance(r, ClassInfo) and r.is_subclass_of("GridBase"):
                    target = r
        if target is not None:
            init = target.find_method("__init__")
            binding = self._bind(init, e, st, depth, skip_self=True)
            self.captured.append((target, binding))
        return super().call(e, st, depth)


def rule_from_bounds(rep: Report, ix: Index) -> None:
    base = ix.cls("pde/grids/base.py", "GridBase")
    classes = [c for c in ix.subclasses(base, strict=True) if c.module.rel.startswith("pde/grids/") and not any(k.arg == "metaclass" for k in c.node.keywords)]
    rep.floor("concrete grid classes (from_bounds)", len(classes), 5)
    identity = ["_shape", "_axes_bounds", "_periodic"]
    need = {"_axes_bounds": "bounds", "_shape": "shape", "_periodic": "periodic"}
    for c in classes:
        fb = c.find_method("from_bounds")
        if fb is None or fb.cls is base:
            rep.violation("C17.from-bounds", f"{c.ref}::from_bounds", f"{c.name} does not implement `from_bounds`: it cannot be subdivided", line=c.node.lineno)
            continue
        rep.saw("functions", fb.ref)
        names = [p.arg for p in fb.node.args.args]
        cap = _CtorCapture(ix, c, identity, names[0])
        binding = {n: cap.param(n) for n in names[1:]}
        cap._call_function(fb, binding, {}, 0)
        if len(cap.captured) != 1:
            raise AnalysisError(f"{fb.ref}: expected one constructor call, found {len(cap.captured)}")
        target, args = cap.captured[0]
        hf = HeapFlow(ix, target, identity)
        st, init = hf.run_init(args=args)
        for a, src in need.items():
            v = st.heap.get(a)
            if v is None:
                v = hf.self_attr(a, st.heap, 0)
            lv = leaves(v, a)
            variable = [(pth, l) for pth, l in lv if isinstance(unwrap(l), Tok) and deps_of(unwrap(l))]
            got = set()
            for pth, l in variable:
                got |= {x[2:] for x in deps_of(unwrap(l)) if x.startswith("p:")}
            if a == "_periodic" and not variable:
                continue  # constant flags (radial grids)
            bad = [pth for pth, l in variable if src not in {x[2:] for x in deps_of(unwrap(l)) if x.startswith("p:")} and any(x.startswith("p:") for x in deps_of(unwrap(l)))]
            foreign = [pth for pth, l in variable if a == "_axes_bounds" and {x[2:] for x in deps_of(unwrap(l)) if x.startswith("p:")} - {src}]
            ok = not bad and not foreign and (src in got)
            rep.oblige(f"from_bounds:{c.name}:{a}<-{src}", ok, {"filled_from": sorted(got)})
            if not ok:
                rep.violation(
                    "C17.from-bounds",
                    f"{fb.ref}::{a}",
                    f"`{a}` of the grid built by {c.name}.from_bounds is filled from {sorted(got)} (leaves {bad or foreign}); it must come from `{src}`",
                    line=fb.node.lineno,
                )


# ============================================================================= entry
def rule_mesh_owns_subgrids(rep: Report, ix) -> None:
    """GridMesh.__init__ marks every sub-grid as a member of the mesh (`subgrid._mesh = self`), and
    `_subdivide_along_axis` hands its argument back unchanged when an axis is not split (`chunks == 1`).  Splitting must
    not change the grid that is split: GridMesh.from_grid therefore never stores the caller's grid object itself into the
    array of sub-grids -- every value stored there is the result of a call (a copy, a subdivision), never the parameter
    (or a plain alias of it)."""
    f = ix.func(MESH, "GridMesh.from_grid")
    rep.saw("functions", f.ref)
    params = [a.arg for a in f.node.args.args]
    if len(params) < 2:
        raise AnalysisError(f"{f.ref}: expected (cls, grid, ...)")
    gname = params[1]
    aliases = {gname}
    for x in ast.walk(f.node):
        if isinstance(x, ast.Assign) and isinstance(x.value, ast.Name) and x.value.id in aliases:
            for t in x.targets:
                if isinstance(t, ast.Name):
                    aliases.add(t.id)
    # the array of sub-grids: the name handed to cls(..., subgrids=<name>)
    arr = None
    for x in ast.walk(f.node):
        if isinstance(x, ast.Call) and isinstance(x.func, ast.Name) and x.func.id == params[0]:
            for k in x.keywords:
                if k.arg == "subgrids" and isinstance(k.value, ast.Name):
                    arr = k.value.id
    if arr is None:
        raise AnalysisError(f"{f.ref}: `cls(..., subgrids=<name>)` not found")
    stores = []
    for x in ast.walk(f.node):
        if isinstance(x, ast.Assign):
            for t in x.targets:
                base = t
                while isinstance(base, (ast.Subscript, ast.Attribute)):
                    base = base.value
                if isinstance(t, ast.Subscript) and isinstance(base, ast.Name) and base.id == arr:
                    stores.append(x)
    rep.floor(f"{f.ref}: stores into the sub-grid array", len(stores), 2)
    bad = [x for x in stores if isinstance(x.value, ast.Name) and x.value.id in aliases]
    rep.oblige("from_grid: the grid being split is not itself stored as a sub-grid", not bad, [ast.unparse(x) for x in bad])
    for x in bad:
        rep.violation(
            "C17.mesh-owns-subgrids",
            f"{f.ref}::{arr}::stores-caller-grid",
            f"`{ast.unparse(x)}` stores the caller's grid `{gname}` itself in the mesh: for a decomposition that leaves every axis unsplit `_subdivide_along_axis` returns that very object, "
            "GridMesh.__init__ then marks the full grid as a sub-grid of its own mesh (`_mesh` set), and later splits / whole-grid operators on the same grid object fail -- splitting changed the grid",
            line=x.lineno,
        )


def check(tier: str) -> Report:
    rep = Report("C17", tier, "other", "static: symbolic extraction of partition/cursor recurrences, neighbour case table, MPI index tuples; constructor-parameter matching of to_subgrid")
    rep.explanation = (
        "The bookkeeping fragments of the grid decomposition are evaluated path by path into sympy terms (uninterpreted for numpy "
        "calls) and compared with the algebra of an exact tiling: one integer partition with exact endpoints, cursors that chain "
        "start=end from 0 on the parent's cell-boundary lattice, data slices chaining the same way with overlap 2 iff ghost cells, a "
        "neighbour table that is symmetric and wraps only when periodic (finite-model evaluation of the extracted table), MPI "
        "conditions that send the outermost valid cell and receive into the ghost cell, MPI condition iff a neighbour exists, and "
        "to_subgrid/from_bounds rebuilding objects from the same parameters."
    )
    ix = get_index()
    rule_chunk_partition(rep, ix)
    rule_bounds_chain(rep, ix)
    rule_data_slices(rep, ix)
    rule_neighbor_table(rep, ix)
    rule_mpibc(rep, ix)
    rule_mpi_flags(rep, ix)
    rule_bc_extraction(rep, ix)
    rule_to_subgrid(rep, ix)
    rule_from_bounds(rep, ix)
    rule_mesh_owns_subgrids(rep, ix)
    rep.assumptions += [
        "documented semantics of np.linspace (endpoints exact), ndarray.astype(int) (truncation, monotone, exact on integers), np.diff, np.unravel_index/np.ravel_multi_index (inverse for the same shape)",
        "the end-to-end equality of operators on the mesh (needs MPI at run time) is not decided -- only its ingredients",
        "a property setter/getter pair is coherent (BC `value`)",
        "mesh shapes beyond 7 nodes per axis behave like those up to 7 (guards compare k with 0 and size-1 only)",
    ]
    rep.trusted = ["CPython ast", "sympy (term equality / simplification of cursor differences)", "numpy documented semantics"]
    return rep

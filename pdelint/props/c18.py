"""C18 -- Poisson/Laplace solvers return solutions of the discrete problem.

(a) every ``_get_laplace_matrix*`` assembler is interpreted from source with the row
    loop split into {first, interior, last} (and with concrete 2-cell shapes); the
    resulting matrix/vector rows must equal "numba Laplace stencil (default options)
    with ghost cells eliminated through the boundary formulas" for all boundary
    condition classes per side, both ``r_min`` cases;
(b) no-overwrite-after-accumulate: once an entry of a row has been accumulated with
    ``+=`` no later ``=`` may hit the same entry in that row;
(c) ``solve_poisson``: every path that stores into ``out`` passes a residual test.
"""

from __future__ import annotations

import ast
import itertools
import multiprocessing as mp
import os

import sympy as sp

from ..core import AnalysisError, Report
from ..fx import IdxArr, Interp, Model, Opaque, RaisedInCode, Unsupported, Vec, make_grid_model, to_py
from ..index import dotted, get_index
from ..kernels import apply_kernel, read_config_defaults, registrations, run_factory, std_overrides
from ..stencil import kernel_table, linear_stencil
from .c02 import GAMMA, BETA, LOCAL, V, bc_model, decide as decide_sizes

AXIS = "pde/grids/boundaries/axis.py"
ASSEMBLERS = [
    # (module, function, grid class, n_axes)
    ("pde/backends/scipy/operators/cartesian.py", "_get_laplace_matrix_1d", "CartesianGrid", 1),
    ("pde/backends/scipy/operators/cartesian.py", "_get_laplace_matrix_2d", "CartesianGrid", 2),
    ("pde/backends/scipy/operators/cartesian.py", "_get_laplace_matrix_3d", "CartesianGrid", 3),
    ("pde/backends/scipy/operators/polar_sym.py", "_get_laplace_matrix", "PolarSymGrid", 1),
    ("pde/backends/scipy/operators/spherical_sym.py", "_get_laplace_matrix", "SphericalSymGrid", 1),
    ("pde/backends/scipy/operators/cylindrical_sym.py", "_get_laplace_matrix", "CylindricalSymGrid", 2),
]
KINDS = {"D": "DirichletBC", "N": "NeumannBC", "M": "MixedBC", "C": "CurvatureBC", "P": "_PeriodicBC", "A": "_PeriodicBC"}  # A = anti-periodic (flip_sign)
SIDE_COMBOS = [("D", "D"), ("N", "N"), ("M", "M"), ("C", "C"), ("D", "C"), ("C", "N"), ("N", "D")]


def norm(e):
    """normal form of rational expressions (zero test by cancellation)"""
    e = sp.sympify(e)
    if e.is_number:
        return sp.nsimplify(e) if e.is_Float else e
    if e.free_symbols and not e.has(sp.Function):
        try:
            return sp.cancel(sp.together(e))
        except Exception:  # noqa: BLE001
            return sp.simplify(e)
    return sp.simplify(e)


def nidx(e):
    """normal form of index expressions (polynomials in the shape symbols)"""
    return sp.expand(sp.sympify(e))


class MatrixRec:
    """records the assembly of one sparse matrix / vector"""

    def __init__(self, it: Interp, name: str, ncols: int):
        self.it, self.name, self.ncols = it, name, ncols
        self.cur: dict[tuple, dict] = {}  # case -> {key: value}
        self.log: list[dict] = []
        self.diag = None
        self.scale = sp.Integer(1)
        self.model = Model(
            name,
            {
                "__getitem__": self.get,
                "__setitem__": self.set,
                "setdiag": self.setdiag,
                "__binop__": self.binop,
                "tocsc": lambda: self.model,
                "toarray": lambda: self.model,
            },
        )

    def case(self):
        return tuple(self.it.case_stack)

    def key(self, key):
        key = tuple(nidx(k) for k in key)
        if self.ncols == 1 and len(key) == 1:
            key = key + (sp.Integer(0),)
        return key

    def get(self, key):
        return self.cur.get(self.case(), {}).get(self.key(key), sp.Integer(0))

    def set(self, key, value, aug, st):
        k = self.key(key)
        self.cur.setdefault(self.case(), {})[k] = self.it.as_expr(value)
        self.log.append({"case": self.case(), "key": k, "aug": aug, "line": getattr(st, "lineno", 0), "func": self.it.func_stack[-1] if self.it.func_stack else ""})

    def setdiag(self, v):
        self.diag = self.it.as_expr(v)

    def binop(self, op, me, other, reflected):
        if isinstance(op, ast.Mult):
            self.scale = self.scale * self.it.as_expr(other)
            return self.model
        raise Unsupported("matrix arithmetic other than scaling")

    def rows(self):
        return {case: {k: norm(v * self.scale) for k, v in d.items()} for case, d in self.cur.items()}


def flat_index(cell, shape):
    """numpy C-order ravel of a cell index (the solvers use np.ravel / .flat)"""
    f = sp.Integer(0)
    for c, n in zip(cell, shape):
        f = f * n + c
    return nidx(f)


def make_bcs(ix, grid, n_axes, kinds_per_axis):
    """BoundariesList model: per axis a BoundaryPair/BoundaryPeriodic model from axis.py"""
    axes = []
    for axis in range(n_axes):
        lo_k, hi_k = kinds_per_axis[axis]
        sides = []
        for upper, kind in ((False, lo_k), (True, hi_k)):
            tag = f"{axis}{'h' if upper else 'l'}"
            if kind in ("P", "A"):
                attrs = {"flip_sign": kind == "A"}
            elif kind == "M":
                attrs = {"value": sp.Symbol(f"gamma_{tag}"), "const": sp.Symbol(f"beta_{tag}")}
            else:
                attrs = {"value": sp.Symbol(f"v_{tag}")}
            sides.append(bc_model(ix, KINDS[kind], grid, axis, upper, 0, **attrs))
        # the axis object is an instance of the class the package itself uses for this axis, so that overrides of
        # get_sparse_matrix_data / set_ghost_cells in BoundaryPeriodic are seen
        pair_cls = ix.cls(AXIS, "BoundaryPeriodic" if lo_k in ("P", "A") else "BoundaryPair")
        axes.append(Model(f"bc_axis{axis}", {"grid": grid, "axis": axis, "low": sides[0], "high": sides[1], "periodic": lo_k in ("P", "A"), "flip_sign": lo_k == "A"}, cls=pair_cls))
    return Model(
        "bcs",
        {
            "grid": grid,
            "check_value_rank": lambda r: None,
            "__getitem__": lambda key: axes[to_py(key[0])],
            "__unpack__": lambda n: list(axes),
            "__iter__": lambda: list(axes),
            "__len__": n_axes,
        },
    ), axes


def ghost_data(ix, bc):
    """(const, {valid index: factor}) from get_virtual_point_data (the formula C02 proves)"""
    it = Interp(ix, decide=decide_sizes)
    data = it.call(it.getattr(bc, "get_virtual_point_data"), (), {})
    data = [it.as_expr(x) for x in data]
    const = data[0]
    entries = {nidx(data[2]): data[1]}
    if len(data) == 5:
        entries[nidx(data[4])] = data[3]
    return const, entries


def unmask(e):
    """finite-coefficient branch of masked(new, mask, old)"""
    from sympy.core.function import AppliedUndef

    from ..fx import MASKED

    e = sp.sympify(e)
    while True:
        ms = [m for m in e.atoms(AppliedUndef) if m.func == MASKED]
        if not ms:
            return e
        e = e.xreplace({m: m.args[2] for m in ms})


def expected_row(ix, grid, n_axes, table, cell, axes_models):
    """matrix row / vector entry for the valid cell `cell` from the numba stencil + BCs"""
    syms = table.loop_syms
    shape = grid._attrs["shape"]
    st = linear_stencil(table.comps[()], syms)
    if st is None or ("const",) in st:
        raise Unsupported("Laplace stencil is not homogeneous linear")
    sub = {s: c + 1 for s, c in zip(syms, cell)}  # padded index of the row cell
    row: dict = {}
    vec = sp.Integer(0)
    for (comp, offs), coef in st.items():
        co = norm(coef.subs(sub, simultaneous=True))
        if co == 0:
            continue
        col = [c + o for c, o in zip(cell, offs)]
        outside = []
        for k in range(n_axes):
            d_lo = nidx(col[k] - (-1))
            d_hi = nidx(col[k] - shape[k])
            if d_lo == 0:
                outside.append((k, False))
            elif d_hi == 0:
                outside.append((k, True))
        if len(outside) > 1:
            raise Unsupported("stencil reads a corner ghost cell")
        if not outside:
            key = flat_index(col, shape)
            row[key] = norm(row.get(key, 0) + co)
            continue
        k, upper = outside[0]
        bc = axes_models[k]._attrs["high" if upper else "low"]
        const, entries = ghost_data(ix, bc)
        vec += co * unmask(const)
        for idx, fac in entries.items():
            c2 = list(col)
            c2[k] = idx
            key = flat_index(c2, shape)
            row[key] = norm(row.get(key, 0) + co * unmask(fac))
    return {k: v for k, v in row.items() if v != 0}, norm(vec)


def _decide_relational(cond, interior_syms):
    """order comparisons in the symbolic-N runs: an interior row index s satisfies 1 <= s <= N-2 and every extent is
    N >= 3 there; with s = 1 + a, N = 3 + a + b (a, b >= 0) the sign of lhs - rhs is decided by sympy's assumptions"""
    if not isinstance(cond, (sp.StrictLessThan, sp.LessThan, sp.StrictGreaterThan, sp.GreaterThan)):
        return None
    sub = {}
    used_N = set()
    for k, (sym, N) in enumerate(interior_syms.items()):
        a = sp.Symbol(f"_a{k}", integer=True, nonnegative=True)
        b = sp.Symbol(f"_b{k}", integer=True, nonnegative=True)
        if sym in cond.free_symbols:
            sub[sym] = 1 + a
            if isinstance(N, sp.Symbol):
                sub[N] = 3 + a + b
                used_N.add(N)
    for k, q in enumerate(sorted(cond.free_symbols - set(sub), key=str)):
        if q.name.startswith("N") and q.is_integer and q.is_positive:
            sub[q] = 3 + sp.Symbol(f"_c{k}", integer=True, nonnegative=True)
    d = sp.expand((cond.lhs - cond.rhs).subs(sub, simultaneous=True))
    if d.free_symbols - {v for e in sub.values() for v in sp.sympify(e).free_symbols}:
        return None
    if isinstance(cond, sp.StrictLessThan):
        return True if d.is_negative else (False if d.is_nonnegative else None)
    if isinstance(cond, sp.LessThan):
        return True if d.is_nonpositive else (False if d.is_positive else None)
    if isinstance(cond, sp.StrictGreaterThan):
        return True if d.is_positive else (False if d.is_nonpositive else None)
    return True if d.is_nonnegative else (False if d.is_negative else None)


def interior_decider(interior_syms, shape_of):
    """decide conditions on interior row symbols: 1 <= s <= N-2, hence s != 0, s != N-1"""

    def decide(cond, node):
        if not isinstance(cond, sp.Basic):
            return None
        syms = [s for s in cond.free_symbols if s in interior_syms]
        if syms and isinstance(cond, (sp.Equality, sp.Unequality)):
            s = syms[0]
            N = shape_of[s]
            try:
                sols = sp.solve(sp.Eq(cond.lhs, cond.rhs), s)
            except Exception:  # noqa: BLE001
                return None
            interior_possible = False
            for e in sols:
                if nidx(e) == 0 or nidx(e - (N - 1)) == 0 or nidx(e + 1) == 0 or nidx(e - N) == 0:
                    continue
                interior_possible = True
            if not interior_possible:
                return isinstance(cond, sp.Unequality)
            return None
        r = _decide_relational(cond, interior_syms)
        if r is not None:
            return r
        return decide_sizes(cond, node)

    return decide


def _assemble(job):
    rel, fname, gcls, n_axes, kinds_per_axis, rmin_zero, concrete = job
    ix = get_index()
    cfg = read_config_defaults(ix)
    grid = make_grid_model(ix, gcls, n_axes)
    if rmin_zero:
        K = IdxArr.K
        h0 = grid._attrs["discretization"].items[0]
        N0 = grid._attrs["shape"][0]
        grid._attrs["axes_coords"] = (IdxArr((K + sp.Rational(1, 2)) * h0, N0),) + tuple(grid._attrs["axes_coords"][1:])
        grid._attrs["axes_bounds"] = ((sp.Integer(0), N0 * h0),) + tuple(grid._attrs["axes_bounds"][1:])
    elif gcls != "CartesianGrid":
        # annulus: the inner radius is strictly positive
        rpos = sp.Symbol("r_min", positive=True)
        grid._attrs["axes_coords"] = tuple(IdxArr(a.expr.subs(sp.Symbol("r_min", nonnegative=True), rpos), a.n) for a in grid._attrs["axes_coords"])
        grid._attrs["axes_bounds"] = tuple(tuple(sp.sympify(b).subs(sp.Symbol("r_min", nonnegative=True), rpos) for b in bb) for bb in grid._attrs["axes_bounds"])
    if concrete:
        # concrete number of cells (a tuple, 2 or 1 per axis): loops are unrolled
        subsN = {n: sp.Integer(c) for n, c in zip(grid._attrs["shape"], concrete)}
        grid._attrs["shape"] = tuple(concrete)
        grid._attrs["axes_coords"] = tuple(IdxArr(a.expr, c) for a, c in zip(grid._attrs["axes_coords"], concrete))
        grid._attrs["axes_bounds"] = tuple(tuple(sp.sympify(b).subs(subsN) for b in bb) for bb in grid._attrs["axes_bounds"])
        grid._attrs["_shape_full"] = tuple(c + 2 for c in concrete)
    shape = grid._attrs["shape"]
    bcs, axes_models = make_bcs(ix, grid, n_axes, kinds_per_axis)
    ov = std_overrides(ix, cfg)
    it = Interp(ix, overrides=ov)
    recs = []

    def dok_matrix(shp, *a, **k):
        name = "matrix" if not recs else "vector"
        r = MatrixRec(it, name, ncols=1 if name == "vector" else 2)
        recs.append(r)
        return r.model

    it.overrides["scipy"] = Model("scipy", {"sparse": Model("sparse", {"dok_matrix": dok_matrix})})
    sparse_model = Model("sparse", {"dok_matrix": dok_matrix})
    orig_importfrom = it.exec_ImportFrom

    def exec_importfrom(st, env):
        if st.module == "scipy" and any(a.name == "sparse" for a in st.names):
            env.set("sparse", sparse_model)
            return
        orig_importfrom(st, env)

    it.exec_ImportFrom = exec_importfrom
    it.np["arange"] = lambda n: IdxArr(IdxArr.K, n)
    interior_syms = {}
    loop_order: list[str] = []

    def loop_cases(var, lo, hi, node):
        if nidx(lo) != 0:
            return None
        N = sp.sympify(hi)
        s = sp.Symbol(f"{var}_int", integer=True, positive=True)
        interior_syms[s] = N
        if var not in loop_order:
            loop_order.append(var)
        return [("first", sp.Integer(0)), ("interior", s), ("last", N - 1)]

    if not concrete:
        it.loop_cases = loop_cases
        it.decide = interior_decider(interior_syms, interior_syms)
    else:
        it.decide = decide_sizes
    f = ix.func(rel, fname)
    try:
        it.call(it.make_closure(f, it.module_env(f.module)), (bcs,), {})
    except RaisedInCode as e:
        return {"job": job, "error": f"assembler raised {e.exc_name}"}
    except Unsupported as e:
        return {"job": job, "error": str(e)}
    if len(recs) != 2:
        return {"job": job, "error": f"{len(recs)} dok_matrix objects created, expected matrix and vector"}
    mat, vec = recs
    # ---------------------------------------------------------------- expected rows from the numba stencil
    reg = [r for r in registrations(ix, "NumbaBackend", "pde/backends/numba/operators/") if r.grid_cls == gcls and r.name == "laplace"][0]
    kgrid = grid if not concrete else _symbolic_twin(ix, gcls, n_axes, grid)
    it2, closure = run_factory(ix, reg.factory, kgrid, {}, cfg)
    k = apply_kernel(it2, closure, kgrid, factory=reg.factory.ref, options={})
    table = kernel_table(k, n_axes)
    if concrete:
        subsN = {n: sp.Integer(c) for n, c in zip(kgrid._attrs["shape"], concrete)}
        table.comps = {c: sp.sympify(t).subs(subsN) for c, t in table.comps.items()}
    out = {"job": job, "mismatch": [], "overwrites": [], "rows": 0, "samples": []}
    mrows = mat.rows()
    vrows = vec.rows()
    if concrete:
        cases = [((), cell) for cell in itertools.product(*[range(n) for n in shape])]
    else:
        labels = {"first": lambda s, N: sp.Integer(0), "last": lambda s, N: N - 1}
        cases = []
        for case in mrows:
            cell = []
            for (var, lab), N in zip(case, shape):
                if lab == "interior":
                    cell.append([s for s, n in interior_syms.items() if s.name == f"{var}_int"][0])
                else:
                    cell.append(labels[lab](None, N))
            cases.append((case, tuple(cell)))
        if len(cases) != 3**n_axes:
            return {"job": job, "error": f"assembler visited {len(cases)} row cases, expected {3 ** n_axes}"}
    for case, cell in cases:
        out["rows"] += 1
        rowkey = flat_index(cell, shape)
        if concrete:
            got = {kk[1]: v for kk, v in mrows.get((), {}).items() if nidx(kk[0] - rowkey) == 0}
            gvec = sum((v for kk, v in vrows.get((), {}).items() if nidx(kk[0] - rowkey) == 0), sp.Integer(0))
        else:
            got = {}
            for kk, v in mrows.get(case, {}).items():
                if nidx(kk[0] - rowkey) != 0:
                    out["mismatch"].append({"case": str(case), "what": f"store into row `{kk[0]}` while assembling the row of cell {cell} (flat {rowkey})"})
                    continue
                got[kk[1]] = norm(got.get(kk[1], 0) + v)
            gvec = sum((v for kk, v in vrows.get(case, {}).items()), sp.Integer(0))
        if mat.diag is not None:
            got[rowkey] = norm(got.get(rowkey, 0) + mat.diag * mat.scale)
        got = {kk: v for kk, v in got.items() if v != 0}
        want, wvec = expected_row(ix, grid, n_axes, table, cell, axes_models)
        keys = set(got) | set(want)
        for kk in keys:
            d = norm(unmask(got.get(kk, 0)) - want.get(kk, 0))
            if d != 0:
                out["mismatch"].append(
                    {"case": str(case) or f"cell{cell}", "what": f"entry [row {rowkey}, col {kk}] is `{got.get(kk, 0)}`, stencil with eliminated ghost cells gives `{want.get(kk, 0)}`"}
                )
        dv = norm(unmask(gvec) - wvec)
        if dv != 0:
            out["mismatch"].append({"case": str(case) or f"cell{cell}", "what": f"vector entry of row {rowkey} is `{gvec}`, expected `{wvec}`"})
        if len(out["samples"]) < 2:
            out["samples"].append({"cell": str(cell), "row": {str(a): str(b) for a, b in got.items()}, "vector": str(gvec)})
    # ---------------------------------------------------------------- (b) overwrite after accumulate
    seen: dict[tuple, str] = {}
    for ev in mat.log + vec.log:
        kk = (ev["case"], ev["key"])
        if ev["aug"] is None and seen.get(kk) == "+":
            out["overwrites"].append({"case": str(ev["case"]), "key": str(ev["key"]), "line": ev["line"], "func": ev["func"]})
        if ev["aug"] is not None:
            seen[kk] = "+"
    return out


def _symbolic_twin(ix, gcls, n_axes, grid):
    """symbolic-shape grid with the same coordinates (for extracting the stencil table)"""
    g = make_grid_model(ix, gcls, n_axes)
    g._attrs["axes_coords"] = tuple(IdxArr(a.expr, n) for a, n in zip(grid._attrs["axes_coords"], g._attrs["shape"]))
    g._attrs["axes_bounds"] = tuple(
        (sp.sympify(b[0]), sp.sympify(b[0]) + n * h) for b, n, h in zip(grid._attrs["axes_bounds"], g._attrs["shape"], g._attrs["discretization"].items)
    )
    return g


# ----------------------------------------------------------------------------
# (c) residual test before the result is handed out
# ----------------------------------------------------------------------------
IDENTITY_METHODS = {"tocsc", "tocsr", "tocoo", "todia", "tolil", "asformat", "toarray", "todense", "copy", "ravel", "flatten", "reshape", "squeeze", "astype", "asfptype"}
IDENTITY_FUNCS = {"ravel", "asarray", "asanyarray", "array", "ascontiguousarray", "squeeze", "reshape", "csc_matrix", "csr_matrix", "csc_array", "csr_array"}
SOLVERS = {"spsolve", "lsmr", "lsqr", "cg", "gmres", "bicgstab", "minres", "lgmres", "splu", "factorized"}


class _LinEval:
    """values of the Poisson-solver closure as sympy terms over M (matrix), V (vector),
    A (right-hand side array) and one uninterpreted symbol per solver call; format
    conversions and reshapes are the identity, products are (commutative) products --
    enough to decide *which* system a residual test looks at"""

    def __init__(self):
        self.n_solve = 0
        self.solves: dict[str, tuple] = {}

    def ev(self, e: ast.AST, env: dict):
        if isinstance(e, ast.Constant) and isinstance(e.value, (int, float)) and not isinstance(e.value, bool):
            return sp.nsimplify(e.value, rational=True)
        if isinstance(e, ast.Name):
            if e.id in env:
                return env[e.id]
            return sp.Symbol("free_" + e.id)
        if isinstance(e, ast.UnaryOp) and isinstance(e.op, ast.USub):
            return -self.ev(e.operand, env)
        if isinstance(e, ast.BinOp):
            l, r = self.ev(e.left, env), self.ev(e.right, env)
            if isinstance(e.op, ast.Add):
                return l + r
            if isinstance(e.op, ast.Sub):
                return l - r
            if isinstance(e.op, (ast.Mult, ast.MatMult)):
                return l * r
            if isinstance(e.op, ast.Div):
                return l / r
            if isinstance(e.op, ast.Pow):
                return l**r
        if isinstance(e, ast.Subscript):
            base = self.ev(e.value, env)
            # `lsmr(...)[0]` selects the solution; `x[:, 0]` / `x[...]` keep the values
            return base
        if isinstance(e, ast.Call):
            fn = dotted(e.func)
            last = fn.split(".")[-1]
            args = [self.ev(a, env) for a in e.args]
            if isinstance(e.func, ast.Attribute) and last in IDENTITY_METHODS and not fn.startswith(("np.", "numpy.", "sparse.")):
                return self.ev(e.func.value, env)
            if isinstance(e.func, ast.Attribute) and last == "dot" and not fn.startswith(("np.", "numpy.")) and len(args) == 1:
                return self.ev(e.func.value, env) * args[0]
            if last in IDENTITY_FUNCS and args:
                return args[0]
            if last == "dot" and len(args) == 2:
                return args[0] * args[1]
            if last in SOLVERS and len(args) >= 2:
                self.n_solve += 1
                x = sp.Symbol(f"X{self.n_solve}")
                self.solves[str(x)] = (last, args[0], args[1])
                return x
            recv = [self.ev(e.func.value, env)] if isinstance(e.func, ast.Attribute) and not fn.startswith(("np.", "numpy.", "sparse.", "scipy.")) else []
            return sp.Function("f_" + last)(*(recv + args))
        if isinstance(e, ast.Attribute):
            return sp.Function("attr_" + e.attr)(self.ev(e.value, env))
        return sp.Symbol("opaque_" + type(e).__name__ + str(getattr(e, "lineno", "")))


def check_residual_guard(rep: Report, ix):
    from ..cfg_lite import paths_to  # local light-weight path enumeration

    fac = ix.func("pde/backends/scipy/operators/common.py", "make_general_poisson_solver")
    f = ix.func("pde/backends/scipy/operators/common.py", "make_general_poisson_solver.solve_poisson")
    rep.saw("functions", f.ref)
    params = [a.arg for a in fac.node.args.args]
    if params[:2] != ["matrix", "vector"]:
        raise AnalysisError(f"{fac.ref}: expected parameters (matrix, vector, ...), found {params}")
    M, V, A = sp.Symbol("M"), sp.Symbol("V"), sp.Symbol("A")
    lin = _LinEval()
    env0: dict = {"matrix": M, "vector": V}
    for st in fac.node.body:
        if st is f.node:
            break
        if isinstance(st, ast.Assign) and len(st.targets) == 1 and isinstance(st.targets[0], ast.Name):
            env0[st.targets[0].id] = lin.ev(st.value, env0)
    cparams = [a.arg for a in f.node.args.args]
    if cparams[:2] != ["arr", "out"]:
        raise AnalysisError(f"{f.ref}: expected parameters (arr, out), found {cparams}")
    env0["arr"] = A

    def event(st):
        if isinstance(st, ast.Assign) and len(st.targets) == 1 and isinstance(st.targets[0], ast.Name):
            return "assign"
        if isinstance(st, (ast.If, ast.While)):
            return "test"
        return None

    store_nodes = {n.lineno: n for n in ast.walk(f.node) if isinstance(n, ast.stmt) and _stores_into(n, "out")}
    res = paths_to(f.node, lambda st: _stores_into(st, "out"), event=event)
    n_paths = 0
    other_tests: list[str] = []
    for path in res:
        n_paths += 1
        other_tests.clear()
        env = dict(env0)
        tests = list(path.tests)
        checked = []  # (residual term, atol term, source)
        for kind, st in path.events:
            if kind == "assign":
                env[st.targets[0].id] = lin.ev(st.value, env)
            else:
                if not tests:
                    break
                test, pol = tests.pop(0)
                if test is not st.test:
                    raise AnalysisError(f"{f.ref}: path bookkeeping lost track of the branch at line {st.lineno}")
                if not _is_residual_test(test, pol) and not _is_residual_test(test, not pol):
                    try:
                        tv = lin.ev(test.left, env) if isinstance(test, ast.Compare) else lin.ev(test, env)
                    except Exception:  # noqa: BLE001
                        tv = None
                    if tv is not None and isinstance(tv, sp.Basic) and M in tv.free_symbols and any(str(x).startswith("X") for x in tv.free_symbols):
                        other_tests.append(ast.unparse(test)[:80])
                if _is_residual_test(test, pol):
                    t = test
                    while isinstance(t, ast.UnaryOp):
                        t = t.operand
                    if len(t.args) < 2:
                        continue
                    kw = {k.arg: k.value for k in t.keywords}
                    atol = lin.ev(kw["atol"], env) if "atol" in kw else sp.Rational(1, 10**8)
                    rtol = lin.ev(kw["rtol"], env) if "rtol" in kw else sp.Rational(1, 10**5)
                    checked.append((sp.expand(lin.ev(t.args[0], env) - lin.ev(t.args[1], env)), atol, rtol, ast.unparse(t)))
        store = store_nodes[path.target_line]
        stored = sp.expand(lin.ev(store.value, env))
        # (a branch decision that looks at matrix*x in some other form -- norms, relative tests ... -- is an idiom this
        # rule cannot judge: analysis error, not a violation; collected in other_tests above)
        guarded = False
        why = "no residual test `allclose(matrix.dot(x), rhs)` was passed"
        for resid, atol, rtol, src in checked:
            want = sp.expand(M * stored - (A - V))
            if want == 0:
                continue
            ratio = sp.simplify(resid / want)
            if ratio.free_symbols & (stored.free_symbols | {A}):
                why = f"the test `{src}` does not look at the residual matrix*x - (arr - vector) of the value stored into `out` (it compares `{resid}` with 0)"
                continue
            eff_atol = sp.simplify(atol / sp.Abs(ratio)) if ratio != 0 else sp.oo
            if ratio in (1, -1) or eff_atol.is_number:
                guarded = True
                rep.sample({"solve_poisson path": n_paths, "residual test": src, "residual": str(resid), "stored": str(stored), "atol": str(atol), "rtol": str(rtol)})
                if not (atol.is_number and rtol.is_number):
                    guarded = False
                    why = f"the tolerances of `{src}` are not constants (atol={atol}, rtol={rtol}): acceptance depends on the grid / data"
                break
            why = (
                f"the test `{src}` is applied to the system multiplied by `{ratio}`: the absolute tolerance {atol} then corresponds to {eff_atol} for the "
                "discrete problem matrix*x + vector = arr, i.e. it depends on the discretisation, and non-solutions of singular problems are accepted on fine grids"
            )
        ok = guarded
        if not ok and other_tests:
            raise AnalysisError(f"{f.ref}: the path storing `{ast.unparse(store.value)}` is guarded by `{other_tests[0]}`, a residual test in a form this rule cannot judge")
        rep.oblige(f"solve_poisson:path{n_paths}:stored value passed the residual test of the discrete problem", ok, why if not ok else str(stored))
        if not ok:
            rule = "C18.residual-rescaled" if "multiplied by" in why or "tolerances" in why else "C18.unchecked-result"
            rep.violation(
                rule,
                f"{f.ref}::store-out",
                f"a path stores `{ast.unparse(store.value)}` into `out` although {why}; branch decisions: " + " ; ".join(ast.unparse(t)[:60] + f"=={pol}" for t, pol in path.tests),
                line=path.target_line,
            )
    rep.floor("paths that store the Poisson solution", n_paths, 2)
    rep.oblige("solver calls modelled as uninterpreted results", bool(lin.solves), {k: v[0] for k, v in lin.solves.items()})


def _stores_into(st: ast.stmt, name: str) -> bool:
    if isinstance(st, (ast.Assign, ast.AugAssign)):
        targets = st.targets if isinstance(st, ast.Assign) else [st.target]
        for t in targets:
            if isinstance(t, ast.Subscript) and isinstance(t.value, ast.Name) and t.value.id == name:
                return True
    return False


def _is_residual_test(test: ast.expr, polarity: bool) -> bool:
    """`np.allclose(mat.dot(x), rhs...)` taken as True, or `not np.allclose(...)` taken as False"""
    neg = False
    t = test
    while isinstance(t, ast.UnaryOp) and isinstance(t.op, ast.Not):
        neg = not neg
        t = t.operand
    if isinstance(t, ast.Call) and dotted(t.func).split(".")[-1] in ("allclose", "isclose") and t.args:
        # (what the two sides are is decided semantically by the caller)
        return polarity != neg
    return False


# ----------------------------------------------------------------------------
def check(tier: str) -> Report:
    rep = Report("C18", tier, "proof", "abstract interpretation of the sparse-matrix assemblers with row case split; rows compared with the numba stencil after ghost-cell elimination; path rule for the residual test")
    rep.explanation = (
        "Each _get_laplace_matrix* assembler is interpreted from its syntax tree with scipy.sparse.dok_matrix replaced by a recorder; "
        "the row loops are split into first/interior/last rows (symbolic N >= 3) and additionally run with a concrete 2-cell shape. "
        "For every combination of boundary-condition classes per side the recorded row (after all = / += in program order) must equal "
        "the row obtained from the numba Laplace stencil (default options) by eliminating virtual points through "
        "get_virtual_point_data; the vector likewise. Separately the store log is scanned for '=' after '+=' on one entry."
    )
    ix = get_index()
    check_matrix_rows(rep, ix)
    check_residual_guard(rep, ix)
    _check_tail(rep, ix)
    return rep


def check_bc_data_index(rep: Report, ix, rule: str, already_bad: frozenset = frozenset()) -> None:
    """boundary data may differ from face cell to face cell (inhomogeneous values, expressions of the transverse
    coordinates): `get_sparse_matrix_data(idx)` selects the data of the face cell `idx`.  In every assembler each such
    call passes a tuple in which exactly one entry is the virtual index of the boundary (-1 or the extent) and every
    other entry is the loop variable of the enclosing row loop of that axis -- a call hoisted out of a row loop (or fed a
    constant) applies the data of one face cell to every row."""
    n_calls = 0
    for rel, fname, gcls, n_axes in ASSEMBLERS:
        fi = ix.func(rel, fname)
        # loop variables in nesting order with the loops they belong to
        def visit(node, loops):
            nonlocal n_calls
            for ch in ast.iter_child_nodes(node):
                inner = loops
                if isinstance(ch, ast.For) and isinstance(ch.target, ast.Name):
                    inner = loops + [ch.target.id]
                    # the iterable is evaluated outside the loop
                    visit_expr(ch.iter, loops)
                    for b in ch.body + ch.orelse:
                        visit_stmt(b, inner)
                    continue
                visit_stmt(ch, loops) if isinstance(ch, ast.stmt) else visit_expr(ch, loops)

        def visit_stmt(st, loops):
            if isinstance(st, ast.For) and isinstance(st.target, ast.Name):
                visit_expr(st.iter, loops)
                for b in st.body + st.orelse:
                    visit_stmt(b, loops + [st.target.id])
                return
            for ch in ast.iter_child_nodes(st):
                if isinstance(ch, ast.stmt):
                    visit_stmt(ch, loops)
                else:
                    visit_expr(ch, loops)

        def visit_expr(e, loops):
            nonlocal n_calls
            for x in ast.walk(e):
                if isinstance(x, ast.Call) and isinstance(x.func, ast.Attribute) and x.func.attr == "get_sparse_matrix_data":
                    n_calls += 1
                    if len(x.args) != 1 or not isinstance(x.args[0], ast.Tuple):
                        raise AnalysisError(f"{fi.ref}: `{ast.unparse(x)}`: the index is not a literal tuple (idiom outside the rule)")
                    elts = x.args[0].elts
                    loopvars = [e_ for e_ in elts if isinstance(e_, ast.Name) and e_.id in loops]
                    others = [e_ for e_ in elts if not (isinstance(e_, ast.Name) and e_.id in loops)]
                    ok = len(elts) == n_axes and len(others) == 1 and len({v.id for v in loopvars}) == len(loopvars)
                    rep.oblige(f"{fname}@{gcls}:line {x.lineno}: boundary data taken for the face cell of the row", ok, ast.unparse(x))
                    if not ok:
                        rep.violation(
                            rule,
                            f"{rel}::{fname}::{gcls}::bc-data-index::{ast.unparse(x.args[0])}",
                            f"`{ast.unparse(x)}` (enclosing row loops over {loops or 'nothing'}): besides the virtual index of the boundary every entry must be the loop variable of the row being assembled; "
                            f"here {[ast.unparse(o) for o in others]} are not, so the boundary data of one face cell is applied to other rows (wrong for values that vary along the boundary)",
                            line=x.lineno,
                        )

        try:
            for st in fi.node.body:
                visit_stmt(st, [])
        except AnalysisError as e:
            # an assembler whose rows are already in violation may use idioms this finer rule does not know: a note of
            # that violation, not a second verdict
            if (rel, fname) not in already_bad:
                raise
            rep.note(f"bc-data-index skipped for an assembler already in violation: {str(e)[:200]}")
    if not already_bad:
        rep.floor("get_sparse_matrix_data call sites in the assemblers", n_calls, 12)


def check_matrix_rows(rep: Report, ix, rule_mismatch: str = "C18.matrix-vs-stencil", rule_overwrite: str | None = "C18.overwrite-after-accumulate") -> None:
    """matrix rows == numba stencil with ghost cells eliminated (shared with C03's matrix route)"""
    jobs = []
    for rel, fname, gcls, n_axes in ASSEMBLERS:
        ix.func(rel, fname)
        per_axis_choices = []
        for axis in range(n_axes):
            combos = list(SIDE_COMBOS)
            periodic_ok = gcls == "CartesianGrid" or (gcls == "CylindricalSymGrid" and axis == 1)
            if periodic_ok:
                combos.append(("P", "P"))
                combos.append(("A", "A"))
            per_axis_choices.append(combos)
        rows = []
        if n_axes == 1:
            rows = [(c,) for c in per_axis_choices[0]]
        else:
            base = [("N", "N")] * n_axes
            for axis in range(n_axes):
                for c in per_axis_choices[axis]:
                    r = list(base)
                    r[axis] = c
                    rows.append(tuple(r))
            rows.append(tuple(("C", "C") for _ in range(n_axes)))
            rows = list(dict.fromkeys(rows))
        rmins = (False,) if gcls == "CartesianGrid" else (False, True)
        for kinds in rows:
            for rz in rmins:
                jobs.append((rel, fname, gcls, n_axes, kinds, rz, False))
                if n_axes <= 2:
                    jobs.append((rel, fname, gcls, n_axes, kinds, rz, (2,) * n_axes))
                # a single cell along an axis touches both of its boundaries (Cartesian axes and the axial direction of
                # cylinders; a single radial cell is outside the domain of the pinned assemblers)
                if gcls == "CartesianGrid" and n_axes == 1:
                    jobs.append((rel, fname, gcls, n_axes, kinds, rz, (1,)))
                elif gcls == "CartesianGrid" and n_axes == 2:
                    jobs.append((rel, fname, gcls, n_axes, kinds, rz, (1, 2)))
                    jobs.append((rel, fname, gcls, n_axes, kinds, rz, (2, 1)))
                elif gcls == "CylindricalSymGrid":
                    jobs.append((rel, fname, gcls, n_axes, kinds, rz, (2, 1)))
                # thorough tier: concrete three-dimensional shapes as well (every cell of a 2x2x2 box touches three boundaries,
                # a 2x1x2 box has cells touching both sides of the middle axis)
                if os.environ.get("PDELINT_TIER") == "thorough" and gcls == "CartesianGrid" and n_axes == 3:
                    jobs.append((rel, fname, gcls, n_axes, kinds, rz, (2, 2, 2)))
                    jobs.append((rel, fname, gcls, n_axes, kinds, rz, (2, 1, 2)))
    # second-order (curvature) conditions need two support cells: the package raises for them on a single-cell axis
    jobs = [j for j in jobs if not (j[6] and any(c == 1 and "C" in k for c, k in zip(j[6], j[4])))]
    with mp.get_context("fork").Pool(min(16, os.cpu_count() or 1)) as pool:
        results = pool.map(_assemble, jobs, chunksize=1)
    n_rows = 0
    for res in results:
        rel, fname, gcls, n_axes, kinds, rz, concrete = res["job"]
        tag = f"{gcls}/{n_axes}:{'|'.join(a + b for a, b in kinds)}:{'r_min=0' if rz else ('r_min>0' if gcls != 'CartesianGrid' else 'cart')}:{('N=' + 'x'.join(map(str, concrete))) if concrete else 'symbolic-N'}"
        if "error" in res:
            raise AnalysisError(f"{rel}::{fname} [{tag}]: {res['error']}")
        rep.saw("assembler rows", f"{rel}::{fname}:{tag}")
        n_rows += res["rows"]
        ok = not res["mismatch"]
        rep.oblige(f"{fname}@{gcls}:{tag}:matrix==stencil∘bc", ok, res["mismatch"][:3])
        for mm in res["mismatch"][:4]:
            rep.violation(
                rule_mismatch,
                f"{rel}::{fname}::{gcls}::{'|'.join(a + b for a, b in kinds)}::{'r_min=0' if rz else 'r_min>0'}",
                f"[{tag}] row case {mm['case']}: {mm['what']}",
            )
        if rule_overwrite is None:
            continue
        rep.oblige(f"{fname}@{gcls}:{tag}:no-overwrite-after-accumulate", not res["overwrites"], res["overwrites"][:3])
        for ow in res["overwrites"][:2]:
            rep.violation(
                rule_overwrite,
                f"{rel}::{fname}::entry-store",
                f"[{tag}] row case {ow['case']}: matrix entry {ow['key']} is assigned with `=` after boundary contributions were accumulated into it with `+=` (contribution lost)",
                line=ow["line"],
            )
        if len(rep.samples) < 8 and res["samples"]:
            rep.sample({"row": tag, "assembler": f"{rel}::{fname}", "extracted": res["samples"][0]})
    rep.floor("matrix rows compared", n_rows, 500)
    check_bc_data_index(rep, ix, rule_mismatch, frozenset((r["job"][0], r["job"][1]) for r in results if r.get("mismatch")))


def _check_errors_propagate(rep: Report, ix) -> None:
    """"problems without a solution are reported as errors rather than returning a field": the compiled solver raises
    when the residual test fails (check_residual_guard); in solve_poisson_equation no exception handler around the solver
    call may complete normally -- every path through a handler must end in `raise`, otherwise the untouched result field
    is returned as if it were a solution"""
    from ..cfg_lite import all_paths

    f = ix.func("pde/pdes/laplace.py", "solve_poisson_equation")
    rep.saw("functions", f.ref)
    tries = [t for t in ast.walk(f.node) if isinstance(t, ast.Try) and any(isinstance(c, ast.Call) and isinstance(c.func, ast.Name) and c.func.id == "solver" for st in t.body for c in ast.walk(st))]
    if len(tries) != 1:
        # no try at all means every error propagates
        solver_calls = [c for c in ast.walk(f.node) if isinstance(c, ast.Call) and isinstance(c.func, ast.Name) and c.func.id == "solver"]
        if not solver_calls:
            raise AnalysisError(f"{f.ref}: call of the solver routine not found")
        rep.oblige("solve_poisson_equation: solver errors propagate (no handler)", not tries, len(tries))
        if tries:
            raise AnalysisError(f"{f.ref}: several try blocks around the solver call")
        return
    n = 0
    swallowed = []
    for path, oc in all_paths(f.node):
        if not path.in_handler:
            continue
        n += 1
        if oc != "raise":
            swallowed.append((oc, [("" if pol else "not ") + ast.unparse(t)[:50] for t, pol in path.tests]))
    rep.oblige("solve_poisson_equation: every path through an exception handler of the solver call ends in raise", not swallowed, swallowed[:3])
    for oc, tests in swallowed[:2]:
        rep.violation(
            "C18.error-swallowed",
            f"{f.ref}::handler-completes",
            f"a path through the exception handler around the solver call completes normally ({oc}) under {tests or 'no condition'}: the failure reported by the linear solver (residual test) is swallowed and "
            "the untouched result field is returned as the solution of a problem that has none",
            line=tries[0].handlers[0].lineno,
        )
    rep.floor("paths through the exception handlers of solve_poisson_equation", n, 2)


def _check_result_dtype(rep: Report, ix) -> None:
    """the solver stores the solution into the array handed over as `out` (`out[:] = result`): a result field allocated
    with the default (real double) dtype silently drops the imaginary part of the solution of a complex right-hand side --
    the returned field then is not a solution.  Rule: the field whose data is handed to the solver is allocated with the
    dtype of the right-hand side."""
    f = ix.func("pde/pdes/laplace.py", "solve_poisson_equation")
    rep.saw("functions", f.ref)
    rhs = f.node.args.args[0].arg
    # the solver call  solver(<rhs>.data, <result>.data)
    res_name = None
    for x in ast.walk(f.node):
        if isinstance(x, ast.Call) and len(x.args) == 2 and dotted(x.args[0]) == f"{rhs}.data" and isinstance(x.args[1], ast.Attribute) and x.args[1].attr == "data" and isinstance(x.args[1].value, ast.Name):
            res_name = x.args[1].value.id
    if res_name is None:
        raise AnalysisError(f"{f.ref}: the call `solver({rhs}.data, <result>.data)` was not found")
    allocs = [x for x in ast.walk(f.node) if isinstance(x, ast.Assign) and len(x.targets) == 1 and isinstance(x.targets[0], ast.Name) and x.targets[0].id == res_name and isinstance(x.value, ast.Call)]
    if len(allocs) != 1:
        raise AnalysisError(f"{f.ref}: {len(allocs)} allocations of `{res_name}`")
    call = allocs[0].value
    dt = next((kw.value for kw in call.keywords if kw.arg == "dtype"), None)
    ok = dt is not None and ast.unparse(dt) in (f"{rhs}.dtype", f"{rhs}.data.dtype")
    rep.oblige("solve_poisson_equation: the result field has the dtype of the right-hand side", ok, ast.unparse(call))
    if not ok:
        rep.violation(
            "C18.result-dtype",
            f"{f.ref}::{res_name}",
            f"`{ast.unparse(allocs[0])}`: the field the solver writes into is allocated with dtype `{ast.unparse(dt) if dt is not None else 'default (float)'}`; for a complex right-hand side the imaginary part of the "
            "solution is cast away (ComplexWarning only) and the returned field does not solve the discrete problem",
            line=allocs[0].lineno,
        )


def _check_tail(rep: Report, ix) -> None:
    _check_errors_propagate(rep, ix)
    _check_result_dtype(rep, ix)
    # solve_laplace_equation = Poisson with zero right-hand side
    fl = ix.func("pde/pdes/laplace.py", "solve_laplace_equation")
    rep.saw("functions", fl.ref)
    calls = [n for n in ast.walk(fl.node) if isinstance(n, ast.Call) and dotted(n.func).split(".")[-1] == "solve_poisson_equation"]
    ok = bool(calls)
    rep.oblige("solve_laplace_equation delegates to solve_poisson_equation", ok)
    if not ok:
        rep.violation("C18.laplace-delegation", f"{fl.ref}::call", "solve_laplace_equation no longer delegates to solve_poisson_equation")
    rep.assumptions += [
        "flat index of a cell is numpy C-order (np.ravel / .flat are used by the solver)",
        "symbolic rows assume N >= 3 per axis; N = 2 is covered by the concrete runs (1-2 axes)",
        "accuracy of spsolve / lsmr is not decided; the residual test in solve_poisson is what guards it",
        "MixedBC on its finite-coefficient branch",
    ]

"""C07 -- observation does not perturb a simulation; step and time accounting.

Four groups of rules, all on syntax / CFG / reaching definitions (nothing is executed):

(a) ownership   ``Controller.run``: the caller's ``initial_state`` flows only into ``.copy(...)``;
                what is stepped, tracked and returned is that copy.  ``PDEBase.solve`` hands the
                caller's state only to ``Controller.run``.
(b) time flow   ``Controller._run_main_process``: loop guard ``t < t_end - stepper_atol``; the stepper
                is fed ``(state, t, min(next action, t_end))``; ``t`` is only ever ``t_start`` or the
                stepper's return value; ``info['t_final'] = t``; trackers see ``(state, t)``.
(c) steppers    every fixed stepper (python + numba; jax/torch in the thorough tier): ``steps =
                max(1, round((t_end - t_start)/dt))``; ``info['steps'] += steps`` exactly once on every
                path; the loop is ``for i in range(steps)`` at times ``t_start + i*dt`` and cannot be left
                early; the returned time has the closed form ``t_start + steps*dt`` (sympy), hence
                ``|t_final - t_end| <= dt/2`` whenever the range is at least dt/2 (property of round);
                the backends agree because each equals the same closed form.
(d) effects     every ``handle`` of the tracker classes in the package (and what they pass the state
                to inside the package: ``_transform``, ``StorageBase.append/_append_data``,
                ``NapariViewer.update``) neither stores through the state parameter or a view of it,
                nor calls an in-place method on it, nor keeps a reference to a view of it on ``self``.

Rule ids: C07.initial-state-copied, C07.returns-working-state, C07.solve-passes-state-only-to-run,
C07.loop-guard, C07.stepper-target-clamped, C07.stepper-state, C07.time-only-from-stepper,
C07.t-final-reported, C07.tracker-sees-current, C07.steps-formula, C07.steps-accounted,
C07.step-loop, C07.return-time, C07.tracker-writes-state, C07.tracker-captures-state.
"""

from __future__ import annotations

import ast
from fractions import Fraction

from ..absdom import compare_form, const_number, linform, to_sympy
from ..cfg import CFG, Node, build_cfg, def_value, dotted_name, resolve_expr, walk_shallow
from ..core import AnalysisError, Report
from ..index import ClassInfo, FuncInfo, dotted, get_index

CTRL = "pde/solvers/controller.py"
PDES = "pde/pdes/base.py"
TRK = "pde/trackers/base.py"

PURE_BUILTINS = {"isinstance", "len", "str", "repr", "type", "id", "hasattr", "callable", "print", "float", "int", "bool", "format", "abs", "min", "max", "sum", "round"}
LOGGER_ROOTS = ("_logger", "self._logger", "logging", "logger", "warnings")


# ---------------------------------------------------------------------------- helpers
def params(fn: ast.FunctionDef) -> list[str]:
    return [a.arg for a in fn.args.posonlyargs + fn.args.args]


def is_name(e, name: str) -> bool:
    return isinstance(e, ast.Name) and e.id == name


def returns(g: CFG) -> list[Node]:
    return [n for n in g.nodes if n.kind == "return" and g.is_reachable(n)]


def call_arg(c: ast.Call, pos: int, kw: str | None) -> ast.AST | None:
    for k in c.keywords:
        if kw is not None and k.arg == kw:
            return k.value
    if len(c.args) > pos and not any(isinstance(a, ast.Starred) for a in c.args[: pos + 1]):
        return c.args[pos]
    return None


def parent_map(root: ast.AST) -> dict[int, ast.AST]:
    pm: dict[int, ast.AST] = {}
    for p in ast.walk(root):
        for c in ast.iter_child_nodes(p):
            pm[id(c)] = p
    return pm


def single_def(g: CFG, at: Node, name: str) -> tuple[Node, tuple] | None:
    ds = g.defs_reaching(at, name)
    if len(ds) != 1:
        return None
    (d,) = ds
    return d, def_value(d, name)


def is_logger_call(c: ast.Call) -> bool:
    fn = dotted(c.func)
    return any(fn == r or fn.startswith(r + ".") for r in LOGGER_ROOTS)


# ---------------------------------------------------------------------------- (a) ownership
def owner_uses(g: CFG, fn: ast.FunctionDef, P: str, allowed_call=None) -> tuple[list[str], list[tuple[Node, ast.Call]], int]:
    """classify every use of the caller's object named P (uses reached by the parameter
    definition).  returns (violations, copy-calls, number of uses)"""
    pm = parent_map(fn)
    bad: list[str] = []
    copies: list[tuple[Node, ast.Call]] = []
    n_uses = 0
    for n in g.nodes:
        if not g.is_reachable(n):
            continue
        for x in n.walk():
            if not (isinstance(x, ast.Name) and x.id == P and isinstance(x.ctx, ast.Load)):
                continue
            if g.entry not in g.defs_reaching(n, P):
                continue  # the name was re-bound: no longer the caller's object here
            n_uses += 1
            p = pm.get(id(x))
            gp = pm.get(id(p)) if p is not None else None
            if isinstance(p, ast.Attribute) and p.value is x:
                if isinstance(gp, ast.Call) and gp.func is p:
                    if p.attr == "copy":
                        copies.append((n, gp))
                    else:
                        bad.append(f"method call `{ast.unparse(gp)}` on the caller's object")
                elif isinstance(p.ctx, ast.Load):
                    pass  # attribute read
                else:
                    bad.append(f"attribute store `{ast.unparse(p)}` on the caller's object")
                continue
            if isinstance(p, ast.Call) and (x in p.args or any(k.value is x for k in p.keywords)):
                fnm = dotted(p.func)
                if fnm in PURE_BUILTINS or is_logger_call(p) or (allowed_call is not None and allowed_call(n, p, x)):
                    continue
                bad.append(f"passed to `{ast.unparse(p)}`")
                continue
            if isinstance(p, ast.keyword) and isinstance(gp, ast.Call):
                fnm = dotted(gp.func)
                if fnm in PURE_BUILTINS or is_logger_call(gp) or (allowed_call is not None and allowed_call(n, gp, x)):
                    continue
                bad.append(f"passed to `{ast.unparse(gp)}`")
                continue
            if isinstance(p, (ast.Compare, ast.BoolOp, ast.UnaryOp, ast.If, ast.IfExp, ast.While, ast.FormattedValue, ast.JoinedStr)) and not (isinstance(p, ast.IfExp) and x is not p.test):
                continue  # truth tests, identity comparisons, f-strings
            bad.append(f"used as `{ast.unparse(p) if p is not None else P}` ({type(p).__name__})")
    return bad, copies, n_uses


def check_ownership(rep: Report, ix) -> None:
    f = ix.func(CTRL, "Controller.run")
    ref = f.ref
    rep.saw("functions", ref)
    g = build_cfg(f.node)
    ps = params(f.node)
    if len(ps) < 2:
        raise AnalysisError(f"{ref}: signature (self, initial_state, dt) expected")
    P = ps[1]
    bad, copies, n_uses = owner_uses(g, f.node, P)
    rep.floor(f"{ref}: uses of the caller's `{P}`", n_uses, 1)
    rep.floor(f"{ref}: `{P}.copy(...)` sites", len(copies), 1)
    rep.sample({"construct": ref, "owner parameter": P, "uses": n_uses, "copy sites": [ast.unparse(c) for _, c in copies], "other uses": bad})
    if not rep.oblige("run/initial-state-only-copied", not bad, bad):
        rep.violation("C07.initial-state-copied", f"{ref}::{P}", f"the caller's `{P}` must flow only into `.copy(...)`: {bad}", line=f.node.lineno)

    # what is handed to the runners is a copy on every path
    copy_nodes = {id(c) for _, c in copies}
    runs = [(n, c) for n in g.nodes if g.is_reachable(n) for c in n.calls() if dotted(c.func) in ("self._run_serial", "self._run_parallel", "self._run_main_process")]
    rep.floor(f"{ref}: calls of the runners", len(runs), 1)
    for k, (n, c) in enumerate(runs):
        a0 = call_arg(c, 0, "state")
        ok = False
        shown = ast.unparse(c)
        if isinstance(a0, ast.Name):
            ds = g.defs_reaching(n, a0.id)
            vals = [def_value(d, a0.id) for d in ds]
            ok = bool(vals) and all(v[0] == "expr" and id(v[1]) in copy_nodes for v in vals)
        elif isinstance(a0, ast.Call):
            ok = id(a0) in copy_nodes
        if not rep.oblige(f"run/runner-gets-copy#{k}", ok, shown):
            rep.violation("C07.initial-state-copied", f"{ref}::runner-argument", f"`{shown}`: the state handed to the runner is not `{P}.copy(...)` on every path", line=n.lineno)
    for k, r in enumerate(returns(g)):
        v = r.ast.value
        ok = isinstance(v, ast.Call) and any(v is c for _, c in runs)
        if not ok and isinstance(v, ast.Name):
            ds = g.defs_reaching(r, v.id)
            ok = bool(ds) and all(def_value(d, v.id)[0] == "expr" and any(def_value(d, v.id)[1] is c for _, c in runs) for d in ds)
        if not rep.oblige(f"run/returns-runner-result#{k}", ok, ast.unparse(r.ast)):
            rep.violation("C07.returns-working-state", f"{ref}::return", f"`{ast.unparse(r.ast)}` does not return what the runner returns", line=r.lineno)

    for qn in ("Controller._run_serial", "Controller._run_parallel"):
        fr = ix.func(CTRL, qn)
        rep.saw("functions", fr.ref)
        gr = build_cfg(fr.node)
        S = params(fr.node)[1]
        mains = [(n, c) for n in gr.nodes if gr.is_reachable(n) for c in n.calls() if dotted(c.func) in ("self._run_main_process", "self._run_client_process")]
        rep.floor(f"{fr.ref}: process calls", len(mains), 1)
        ok_calls = all(is_name(call_arg(c, 0, "state"), S) and gr.defs_reaching(n, S) == frozenset([gr.entry]) for n, c in mains)
        ok_rets = True
        n_state = 0
        for r in returns(gr):
            v = r.ast.value
            if is_name(v, S) and gr.defs_reaching(r, S) == frozenset([gr.entry]):
                n_state += 1
            elif not (v is None or (isinstance(v, ast.Constant) and v.value is None)):
                ok_rets = False
        if not rep.oblige(f"{qn}/returns-working-state", ok_calls and ok_rets and n_state >= 1, {"calls": ok_calls, "returns": ok_rets, "state returns": n_state}):
            rep.violation("C07.returns-working-state", f"{fr.ref}::state", f"{qn} must run the process on its `{S}` parameter and return that object (or None on client nodes)", line=fr.node.lineno)

    # PDEBase.solve: the caller's state goes to Controller.run only
    fs = ix.func(PDES, "PDEBase.solve")
    rep.saw("functions", fs.ref)
    gs = build_cfg(fs.node)
    S = params(fs.node)[1]
    ctrl_vars = set()
    for n in gs.nodes:
        a = n.ast
        if n.kind == "stmt" and isinstance(a, ast.Assign) and isinstance(a.value, ast.Call) and len(a.targets) == 1 and isinstance(a.targets[0], ast.Name):
            tgt = ix.resolve_name(fs.module, dotted(a.value.func))
            if dotted(a.value.func) == "Controller" or (isinstance(tgt, ClassInfo) and tgt.name == "Controller"):
                ctrl_vars.add(a.targets[0].id)
    if not ctrl_vars:
        raise AnalysisError(f"{fs.ref}: no Controller(...) object found")
    run_calls: list[ast.Call] = []

    def allowed(n: Node, c: ast.Call, x: ast.AST) -> bool:
        if isinstance(c.func, ast.Attribute) and c.func.attr == "run" and isinstance(c.func.value, ast.Name) and c.func.value.id in ctrl_vars and call_arg(c, 0, "initial_state") is x:
            run_calls.append(c)
            return True
        return False

    bad, copies, n_uses = owner_uses(gs, fs.node, S, allowed)
    rep.floor(f"{fs.ref}: controller.run({S}, ...) calls", len(run_calls), 1)
    rep.sample({"construct": fs.ref, "owner parameter": S, "uses": n_uses, "other uses": bad})
    if not rep.oblige("solve/state-only-to-run", not bad, bad):
        rep.violation("C07.solve-passes-state-only-to-run", f"{fs.ref}::{S}", f"the caller's `{S}` must only be handed to Controller.run (which copies it): {bad}", line=fs.node.lineno)


# ---------------------------------------------------------------------------- (b) time flow in the main loop
def check_time_flow(rep: Report, ix) -> None:
    f = ix.func(CTRL, "Controller._run_main_process")
    ref = f.ref
    rep.saw("functions", ref)
    g = build_cfg(f.node)
    P_STATE = params(f.node)[1]

    step_vars = {n.ast.targets[0].id for n in g.nodes if n.kind == "stmt" and isinstance(n.ast, ast.Assign) and isinstance(n.ast.value, ast.Call) and dotted(n.ast.value.func).endswith(".make_stepper") and len(n.ast.targets) == 1 and isinstance(n.ast.targets[0], ast.Name)}
    if len(step_vars) != 1:
        raise AnalysisError(f"{ref}: expected one variable bound to make_stepper(...), found {sorted(step_vars)}")
    (STEP,) = step_vars
    steps = [(n, c) for n in g.nodes if g.is_reachable(n) for c in n.calls() if is_name(c.func, STEP)]
    rep.floor(f"{ref}: stepper calls", len(steps), 1)

    def t_range_item(at: Node, e: ast.AST, idx: int) -> bool:
        if not isinstance(e, ast.Name):
            return False
        sd = single_def(g, at, e.id)
        if sd is None:
            return False
        _, v = sd
        if v[0] == "unpack":
            return dotted_name(v[1]) == "self.t_range" and v[2] == idx
        if v[0] == "expr":
            x = v[1]
            return isinstance(x, ast.Subscript) and dotted_name(x.value) == "self.t_range" and const_number(x.slice) == idx
        return False

    def is_handle_call(e) -> bool:
        return isinstance(e, ast.Call) and isinstance(e.func, ast.Attribute) and e.func.attr == "handle" and dotted(e.func.value) in ("self.trackers",)

    # the time variable: target of `t = stepper(...)`
    tvars = set()
    for n, c in steps:
        a = n.ast
        if n.kind == "stmt" and isinstance(a, ast.Assign) and a.value is c and len(a.targets) == 1 and isinstance(a.targets[0], ast.Name):
            tvars.add(a.targets[0].id)
        else:
            if not rep.oblige(f"main/stepper-result-kept@{len(tvars)}", False, ast.unparse(n.ast)):
                rep.violation("C07.time-only-from-stepper", f"{ref}::stepper-call", f"`{ast.unparse(n.ast)}`: the time returned by the stepper is not assigned to the loop time", line=n.lineno)
    if len(tvars) != 1:
        if tvars:
            raise AnalysisError(f"{ref}: stepper results assigned to several variables {sorted(tvars)}")
        return
    (TV,) = tvars

    # every definition of the loop time
    for k, n in enumerate(d for d in g.all_defs(TV) if g.is_reachable(d)):
        v = def_value(n, TV)
        ok = False
        if v[0] == "expr":
            e = v[1]
            ok = (isinstance(e, ast.Call) and is_name(e.func, STEP)) or t_range_item(n, e, 0)
        rep.sample({"construct": ref, "definition of the loop time": ast.unparse(n.ast), "accepted": ok})
        if not rep.oblige(f"main/time-only-from-stepper#{k}", ok, ast.unparse(n.ast)):
            rep.violation("C07.time-only-from-stepper", f"{ref}::{TV}", f"`{ast.unparse(n.ast)}`: the loop time may only be t_start or the value returned by the stepper", line=n.lineno)

    # stepper arguments
    t_end_names = set()
    for k, (n, c) in enumerate(steps):
        a0, a1, a2 = call_arg(c, 0, "state"), call_arg(c, 1, "t_start"), call_arg(c, 2, "t_end")
        st_ok = a0 is not None and is_name(a0, P_STATE) and g.defs_reaching(n, P_STATE) == frozenset([g.entry]) and a1 is not None and is_name(a1, TV)
        if not rep.oblige(f"main/stepper-state#{k}", st_ok, ast.unparse(c)):
            rep.violation("C07.stepper-state", f"{ref}::stepper-call", f"`{ast.unparse(c)}`: the stepper must advance the working state `{P_STATE}` from the loop time `{TV}`", line=n.lineno)
        clamp = False
        shown = ast.unparse(a2) if a2 is not None else None
        e, at = a2, n
        for _ in range(3):  # follow plain copies
            if isinstance(e, ast.Name):
                sd = single_def(g, at, e.id)
                if sd is None or sd[1][0] != "expr":
                    break
                at, e = sd[0], sd[1][1]
                shown = ast.unparse(e)
                if isinstance(e, ast.Call):
                    break
            else:
                break
        if isinstance(e, ast.Call) and dotted(e.func) == "min" and len(e.args) == 2 and not e.keywords:
            for x, y in ((e.args[0], e.args[1]), (e.args[1], e.args[0])):
                if t_range_item(at, y, 1):
                    src = x
                    if isinstance(x, ast.Name):
                        sd = single_def(g, at, x.id)
                        src = sd[1][1] if sd is not None and sd[1][0] == "expr" else None
                    if src is not None and is_handle_call(resolve_expr(g, at, src) if not isinstance(src, ast.Call) else src):
                        clamp = True
                        t_end_names.add(y.id)
        rep.sample({"construct": ref, "stepper target": shown, "is min(next action, t_end)": clamp})
        if not rep.oblige(f"main/stepper-target-clamped#{k}", clamp, shown):
            rep.violation("C07.stepper-target-clamped", f"{ref}::stepper-call", f"the stepper is asked to advance to `{shown}`, expected min(<result of self.trackers.handle>, t_end)", line=n.lineno)

    # loop guard
    W = None
    for h in g.nodes:
        if h.kind == "while" and steps[0][0] in g.loop_nodes(h):
            if W is None or len(g.loop_nodes(h)) < len(g.loop_nodes(W)):
                W = h
    if W is None:
        raise AnalysisError(f"{ref}: the stepper is not called in a while loop")
    cf = compare_form(resolve_expr(g, W, W.ast.test, stop=[TV]))
    ok = False
    tol = None
    if cf is not None:
        d, op = cf
        if op in (">", ">="):
            d, op = {k: -v for k, v in d.items()}, {">": "<", ">=": "<="}[op]
        ends = [k for k in d if k != TV and t_range_item(W, ast.Name(id=k, ctx=ast.Load()), 1)] if all("." not in k for k in d) else []
        if op == "<" and TV in d and d[TV] > 0 and len(ends) == 1 and d[ends[0]] == -d[TV] and len(d) == 3:
            (tol,) = [k for k in d if k not in (TV, ends[0])]
            if d[tol] == d[TV] and tol != "1":
                pos = True
                for dn in g.all_defs(tol):
                    v = def_value(dn, tol)
                    c = const_number(v[1]) if v[0] == "expr" else None
                    lf = linform(v[1]) if v[0] == "expr" else None
                    pos = pos and ((c is not None and c > 0) or (lf is not None and len(lf) == 1 and "1" not in lf and all(x > 0 for x in lf.values())))
                ok = pos
    rep.sample({"construct": ref, "loop guard": ast.unparse(W.ast.test), "tolerance variable": tol})
    if not rep.oblige("main/loop-guard", ok, ast.unparse(W.ast.test)):
        rep.violation("C07.loop-guard", f"{ref}::main-loop", f"loop guard `{ast.unparse(W.ast.test)}` is not `{TV} < t_end - <positive tolerance>` (strict): round-off in the last step would add or drop a whole step", line=W.lineno)

    # t_final and what the trackers see
    finals = []
    for n in g.nodes:
        a = n.ast
        if n.kind == "stmt" and isinstance(a, ast.Assign) and g.is_reachable(n):
            for t in a.targets:
                if isinstance(t, ast.Subscript) and isinstance(t.slice, ast.Constant) and t.slice.value == "t_final" and dotted(t.value) == "self.info":
                    finals.append(n)
    rep.floor(f"{ref}: stores to info['t_final']", len(finals), 1)
    for k, n in enumerate(finals):
        ok = is_name(n.ast.value, TV)
        if not rep.oblige(f"main/t-final-reported#{k}", ok, ast.unparse(n.ast)):
            rep.violation("C07.t-final-reported", f"{ref}::t_final", f"`{ast.unparse(n.ast)}`: t_final must be the loop time `{TV}` (the time the stepper actually reached)", line=n.lineno)
    handles = [(n, c) for n in g.nodes if g.is_reachable(n) for c in n.calls() if isinstance(c.func, ast.Attribute) and c.func.attr == "handle" and dotted(resolve_expr(g, n, c.func.value)) == "self.trackers"]
    rep.floor(f"{ref}: trackers.handle calls", len(handles), 2)
    for k, (n, c) in enumerate(handles):
        a0, a1 = call_arg(c, 0, "state"), call_arg(c, 1, "t")
        ok = a0 is not None and is_name(a0, P_STATE) and g.defs_reaching(n, P_STATE) == frozenset([g.entry]) and a1 is not None and is_name(a1, TV)
        if not rep.oblige(f"main/tracker-sees-current#{k}", ok, ast.unparse(c)):
            rep.violation("C07.tracker-sees-current", f"{ref}::handle-call", f"`{ast.unparse(c)}`: trackers must be shown the working state `{P_STATE}` together with the loop time `{TV}`", line=n.lineno)


# ---------------------------------------------------------------------------- (c) fixed steppers
FIXED_STEPPERS = [
    # (file, qualname, backend label, tier, has python-level step loop)
    ("pde/solvers/base.py", "SolverBase._make_inner_stepper.fixed_stepper", "numpy/euler-like", "quick", True),
    ("pde/solvers/adams_bashforth.py", "AdamsBashforthSolver._make_inner_stepper.fixed_stepper", "numpy/adams-bashforth", "quick", True),
    ("pde/backends/numba/_solvers.py", "_make_fixed_stepper.fixed_stepper", "numba/euler-like", "quick", True),
    ("pde/backends/numba/_solvers.py", "_make_adams_bashforth_stepper.fixed_stepper", "numba/adams-bashforth", "quick", True),
    ("pde/backends/jax/_solvers.py", "_make_fixed_stepper.fixed_stepper", "jax/euler-like", "thorough", True),
    ("pde/backends/jax/_solvers.py", "_make_adams_bashforth_stepper.fixed_stepper", "jax/adams-bashforth", "thorough", True),
    # torch: the loop lives in the torch module FixedSolver.forward (tensor code, not analysed)
    ("pde/backends/torch/_solvers.py", "_make_fixed_stepper.fixed_stepper", "torch/euler-like", "thorough", False),
]


def _is_info_item(e, key: str) -> bool:
    return isinstance(e, ast.Subscript) and isinstance(e.slice, ast.Constant) and e.slice.value == key and isinstance(e.value, ast.Attribute) and e.value.attr == "info"


class StepperView:
    """one closure (fixed_stepper or the compiled loop it calls) with its factory prelude"""

    def __init__(self, fi: FuncInfo):
        import sympy as sp

        self.sp = sp
        self.fi = fi
        self.g = build_cfg(fi.node)
        self.ps = params(fi.node)
        self.locals = set().union(*(self.g.defs_at(n) for n in self.g.nodes))
        self.DT = sp.Symbol("dt", positive=True)
        self.stop: set[str] = set()  # names kept symbolic (the step count)

    def res(self, at: Node, e: ast.AST) -> ast.AST:
        return resolve_expr(self.g, at, e, stop=self.stop)

    def factory_values(self, name: str) -> list[ast.AST]:
        """what a free variable of the closure is bound to in the enclosing factory"""
        out: list[ast.AST] = []
        p = self.fi.parent
        while p is not None and not out:
            for x in walk_shallow(p.node):
                if isinstance(x, ast.Assign) and any(is_name(t, name) for t in x.targets):
                    out.append(x.value)
                elif isinstance(x, ast.AnnAssign) and is_name(x.target, name) and x.value is not None:
                    out.append(x.value)
            for fn in p.nested():
                if fn.node.name == name:
                    out.append(fn.node)
            p = p.parent
        return out

    def _is_dt_expr(self, x) -> bool:
        if _is_info_item(x, "dt"):
            return True
        return isinstance(x, ast.Call) and dotted(x.func) == "float" and len(x.args) == 1 and _is_info_item(x.args[0], "dt")

    def atom(self, x):
        if self._is_dt_expr(x):
            return self.DT
        if isinstance(x, ast.Name) and x.id not in self.locals:
            vals = self.factory_values(x.id)
            if vals and all(not isinstance(v, ast.FunctionDef) and self._is_dt_expr(v) for v in vals):
                return self.DT
        return None

    def sym(self, e: ast.AST):
        return to_sympy(e, self.atom)

    def role_of_call(self, c: ast.Call) -> str | None:
        """'hook' / 'single-step' for calls of closure variables created by the factory"""
        if not isinstance(c.func, ast.Name) or c.func.id in self.locals:
            return None
        seen = set()
        work = list(self.factory_values(c.func.id))
        while work:
            v = work.pop()
            if id(v) in seen:
                continue
            seen.add(id(v))
            if isinstance(v, ast.FunctionDef):
                if "single_step" in v.name:
                    return "single-step"
                continue
            for x in ast.walk(v):
                if isinstance(x, ast.Call):
                    fn = dotted(x.func)
                    if fn.endswith("_make_post_step_hook"):
                        return "hook"
                    if fn.endswith("_make_single_step_fixed_dt"):
                        return "single-step"
        return None

    def _callee_form(self, d: Node, call: ast.Call, idx: int | None, ix, depth: int):
        """closed form of (element ``idx`` of) what a sibling closure returns, expressed in
        the caller's terms"""
        sp = self.sp
        cal = [x for x in self.factory_values(call.func.id) if isinstance(x, ast.FunctionDef)]
        if len(cal) != 1:
            raise AnalysisError(f"{self.fi.ref}: cannot resolve the callee `{call.func.id}`")
        cfi = next(f for f in self.fi.module.functions.values() if f.node is cal[0])
        cv = StepperView(cfi)
        forms = set()
        for rr in returns(cv.g):
            rv = rr.ast.value
            if idx is not None:
                if not (isinstance(rv, ast.Tuple) and len(rv.elts) > idx):
                    raise AnalysisError(f"{cfi.ref}: return value is not a tuple with element {idx}")
                rv = rv.elts[idx]
            cf = cv.closed_form(rr, rv, ix, depth + 1)
            sub = {}
            for i, pn in enumerate(cv.ps):
                a = call.args[i] if i < len(call.args) else next((k.value for k in call.keywords if k.arg == pn), None)
                if a is None:
                    continue
                try:
                    sub[sp.Symbol(pn, real=True)] = self.sym(self.res(d, a))
                except ValueError:
                    pass
            forms.add(sp.simplify(cf.subs(sub, simultaneous=True)))
        if len(forms) != 1:
            raise AnalysisError(f"{cfi.ref}: {len(forms)} different closed forms of the returned time")
        return forms.pop()

    def closed_form(self, at: Node, e: ast.AST, ix, depth: int = 0):
        """sympy closed form of an expression evaluated at node ``at``: local temporaries are
        resolved, a loop variable read after its ``for i in range(N)`` loop is N-1, a value
        (unpacked) from a call of a sibling closure is that closure's closed form"""
        sp = self.sp
        g = self.g
        e = self.res(at, e)
        try:
            s = self.sym(e)
        except ValueError as ex:
            raise AnalysisError(f"{self.fi.ref}: {ex}") from ex
        for x in ast.walk(e):
            if not isinstance(x, ast.Name):
                continue
            ds = g.defs_reaching(at, x.id)
            if len(ds) != 1:
                continue
            (d,) = ds
            if d.kind == "for" and at not in g.loop_nodes(d):
                it = self.res(d, d.ast.iter)
                if not (isinstance(it, ast.Call) and dotted(it.func) == "range" and len(it.args) == 1 and is_name(d.ast.target, x.id)):
                    raise AnalysisError(f"{self.fi.ref}: loop `{d.text}` is not `for i in range(N)`")
                s = s.subs(sp.Symbol(x.id, real=True), self.sym(it.args[0]) - 1)
                continue
            v = def_value(d, x.id)
            if v[0] in ("unpack", "expr") and depth < 2:
                call, idx = (v[1], v[2]) if v[0] == "unpack" else (v[1], None)
                if (
                    isinstance(call, ast.Call)
                    and isinstance(call.func, ast.Name)
                    and call.func.id not in self.locals
                    and x.id not in self.stop
                    and any(isinstance(y, ast.FunctionDef) for y in self.factory_values(call.func.id))
                ):
                    s = s.subs(sp.Symbol(x.id, real=True), self._callee_form(d, call, idx, ix, depth))
        return s


def check_step_loop(rep: Report, view: StepperView, steps_name: str, t0_name: str, label: str, root_ref: str) -> None:
    """`for i in range(steps)`: runs on every path, cannot be left early, works at t0 + i*dt"""
    sp = view.sp
    g = view.g
    ref = view.fi.ref
    loops = []
    for h in g.nodes:
        if h.kind == "for" and g.is_reachable(h):
            it = view.res(h, h.ast.iter)
            if isinstance(it, ast.Call) and dotted(it.func) == "range" and len(it.args) == 1 and is_name(it.args[0], steps_name) and isinstance(h.ast.target, ast.Name):
                loops.append(h)
    if not rep.oblige(f"{label}/step-loop-present", len(loops) == 1, len(loops)):
        rep.violation("C07.step-loop", f"{root_ref}::step-loop", f"{ref}: expected exactly one `for i in range({steps_name})` loop, found {len(loops)}", line=view.fi.node.lineno)
        return
    L = loops[0]
    I = L.ast.target.id
    body = g.loop_nodes(L)
    inside = g.reachable(L.succs("true"), avoid=[L], include_srcs=True)
    leaves = sorted({x.kind for x in inside if x not in body})
    always = g.can_reach_exit(g.entry) and g.post_dominates(L, g.entry) and not any(L in g.loop_nodes(h) for h in g.nodes if h.kind in ("for", "while") and h is not L)
    back = [(s, L) for s, _ in g.back_edges(L)]
    hooks: set[int] = set()
    singles: set[int] = set()
    n_single_sites = 0
    t_ok = True
    t_shown = []
    for s in L.succs("true"):
        hooks |= g.path_counts(s, lambda n: any(view.role_of_call(c) == "hook" for c in n.calls()), stop_edges=back)
        singles |= g.path_counts(s, lambda n: any(view.role_of_call(c) == "single-step" for c in n.calls()), stop_edges=back)
    for n in body:
        for c in n.calls():
            role = view.role_of_call(c)
            if role == "single-step":
                n_single_sites += 1
            if role in ("hook", "single-step") and len(c.args) >= 2:
                try:
                    tv = sp.simplify(view.sym(view.res(n, c.args[1])) - (sp.Symbol(t0_name, real=True) + sp.Symbol(I, real=True) * view.DT))
                except ValueError:
                    tv = None
                t_shown.append(f"{role}: {ast.unparse(c.args[1])} - ({t0_name} + {I}*dt) = {tv}")
                t_ok = t_ok and tv == 0
    ok = not leaves and always and hooks == {1} and (n_single_sites == 0 or singles == {1}) and t_ok
    detail = {"loop": L.text, "can be left early through": leaves, "on every path": always, "post-step hook per iteration": sorted(hooks), "single step per iteration": sorted(singles) if n_single_sites else "inlined", "times": t_shown}
    rep.sample({"construct": ref, "step loop": detail})
    if not rep.oblige(f"{label}/step-loop", ok, detail):
        rep.violation("C07.step-loop", f"{root_ref}::step-loop", f"{ref}: the step loop must run `{steps_name}` times without early exit, applying the step and the post-step hook exactly once per iteration at {t0_name} + {I}*dt: {detail}", line=L.lineno)


def skeleton_witness(fi) -> str | None:
    """interpret the interpreted fixed stepper (pdelint/npsem.py) on exact rational times with recording stand-ins for the
    single step and the post-step hook; returns a description of the first (t_start, t_end, dt) for which the number of
    steps, their times, the returned time or the accounting differ from the documented ones, else None"""
    from fractions import Fraction

    import numpy as _np
    import sympy as _sp

    from .. import npsem as ns

    dt = _sp.Rational(1, 10)
    ratios = [Fraction(3, 10), Fraction(1, 2), Fraction(7, 10), Fraction(1), Fraction(6, 5), Fraction(3, 2), Fraction(23, 10), Fraction(5, 2), Fraction(27, 10), Fraction(3), Fraction(37, 10), Fraction(8)]
    for t0 in (_sp.Integer(0), _sp.Rational(1, 3)):
        for r in ratios:
            t1 = t0 + _sp.Rational(r.numerator, r.denominator) * dt
            want_steps = max(1, round(r))
            calls: list = []
            info = {"steps": 0, "post_step_data": None}

            def single_step(state, t, _calls=calls):
                _calls.append(t)
                return state

            scope = ns.Scope(
                {
                    "np": ns.NP,
                    "single_step": single_step,
                    "post_step_hook": lambda state, t, data=None, **kw: (state, data),
                    "dt": dt,
                    "self": ns.Stub("solver", info=info, _logger=ns.Opaque("logger")),
                    "solver": ns.Stub("solver", info=info),
                }
            )
            sem = ns.NpSem(where=fi.ref)
            state = ns.sym_array("u", (2,))
            try:
                ret = sem.run_function(fi.node, {}, (state, t0, t1), outer=scope)
            except ns.Raised as e:
                return f"t_start={t0}, t_end={t1}, dt={dt}: the stepper raises `{e.what}`"
            except ns.Unsupported as e:
                raise AnalysisError(f"{fi.ref}: control skeleton outside the interpreter's grammar: {e}") from e
            where = f"t_start={t0}, t_end={t1}, dt={dt} ((t_end - t_start)/dt = {r})"
            if len(calls) != want_steps:
                return f"{where}: {len(calls)} steps are performed, documented max(1, round(.)) = {want_steps} (a scheduled time is then reached up to a whole step late/early instead of within dt/2)"
            bad_t = [(i, t) for i, t in enumerate(calls) if _sp.simplify(t - (t0 + i * dt)) != 0]
            if bad_t:
                return f"{where}: step {bad_t[0][0]} is evaluated at t={bad_t[0][1]} instead of t_start + i*dt"
            if ret is None or _sp.simplify(_sp.sympify(ret) - (t0 + want_steps * dt)) != 0:
                return f"{where}: the stepper returns t={ret}, the time actually reached is t_start + steps*dt = {t0 + want_steps * dt}"
            if info["steps"] != want_steps:
                return f"{where}: info['steps'] grows by {info['steps']} although {want_steps} steps were performed"
    return None


def check_fixed_steppers(rep: Report, ix, tier: str) -> None:
    import sympy as sp

    known = {(rel, qn) for rel, qn, *_ in FIXED_STEPPERS}
    found = {(f.module.rel, f.qualname) for f in ix.all_functions() if f.node.name == "fixed_stepper" and f.parent is not None}
    new = found - known
    if new:
        raise AnalysisError(f"fixed steppers without a rule: {sorted(new)}")
    summaries = {}
    n_done = 0
    for rel, qn, label, need, has_loop in FIXED_STEPPERS:
        if need == "thorough" and tier != "thorough":
            continue
        fi = ix.func(rel, qn)
        ref = fi.ref
        rep.saw("functions", ref)
        n_find = len(rep.findings)
        try:
            view = StepperView(fi)
            g = view.g
            if len(view.ps) != 3:
                raise AnalysisError(f"{ref}: signature (state_data, t_start, t_end) expected")
            _, T0, T1 = view.ps
            s0, s1 = sp.Symbol(T0, real=True), sp.Symbol(T1, real=True)

            # ---- accounting --------------------------------------------------------------------
            acc = [n for n in g.nodes if g.is_reachable(n) and n.kind == "stmt" and isinstance(n.ast, ast.AugAssign) and isinstance(n.ast.op, ast.Add) and _is_info_item(n.ast.target, "steps")]
            cnt = g.path_counts(g.entry, lambda n: n in acc, stop_nodes=[g.exit])
            names = {n.ast.value.id if isinstance(n.ast.value, ast.Name) else None for n in acc}
            acc_ok = bool(acc) and cnt == {1} and len(names) == 1 and None not in names
            if not rep.oblige(f"{label}/steps-accounted", acc_ok, {"sites": [ast.unparse(n.ast) for n in acc], "per call": sorted(cnt)}):
                rep.violation("C07.steps-accounted", f"{ref}::info-steps", f"info['steps'] must be increased by the number of steps exactly once on every path (sites {[ast.unparse(n.ast) for n in acc]}, per call {sorted(cnt)})", line=fi.node.lineno)
            if acc_ok:
                (V,) = names
            else:
                cands = [v for v in view.locals if any(isinstance(x, ast.Call) and dotted(x.func) == "round" for d in g.all_defs(v) if def_value(d, v)[0] == "expr" for x in ast.walk(def_value(d, v)[1]))]
                if len(cands) != 1:
                    raise AnalysisError(f"{ref}: cannot identify the step-count variable")
                (V,) = cands
            sv = sp.Symbol(V, real=True)
            view.stop = {V}

            # ---- steps formula --------------------------------------------------------------------
            want = sp.Function("max")(*sorted([sp.Integer(1), sp.Function("round")((s1 - s0) / view.DT)], key=str))
            defs = [d for d in g.all_defs(V) if g.is_reachable(d)]
            rep.floor(f"{ref}: definitions of the step count", len(defs), 1)
            for k, d in enumerate(defs):
                v = def_value(d, V)
                got = None
                if v[0] == "expr":
                    try:
                        got = view.sym(resolve_expr(g, d, v[1]))
                    except ValueError:
                        got = None
                ok = got is not None and sp.simplify(got - want) == 0
                rep.sample({"construct": ref, "backend": label, "steps": str(got)})
                summaries.setdefault(label, {})["steps"] = str(got)
                if not rep.oblige(f"{label}/steps-formula#{k}", ok, str(got)):
                    rep.violation("C07.steps-formula", f"{ref}::steps", f"`{ast.unparse(d.ast)}` evaluates to {got}, expected max(1, round(({T1} - {T0})/dt))", line=d.lineno)

            # ---- returned time ----------------------------------------------------------------------
            rets = returns(g)
            rep.floor(f"{ref}: returns", len(rets), 1)
            for k, r in enumerate(rets):
                rv = r.ast.value
                if isinstance(rv, ast.Tuple):
                    rv = rv.elts[-1]  # (state_data, t_final) convention of the functional back-ends
                cf = sp.simplify(view.closed_form(r, rv, ix)) if rv is not None else None
                ok = cf is not None and sp.simplify(cf - (s0 + sv * view.DT)) == 0
                rep.sample({"construct": ref, "backend": label, "returned time": str(cf)})
                summaries.setdefault(label, {})["return"] = str(cf)
                if not rep.oblige(f"{label}/return-time#{k}", ok, str(cf)):
                    rep.violation("C07.return-time", f"{ref}::return", f"the returned time has the closed form {cf}, expected {T0} + {V}*dt (the time actually reached after {V} steps)", line=r.lineno)

            # ---- the loop -------------------------------------------------------------------------------
            if has_loop:
                loop_view, steps_name, t0_name = view, V, T0
                direct = any(h.kind == "for" for h in g.nodes)
                if not direct:
                    callee = None
                    for n in g.nodes:
                        for c in n.calls():
                            if isinstance(c.func, ast.Name) and c.func.id not in view.locals and any(is_name(a, V) for a in c.args):
                                cal = [x for x in view.factory_values(c.func.id) if isinstance(x, ast.FunctionDef)]
                                if len(cal) == 1:
                                    callee = (c, next(f for f in fi.module.functions.values() if f.node is cal[0]))
                    if callee is None:
                        raise AnalysisError(f"{ref}: no step loop and no compiled loop receiving `{V}`")
                    c, cfi = callee
                    rep.saw("functions", cfi.ref)
                    loop_view = StepperView(cfi)
                    pos_steps = next(i for i, a in enumerate(c.args) if is_name(a, V))
                    pos_t0 = next((i for i, a in enumerate(c.args) if is_name(a, T0)), None)
                    if pos_t0 is None:
                        raise AnalysisError(f"{ref}: the compiled loop does not receive `{T0}`")
                    steps_name, t0_name = loop_view.ps[pos_steps], loop_view.ps[pos_t0]
                    loop_view.stop = {steps_name}
                check_step_loop(rep, loop_view, steps_name, t0_name, label, ref)
        except AnalysisError as err:
            if (rel, qn) != FIXED_STEPPERS[0][:2]:
                raise
            # an idiom of the interpreted stepper that the symbolic rules do not know is decided by a witness search on
            # its control skeleton (recording stand-ins for single step and hook, exact rational times); without a
            # witness the idiom stays undecided
            w = skeleton_witness(fi)
            if w is None:
                raise
            rep.note(f"symbolic stepper rules not applicable ({err}); decided by the control-skeleton witness")
            rep.oblige(f"{label}/control-skeleton", False, w)
            rep.violation("C07.step-loop", f"{ref}::skeleton", f"interpreting the stepper with recording stand-ins: {w}", line=fi.node.lineno)
        else:
            if (rel, qn) == FIXED_STEPPERS[0][:2] and len(rep.findings) == n_find:
                w = skeleton_witness(fi)
                rep.oblige(f"{label}/control-skeleton: max(1, round(.)) steps at t_start + i*dt, returns t_start + steps*dt, accounts steps", w is None, w)
                if w is not None:
                    rep.violation("C07.step-loop", f"{ref}::skeleton", f"interpreting the stepper with recording stand-ins: {w}", line=fi.node.lineno)
        n_done += 1
    rep.floor("fixed steppers analysed", n_done, 4)
    agree = len({(s.get("steps"), s.get("return")) for s in summaries.values()}) == 1
    rep.oblige("fixed-steppers/backends-agree", agree, summaries)
    rep.oblige(
        "fixed-steppers/final-time-within-half-step",
        True,
        "steps = max(1, round(x)), x = (t_end - t_start)/dt > 0, t_final = t_start + steps*dt  =>  |t_final - t_end| = dt*|steps - x| <= dt/2 for x >= 1/2 "
        "(|round(x) - x| <= 1/2; round(x) = 0 only at x = 1/2) and = dt*(1 - x) < dt otherwise",
    )


# ---------------------------------------------------------------------------- (d) effects of trackers on the state
NDARRAY_INPLACE = {"fill", "sort", "put", "itemset", "resize", "partition", "setfield", "setflags", "byteswap", "__setitem__", "__iadd__", "__isub__", "__imul__", "__itruediv__", "__ipow__"}
NP_INPLACE = {"np.copyto", "np.put", "np.place", "np.putmask", "np.fill_diagonal", "np.put_along_axis", "numpy.copyto"}
VIEW_METHODS = {"view", "reshape", "ravel", "squeeze", "transpose", "swapaxes", "astype_view"}
NON_STATE_ATTRS = {"grid", "shape", "dtype", "ndim", "size", "rank", "label", "attributes", "attributes_serialized"}
CAPTURING_METHODS = {"append", "extend", "add", "put", "put_nowait", "appendleft", "insert", "setdefault", "update"}
SEEDED_MUTATORS = {"set_ghost_cells": "writes ghost cells through the boundary-condition objects (not visible as a store in the field class)"}
DELEGATED = {"_append_data": "storage back-ends (copy on append) are the subject of C20"}
ATTR_TYPES = {("StorageTracker", "storage"): ("pde/storage/base.py", "StorageBase")}


class Effects:
    def __init__(self, rep: Report, ix):
        self.rep = rep
        self.ix = ix
        self.done: set[tuple[str, str]] = set()
        self.user_escapes: set[str] = set()
        self.delegated: set[str] = set()
        self.mutators = self._field_mutators()
        self.update_methods = self._update_methods()

    # -- which field methods write into the field ------------------------------------------------
    def _field_classes(self) -> list[ClassInfo]:
        return [c for rel, m in self.ix.modules.items() if rel.startswith("pde/fields/") for c in m.classes.values()]

    @staticmethod
    def _rooted_at_self(t: ast.AST) -> bool:
        depth = 0
        while isinstance(t, (ast.Attribute, ast.Subscript)):
            t = t.value
            depth += 1
        return depth > 0 and is_name(t, "self")

    def _field_mutators(self) -> dict[str, str]:
        direct: dict[str, str] = dict(SEEDED_MUTATORS)
        uses: dict[str, set[str]] = {}
        n_methods = 0
        for c in self._field_classes():
            for name, fs in c.methods.items():
                for f in fs:
                    if name == "__init__" or any(d.endswith(".setter") for d in f.decorator_names):
                        continue  # a setter is invoked by a store, which the rule sees as a store
                    n_methods += 1
                    u = uses.setdefault(name, set())
                    for x in walk_shallow(f.node):
                        ts: list[ast.AST] = []
                        if isinstance(x, ast.Assign):
                            ts = list(x.targets)
                        elif isinstance(x, (ast.AugAssign, ast.AnnAssign)):
                            ts = [x.target]
                        elif isinstance(x, ast.Delete):
                            ts = list(x.targets)
                        for t in ts:
                            for tt in t.elts if isinstance(t, (ast.Tuple, ast.List)) else [t]:
                                if self._rooted_at_self(tt):
                                    direct.setdefault(name, f"{f.ref}: store `{ast.unparse(tt)}`")
                        if isinstance(x, ast.Call):
                            if isinstance(x.func, ast.Attribute) and x.func.attr in NDARRAY_INPLACE and self._rooted_at_self(x.func.value):
                                direct.setdefault(name, f"{f.ref}: `{ast.unparse(x.func)}`")
                            for k in x.keywords:
                                if k.arg == "out" and self._rooted_at_self(k.value):
                                    direct.setdefault(name, f"{f.ref}: out={ast.unparse(k.value)}")
                        if isinstance(x, ast.Attribute) and isinstance(x.ctx, ast.Load) and is_name(x.value, "self"):
                            u.add(x.attr)
        self.rep.floor("methods of the field classes scanned for stores into self", n_methods, 80)
        changed = True
        while changed:
            changed = False
            for name, u in uses.items():
                if name not in direct:
                    hit = sorted(u & set(direct))
                    if hit:
                        direct[name] = f"uses self.{hit[0]}"
                        changed = True
        return direct

    def _update_methods(self) -> set[str]:
        out = set()
        for c in self._field_classes():
            for fs in c.methods.values():
                for f in fs:
                    for d in f.node.decorator_list:
                        if isinstance(d, ast.Call):
                            for k in d.keywords:
                                if k.arg == "update_method" and isinstance(k.value, ast.Constant) and isinstance(k.value.value, str):
                                    out.add(k.value.value)
        return out

    # -- class helpers ---------------------------------------------------------------------------------
    def _attr_class(self, cls: ClassInfo, attr: str) -> ClassInfo | None:
        for c in cls.mro():
            if (c.name, attr) in ATTR_TYPES:
                return self.ix.cls(*ATTR_TYPES[(c.name, attr)])
            for fs in c.methods.values():
                for f in fs:
                    for x in walk_shallow(f.node):
                        if isinstance(x, ast.Assign) and isinstance(x.value, ast.Call) and any(dotted(t) == f"self.{attr}" for t in x.targets):
                            tgt = self.ix.resolve_name(c.module, dotted(x.value.func))
                            if isinstance(tgt, ClassInfo):
                                return tgt
        return None

    def _is_user_attr(self, cls: ClassInfo, attr: str) -> bool:
        """self.<attr> is bound to a constructor parameter (user supplied callable)"""
        for c in cls.mro():
            for f in c.methods.get("__init__", []):
                ps = set(params(f.node)) | {a.arg for a in f.node.args.kwonlyargs}
                for x in walk_shallow(f.node):
                    if isinstance(x, ast.Assign) and any(dotted(t) == f"self.{attr}" for t in x.targets) and isinstance(x.value, ast.Name) and x.value.id in ps:
                        return True
        return False

    def _returns_param(self, f: FuncInfo) -> set[int]:
        ps = params(f.node)
        out = set()
        for x in walk_shallow(f.node):
            if isinstance(x, ast.Return) and isinstance(x.value, ast.Name) and x.value.id in ps:
                out.add(ps.index(x.value.id))
        return out

    # -- the analysis ---------------------------------------------------------------------------------------
    def analyse(self, root: FuncInfo, f: FuncInfo, param: str, cls: ClassInfo | None, trail: tuple[str, ...] = ()) -> None:
        key = (f.ref, param)
        if key in self.done or len(trail) > 4:
            return
        self.done.add(key)
        rep = self.rep
        here = " -> ".join((*trail, f.qualname))
        fn = f.node
        aliases = {param}

        def view(e: ast.AST) -> bool:
            if isinstance(e, ast.Name):
                return e.id in aliases
            if isinstance(e, ast.Attribute):
                return e.attr not in NON_STATE_ATTRS and view(e.value)
            if isinstance(e, (ast.Subscript, ast.Starred)):
                return view(e.value)
            if isinstance(e, ast.IfExp):
                return view(e.body) or view(e.orelse)
            if isinstance(e, ast.NamedExpr):
                return view(e.value)
            if isinstance(e, ast.Call):
                fnm = dotted(e.func)
                if fnm == "getattr" and e.args and view(e.args[0]):
                    return True
                if fnm in ("np.asarray", "np.asanyarray", "np.atleast_1d", "np.ravel", "np.reshape", "np.squeeze", "np.transpose", "np.real", "np.imag", "np.broadcast_to") and e.args and view(e.args[0]):
                    return True
                if isinstance(e.func, ast.Attribute) and e.func.attr in VIEW_METHODS and view(e.func.value):
                    return True
                if cls is not None and isinstance(e.func, ast.Attribute) and is_name(e.func.value, "self"):
                    m = cls.find_method(e.func.attr)
                    if m is not None:
                        back = self._returns_param(m)
                        return any(view(a) for i, a in enumerate(e.args) if (i + 1) in back)
            return False

        # aliases (flow-insensitive fix-point)
        changed = True
        while changed:
            changed = False
            for x in walk_shallow(fn):
                new: list[ast.AST] = []
                if isinstance(x, ast.Assign) and view(x.value):
                    new = list(x.targets)
                elif isinstance(x, ast.AnnAssign) and x.value is not None and view(x.value):
                    new = [x.target]
                elif isinstance(x, ast.NamedExpr) and view(x.value):
                    new = [x.target]
                elif isinstance(x, (ast.For, ast.comprehension)) and view(x.iter):
                    new = [x.target]
                for t in new:
                    for tt in t.elts if isinstance(t, (ast.Tuple, ast.List)) else [t]:
                        if isinstance(tt, ast.Name) and tt.id not in aliases:
                            aliases.add(tt.id)
                            changed = True
        rep.sample({"construct": root.ref, "analysed": here, "state parameter": param, "views/aliases": sorted(aliases)}, limit=60)

        def flag(rule: str, role: str, what: str, node: ast.AST) -> None:
            rep.violation(rule, f"{root.ref}::{role}", f"{here}: {what}", line=getattr(node, "lineno", None))
            self.bad += 1

        pm = parent_map(fn)
        for x in walk_shallow(fn):
            # stores ---------------------------------------------------------------------------
            ts: list[ast.AST] = []
            val = None
            if isinstance(x, ast.Assign):
                ts, val = list(x.targets), x.value
            elif isinstance(x, ast.AugAssign):
                ts = [x.target]
                if isinstance(x.target, ast.Name) and x.target.id in aliases:
                    flag("C07.tracker-writes-state", "store", f"in-place operation `{ast.unparse(x)}` on the state", x)
            elif isinstance(x, ast.AnnAssign):
                ts, val = [x.target], x.value
            elif isinstance(x, ast.Delete):
                ts = list(x.targets)
            elif isinstance(x, ast.For):
                ts = [x.target]
            for t in ts:
                for tt in t.elts if isinstance(t, (ast.Tuple, ast.List)) else [t]:
                    if isinstance(tt, (ast.Attribute, ast.Subscript)) and view(tt.value):
                        flag("C07.tracker-writes-state", "store", f"`{ast.unparse(x).splitlines()[0]}` writes through the state it was shown", x)
                    elif isinstance(tt, ast.Attribute) and self._rooted_at_self(tt) and val is not None and view(val):
                        flag("C07.tracker-captures-state", "capture", f"`{ast.unparse(x)}` keeps a reference to (a view of) the live state instead of a copy", x)
            # property getters that write
            if isinstance(x, ast.Attribute) and isinstance(x.ctx, ast.Load) and view(x.value) and x.attr in self.mutators and not isinstance(pm.get(id(x)), ast.Call):
                flag("C07.tracker-writes-state", "inplace-call", f"`{ast.unparse(x)}` uses a field member that writes into the field ({self.mutators[x.attr]})", x)
            if not isinstance(x, ast.Call):
                continue
            fnm = dotted(x.func)
            # in-place methods on a view ----------------------------------------------------------
            if isinstance(x.func, ast.Attribute) and view(x.func.value):
                m = x.func.attr
                if m in NDARRAY_INPLACE or m in self.mutators:
                    why = self.mutators.get(m, "in-place ndarray method")
                    flag("C07.tracker-writes-state", "inplace-call", f"`{ast.unparse(x)}` modifies the state in place ({why})", x)
            if fnm in NP_INPLACE and x.args and view(x.args[0]):
                flag("C07.tracker-writes-state", "inplace-call", f"`{ast.unparse(x)}` writes into the state", x)
            for k in x.keywords:
                if k.arg == "out" and view(k.value):
                    flag("C07.tracker-writes-state", "inplace-call", f"`{ast.unparse(x)}` writes into the state through out=", x)
            # dynamic plot update idiom: update_func = getattr(view, view.plot.update_method)
            if isinstance(x.func, ast.Name) and x.func.id in aliases and x.func.id != param:
                srcs = [a.value for a in walk_shallow(fn) if isinstance(a, ast.Assign) and any(is_name(t, x.func.id) for t in a.targets)]
                dyn = [s for s in srcs if isinstance(s, ast.Call) and dotted(s.func) == "getattr"]
                if dyn and all(len(s.args) == 2 and isinstance(s.args[1], ast.Attribute) and s.args[1].attr == "update_method" for s in dyn):
                    badm = sorted(m for m in self.update_methods if m in self.mutators)
                    rep.oblige(f"effects/{root.qualname}/plot-update-methods-read-only", not badm, sorted(self.update_methods))
                    if badm:
                        flag("C07.tracker-writes-state", "inplace-call", f"`{ast.unparse(x)}` dispatches to plot update methods that write into the field: {badm}", x)
                elif dyn:
                    raise AnalysisError(f"{here}: dynamic method call `{ast.unparse(x)}` on the state cannot be resolved")
            # escapes: a view handed to another function -----------------------------------------------
            vargs = [(i, a) for i, a in enumerate(x.args) if view(a)] + [(k.arg, k.value) for k in x.keywords if k.arg != "out" and view(k.value)]
            if not vargs:
                continue
            if fnm in PURE_BUILTINS or fnm in ("getattr", "iter", "enumerate", "zip", "list", "tuple") or is_logger_call(x):
                continue
            if fnm.startswith(("np.", "numpy.", "math.")):
                continue
            targets: list[tuple[FuncInfo, ClassInfo | None]] = []
            shift = 1
            if isinstance(x.func, ast.Attribute):
                m = x.func.attr
                recv = x.func.value
                if m in DELEGATED:
                    self.delegated.add(f"{here}: `{ast.unparse(x)}` -- {DELEGATED[m]}")
                    continue
                if cls is not None and (is_name(recv, "self") or dotted(recv) == "super()"):
                    start = cls.mro()[1:] if dotted(recv) == "super()" else cls.mro()
                    for c in start:
                        fs = [g_ for g_ in c.methods.get(m, []) if not any(d.endswith(".setter") for d in g_.decorator_names)]
                        if fs:
                            targets.append((fs[0], cls))
                            break
                    if not targets and is_name(recv, "self") and self._is_user_attr(cls, m):
                        self.user_escapes.add(f"{here}: `{ast.unparse(x)}` (user supplied callable)")
                        continue
                elif cls is not None and isinstance(recv, ast.Attribute) and is_name(recv.value, "self"):
                    tc = self._attr_class(cls, recv.attr)
                    if tc is not None:
                        mm = tc.find_method(m)
                        if mm is not None:
                            targets.append((mm, tc))
                    elif m in CAPTURING_METHODS:
                        flag("C07.tracker-captures-state", "capture", f"`{ast.unparse(x)}` stores a reference to (a view of) the live state", x)
                        continue
            elif isinstance(x.func, ast.Name):
                tgt = self.ix.resolve_name(f.module, x.func.id)
                if isinstance(tgt, FuncInfo):
                    targets.append((tgt, None))
                    shift = 0
                elif isinstance(tgt, ClassInfo):
                    init = tgt.find_method("__init__")
                    if init is not None:
                        targets.append((init, tgt))
            if not targets:
                raise AnalysisError(f"{here}: cannot resolve `{ast.unparse(x)}` which receives the state; add a rule for it")
            for tf, tcls in targets:
                tps = params(tf.node)
                for pos, _a in vargs:
                    if isinstance(pos, int):
                        if pos + shift >= len(tps):
                            raise AnalysisError(f"{here}: argument {pos} of `{ast.unparse(x)}` has no parameter in {tf.ref}")
                        pn = tps[pos + shift]
                    else:
                        pn = pos
                        if pn not in tps and pn not in {a.arg for a in tf.node.args.kwonlyargs}:
                            raise AnalysisError(f"{here}: keyword {pn} of `{ast.unparse(x)}` has no parameter in {tf.ref}")
                    self.analyse(root, tf, pn, tcls, (*trail, f.qualname))

    bad = 0


def check_tracker_effects(rep: Report, ix) -> None:
    base = ix.cls(TRK, "TrackerBase")
    eff = Effects(rep, ix)
    rep.sample({"field members that write into the field": {k: v for k, v in sorted(eff.mutators.items())}, "plot update methods": sorted(eff.update_methods)})
    n = 0
    for c in sorted(ix.subclasses(base, strict=True), key=lambda c: c.ref):
        for f in c.methods.get("handle", []):
            ps = params(f.node)
            if len(ps) < 3:
                raise AnalysisError(f"{f.ref}: signature (self, field, t) expected")
            rep.saw("functions", f.ref)
            before = eff.bad
            eff.analyse(f, f, ps[1], c)
            rep.oblige(f"effects/{f.qualname}/read-only", eff.bad == before)
            n += 1
    rep.floor("tracker handle methods analysed", n, 12)
    for s in sorted(eff.user_escapes):
        rep.note("state handed to user code (assumed read-only): " + s)
    for s in sorted(eff.delegated):
        rep.note("delegated: " + s)
    rep.extra["effect_analysis"] = {"functions visited": sorted(r for r, _ in eff.done), "user escapes": sorted(eff.user_escapes), "delegated": sorted(eff.delegated)}



# ----------------------------------------------------------------------------
# state carried from one stepper call to the next
# ----------------------------------------------------------------------------
CARRIED_KEYS = ("post_step_data",)


def _info_key(e: ast.AST) -> str | None:
    """`<x>.info["key"]` -> key"""
    if isinstance(e, ast.Subscript) and isinstance(e.value, ast.Attribute) and e.value.attr == "info" and isinstance(e.slice, ast.Constant) and isinstance(e.slice.value, str):
        return e.slice.value
    return None


def check_carried_state(rep: Report, ix) -> None:
    """The controller calls the stepper once per tracker segment.  Data that survives between these
    calls (the auxiliary data of the post-step hook) lives in `solver.info[...]`; every stepper wrapper
    must read it from there *at each call* and write the updated value back, otherwise every segment
    restarts from a stale value and the result depends on where trackers interrupt the run.
    Rule: (a) no nested function may use a free variable that the enclosing factory initialised from
    `info[<carried key>]` (a snapshot taken when the stepper was built); (b) in every function that
    passes carried data to a hook / compiled stepper the argument is read from `info[key]` inside that
    function, and the returned data is stored to `info[key]` again."""
    files = [m.rel for m in ix.modules.values() if m.rel.startswith("pde/solvers/") or m.rel == "pde/backends/numba/_solvers.py"]
    n_use = 0
    for rel in sorted(files):
        m = ix.modules[rel]
        for f in m.functions.values():
            # (a) snapshots in factories
            snap = {}
            for st in f.node.body if isinstance(f.node, ast.FunctionDef) else []:
                if isinstance(st, ast.Assign) and len(st.targets) == 1 and isinstance(st.targets[0], ast.Name) and _info_key(st.value) in CARRIED_KEYS:
                    snap[st.targets[0].id] = (_info_key(st.value), st.lineno)
            if snap:
                for g in f.nested():
                    local = {a.arg for a in g.node.args.args + g.node.args.kwonlyargs}
                    for x in ast.walk(g.node):
                        if isinstance(x, (ast.Assign, ast.AnnAssign, ast.AugAssign)):
                            for t in ast.walk(x.targets[0] if isinstance(x, ast.Assign) else x.target):
                                if isinstance(t, ast.Name) and isinstance(t.ctx, ast.Store):
                                    local.add(t.id)
                    for x in ast.walk(g.node):
                        if isinstance(x, ast.Name) and isinstance(x.ctx, ast.Load) and x.id in snap and x.id not in local:
                            key, line = snap[x.id]
                            rep.violation(
                                "C07.carried-state",
                                f"{g.ref}::{key}::snapshot",
                                f"`{x.id}` is read inside `{g.qualname}` but was bound once, when the stepper was built, to `info[{key!r}]` (line {line}): every call of the stepper "
                                f"(one per tracker segment) starts from that stale value, so the state depends on how often trackers interrupt the run",
                                line=x.lineno,
                            )
                            break
            # (b) uses
            own_nodes = [x for x in ast.walk(f.node)]
            nested_nodes = {id(y) for g in f.nested() for y in ast.walk(g.node)}
            for c in own_nodes:
                if id(c) in nested_nodes or not isinstance(c, ast.Call):
                    continue
                for key in CARRIED_KEYS:
                    arg = next((k.value for k in c.keywords if k.arg == key), None)
                    if arg is None and dotted(c.func).split(".")[-1] in ("post_step_hook", "compiled_stepper"):
                        cands = [a for a in c.args if _info_key(a) == key or (isinstance(a, ast.Name) and a.id == key)]
                        arg = cands[0] if cands else None
                    if arg is None:
                        continue
                    # jit-compiled kernels thread the data through their parameters
                    fparams = {a.arg for a in f.node.args.args + f.node.args.kwonlyargs}
                    if isinstance(arg, ast.Name) and arg.id in fparams:
                        continue
                    n_use += 1
                    ok_read = _info_key(arg) == key
                    if isinstance(arg, ast.Name):
                        defs = [st for st in ast.walk(f.node) if id(st) not in nested_nodes and isinstance(st, ast.Assign) and any(isinstance(t, ast.Name) and t.id == arg.id for t in st.targets)]
                        ok_read = bool(defs) and all(_info_key(d.value) == key for d in defs)
                    # the updated data goes back to info[key]: the call is (part of) the value of an assignment with such a target
                    stores = [st for st in ast.walk(f.node) if id(st) not in nested_nodes and isinstance(st, ast.Assign) and any(y is c for y in ast.walk(st.value))]
                    ok_store = any(any(_info_key(t) == key for tt in st.targets for t in ast.walk(tt)) for st in stores)
                    rep.oblige(f"{f.ref}: {key} read from info at each call and stored back ({ast.unparse(c.func)})", ok_read and ok_store, {"argument": ast.unparse(arg), "stored back": ok_store})
                    if not ok_read:
                        rep.violation("C07.carried-state", f"{f.ref}::{key}::read", f"`{ast.unparse(c)[:90]}` receives `{ast.unparse(arg)}`, which is not read from `info[{key!r}]` inside `{f.qualname}` at each call", line=c.lineno)
                    if not ok_store:
                        rep.violation("C07.carried-state", f"{f.ref}::{key}::store", f"the data returned by `{ast.unparse(c.func)}` is not stored back to `info[{key!r}]` in `{f.qualname}`: the next stepper call starts from the old value", line=c.lineno)
    rep.floor("stepper functions handing carried data to a hook / compiled stepper", n_use, 8)



# ----------------------------------------------------------------------------
# the layers between controller and inner stepper pass times and counters through unchanged
# ----------------------------------------------------------------------------
def check_stepper_layers(rep: Report, ix, tier: str) -> None:
    """(1) every back-end `make_stepper` returns a closure that hands (state.data, t_start, t_end) to the inner stepper and
    returns *its* result unmodified -- the time reported to the controller is the time actually reached (clamping it to
    t_end makes the controller's clock lag behind the state, so more than N steps are taken);  (2) SolverBase.make_stepper
    (and the adaptive override) reset info['steps'] to 0 unconditionally when a stepper is built, because every inner
    stepper only adds to it (a solver object used for a second run would report steps of both runs)."""
    sites = [("pde/backends/base.py", "BackendBase.make_stepper"), ("pde/backends/numba/backend.py", "NumbaBackend.make_stepper")]
    n = 0
    for rel, qn in sites:
        f = ix.func(rel, qn)
        rep.saw("functions", f.ref)
        inner_names = set()
        for st in ast.walk(f.node):
            if isinstance(st, ast.Assign) and len(st.targets) == 1 and isinstance(st.targets[0], ast.Name) and isinstance(st.value, ast.Call) and dotted(st.value.func).split(".")[-1] in ("_make_inner_stepper", "make_inner_stepper"):
                inner_names.add(st.targets[0].id)
        if not inner_names:
            raise AnalysisError(f"{f.ref}: the inner stepper is not obtained from (_)make_inner_stepper")
        wrappers = [g for g in f.nested() if any(isinstance(c, ast.Call) and isinstance(c.func, ast.Name) and c.func.id in inner_names for c in ast.walk(g.node))]
        if len(wrappers) != 1:
            raise AnalysisError(f"{f.ref}: expected exactly one closure calling the inner stepper, found {len(wrappers)}")
        w = wrappers[0]
        ps = [a.arg for a in w.node.args.args]
        rets = [r for r in ast.walk(w.node) if isinstance(r, ast.Return)]
        for r in rets:
            n += 1
            v = r.value
            # resolve a local name bound once to the call
            if isinstance(v, ast.Name):
                defs = [st.value for st in ast.walk(w.node) if isinstance(st, ast.Assign) and any(isinstance(t, ast.Name) and t.id == v.id for t in st.targets)]
                v2 = defs[0] if len(defs) == 1 else None
            else:
                v2 = v
            ok = isinstance(v2, ast.Call) and isinstance(v2.func, ast.Name) and v2.func.id in inner_names and len(v2.args) == 3 and len(ps) == 3 and ast.unparse(v2.args[0]) == f"{ps[0]}.data" and [ast.unparse(a) for a in v2.args[1:]] == ps[1:]
            rep.oblige(f"{qn}: the wrapper returns the inner stepper's time unmodified", bool(ok), ast.unparse(r.value) if r.value is not None else None)
            if not ok:
                rep.violation(
                    "C07.time-flow",
                    f"{w.ref}::return",
                    f"the back-end stepper wrapper returns `{ast.unparse(r.value) if r.value is not None else None}` instead of the value of `{sorted(inner_names)[0]}({ps[0]}.data, {ps[1]}, {ps[2]})`: "
                    "the controller takes its clock from this value, so an altered time (e.g. clamped to t_end) no longer is the time of the state and the number of steps changes with the tracker intervals",
                    line=r.lineno,
                )
    rep.floor("returns of back-end stepper wrappers", n, 2)
    # (2)
    n2 = 0
    for rel, qn in (("pde/solvers/base.py", "SolverBase.make_stepper"), ("pde/solvers/base.py", "AdaptiveSolverBase.make_stepper")):
        try:
            f = ix.func(rel, qn)
        except AnalysisError:
            continue
        rep.saw("functions", f.ref)
        body = [st for st in f.node.body]
        resets = [st for st in ast.walk(f.node) if isinstance(st, ast.Assign) and any(_is_info_item(t, "steps") for t in st.targets) and isinstance(st.value, ast.Constant) and st.value.value == 0]
        delegates = [c for c in ast.walk(f.node) if isinstance(c, ast.Call) and isinstance(c.func, ast.Attribute) and c.func.attr == "make_stepper" and isinstance(c.func.value, ast.Call) and dotted(c.func.value.func) == "super"]
        # unconditional: the reset is a statement of the function body itself (not nested in if/try)
        top = [st for st in resets if st in body]
        ok = bool(top) or (bool(delegates) and not resets)
        n2 += 1
        rep.oblige(f"{qn}: info['steps'] is reset to 0 unconditionally (or the method delegates to the base implementation)", ok, [ast.unparse(st) for st in resets] or ("delegates" if delegates else "no reset"))
        if not ok:
            rep.violation(
                "C07.steps-accounted",
                f"{f.ref}::reset",
                "building a stepper does not reset info['steps'] to 0 unconditionally (every inner stepper only adds to it): a solver object that drives a second run reports the steps of both runs, "
                "so t_final != t_start + steps*dt",
                line=f.node.lineno,
            )
    rep.floor("make_stepper methods of the solver classes", n2, 1)


def check(tier: str) -> Report:
    rep = Report("C07", tier, "other", "static: ownership/alias/effect rules on syntax + CFG reaching definitions; sympy closed forms of the stepping loops")
    rep.explanation = (
        "(a) Controller.run: every use of the caller's initial_state is `.copy(...)`; runners receive and return the copy; "
        "PDEBase.solve hands the state to Controller.run only. (b) _run_main_process: strict loop guard t < t_end - tol, "
        "stepper(state, t, min(handle(...), t_end)), t only from t_start / stepper return, info['t_final'] = t. "
        "(c) each fixed stepper: steps = max(1, round((t_end-t_start)/dt)), accounted once on every path, loop of exactly "
        "`steps` iterations at t_start + i*dt, returned time == t_start + steps*dt as a sympy identity (numba through the "
        "compiled closure). (d) no tracker handle (nor the package functions it hands the state to) stores through, calls "
        "an in-place member on, or keeps a reference to the state."
    )
    rep.trusted = ["CPython ast", "sympy (closed-form simplification)", "pdelint.cfg", "|round(x) - x| <= 1/2"]
    ix = get_index()
    check_ownership(rep, ix)
    check_time_flow(rep, ix)
    check_fixed_steppers(rep, ix, tier)
    check_tracker_effects(rep, ix)
    check_carried_state(rep, ix)
    check_stepper_layers(rep, ix, tier)
    rep.assumptions += [
        "user supplied callables (CallbackTracker/DataTracker functions, transformations, evolution_rate, title) do not modify the field they are shown",
        "FieldBase.copy returns an independent object (C15)",
        "storage back-ends copy what they append (C20)",
        "adaptive steppers and the scipy wrapper are outside the fixed-step clause",
    ]
    rep.note("not decided: that the per-segment roundings of max(1, round(.)) add up to exactly N steps and bit-identical states for all (dt, interval, range) triples -- a floating-point statement over unbounded inputs")
    from .c08 import thorough_selftest

    thorough_selftest(rep)
    return rep

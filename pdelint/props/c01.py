"""C01 -- registered differential operators are consistent discretisations of the
continuum operators (order 2 central / order 1 one-sided), with the documented
component order.  Decided on the extracted stencil tables, for symbolic shape,
spacing, position and inner radius."""

from __future__ import annotations

import itertools
import multiprocessing as mp
import os

import sympy as sp

from ..core import AnalysisError, Report
from ..fx import Interp, Model, Opaque, Partial, RaisedInCode, Unsupported, make_grid_model
from ..index import get_index
from ..kernels import (
    Registration,
    apply_kernel,
    backend_model,
    extract_kernel,
    read_config_defaults,
    registrations,
    run_factory,
    std_overrides,
)
from ..oracle import Oracle, get_oracle, jet_symbol, oracle_op, to_jets
from ..stencil import piecewise_cases, resolve_piecewise, EPS, jets_in, kernel_table, position_subs, residual_orders, substitute_taylor

GRIDS = {
    # grid class -> (oracle system, list of numbers of axes)
    "CartesianGrid": ("cartesian", (1, 2, 3)),
    "PolarSymGrid": ("polar", (1,)),
    "SphericalSymGrid": ("spherical", (1,)),
    "CylindricalSymGrid": ("cylindrical", (2,)),
}
OPTION_VALUES = {
    "method": ("central", "forward", "backward"),
    "central": (True, False),
    "conservative": (True, False),
}
TAYLOR_ORDER = 4
# floors confirmed by hand on the pinned tree
FLOOR_NUMBA = {"CartesianGrid": 7, "PolarSymGrid": 6, "SphericalSymGrid": 7, "CylindricalSymGrid": 7}


def option_rows(fi) -> list[dict]:
    a = fi.node.args
    names = [p.arg for p in a.kwonlyargs] + [p.arg for p in a.args[1:]]
    opts = [n for n in names if n in OPTION_VALUES]
    rows = []
    for combo in itertools.product(*[OPTION_VALUES[o] for o in opts]):
        rows.append(dict(zip(opts, combo)))
    return rows or [{}]


def expected_order(options: dict) -> int:
    return 1 if options.get("method") in ("forward", "backward") else 2


def parse_assumptions(kernel, dim: int, rank_in: int) -> tuple[dict, list[str]]:
    """assumptions stated by the kernel itself (`if safe: assert np.all(... == ...)`):
    returns {comp tuple: (sign, comp tuple) | 0} and a printable list"""
    subst: dict[tuple, object] = {}
    printed = []

    def comps_of(cell):
        args = list(cell.args)
        lead = args[:-1] if args else []
        # every leading entry is a constant or a slice(lo, None, None) over components
        choices = []
        for a in lead:
            if a.is_Integer:
                choices.append([int(a)])
            elif a.func.__name__ == "slice":
                lo = a.args[0]
                lo = 0 if lo == sp.Symbol("None") else int(lo)
                choices.append(list(range(lo, dim)))
            else:
                return None
        while len(choices) < rank_in:
            choices.append(list(range(dim)))
        return list(itertools.product(*choices))

    for val, node in kernel.asserts:
        if not isinstance(val, sp.Equality):
            continue
        lhs, rhs = val.lhs, val.rhs
        if not (hasattr(lhs, "func") and getattr(lhs.func, "__name__", "") == "arr"):
            lhs, rhs = rhs, lhs
        if not (hasattr(lhs, "func") and getattr(lhs.func, "__name__", "") == "arr"):
            continue
        lc = comps_of(lhs)
        if lc is None:
            continue
        if rhs == 0:
            for c in lc:
                subst[c] = 0
            printed.append(f"{lhs} == 0")
            continue
        sign = 1
        r = rhs
        if r.is_Mul and r.args[0] == -1:
            sign, r = -1, -r
        if hasattr(r, "func") and getattr(r.func, "__name__", "") == "arr":
            rc = comps_of(r)
            if rc and len(rc) == 1 and len(lc) == 1:
                subst[lc[0]] = (sign, rc[0])
                printed.append(f"{lhs} == {rhs}")
    # resolve chains (a -> b, b -> 0)
    for c, v in list(subst.items()):
        if isinstance(v, tuple) and subst.get(v[1]) == 0:
            subst[c] = 0
    return subst, printed


def apply_assumptions(expr, subst: dict):
    expr = sp.sympify(expr)
    repl = {}
    for s in jets_in(expr):
        _, comp, alpha = s.name.split("_")
        c = tuple(int(ch) for ch in comp)
        if c in subst:
            v = subst[c]
            if v == 0:
                repl[s] = 0
            else:
                sign, c2 = v
                repl[s] = sign * sp.Symbol("J_" + "".join(map(str, c2)) + "_" + alpha)
    return expr.xreplace(repl)


def check_kernel_against_oracle(kernel, grid, sysname, n_axes, opname, order_needed, rank_in, rank_out, *, isotropic=False):
    """returns list of (comp, ok, detail) obligations and list of problems"""
    orc = get_oracle(sysname, n_axes if sysname == "cartesian" else 0)
    dim = orc.dim
    table = kernel_table(kernel, n_axes)
    problems = list(table.problems)
    hs = tuple(grid._attrs["discretization"].items)
    X = orc.axes
    pos = position_subs(grid, table.loop_syms, X)
    subst, printed = parse_assumptions(kernel, dim, rank_in)
    want = oracle_op(sysname, n_axes if sysname == "cartesian" else 0, opname)
    results = []
    expected_comps = list(itertools.product(range(dim), repeat=rank_out))
    for comp in expected_comps:
        if comp not in table.comps:
            results.append((comp, False, "component is never written by the kernel"))
            continue
        term = table.comps[comp]
        special = piecewise_cases(term, table.loop_syms) if sp.sympify(term).has(sp.Piecewise) else []
        boundary_terms = [(ls, v, resolve_piecewise(term, {ls: v})) for ls, v in special]
        term = resolve_piecewise(term) if special else term
        st = substitute_taylor(term, table.loop_syms, hs, TAYLOR_ORDER)
        st = st.subs(pos)
        oj = sp.sympify(to_jets(want[comp], orc))
        st = apply_assumptions(st, subst)
        oj = sp.sympify(apply_assumptions(oj, subst))
        extra = [s for s in oj.free_symbols if s.name in ("theta", "phi")]
        if extra:
            results.append((comp, False, f"continuum operator depends on {extra} under the kernel's stated assumptions {printed}"))
            continue
        if isotropic:
            st = st.subs({h: hs[0] for h in hs[1:]})
        val, lead = residual_orders(st, oj, hs)
        ok = val >= order_needed
        detail = {"valuation": str(val), "needed": order_needed}
        if not ok:
            detail["leading_residual"] = str(lead)[:400]
            detail["stencil"] = str(term)[:400]
            detail["continuum"] = str(want[comp])
        results.append((comp, ok, detail))
        # cells singled out by element stores into coefficient arrays (e.g. `factor_l[0] = 0`): the stencil of that very cell,
        # with exact samples in the virtual points, must be consistent to the same order at the cell's own position
        for ls, v, bterm in boundary_terms:
            k = list(table.loop_syms).index(ls)
            bst = substitute_taylor(bterm, table.loop_syms, hs, TAYLOR_ORDER).subs(pos)
            bst = apply_assumptions(bst, subst)
            lo_k = grid._attrs["axes_bounds"][k][0]
            # padded index v <-> centre lo + (v - 1/2) h ; indices counted from the end refer to the upper bound
            N_k = grid._attrs["shape"][k]
            if sp.sympify(v).has(N_k):
                hi_sym = sp.Symbol(f"x_max{k}", positive=True)
                xpos = hi_sym - (N_k - sp.sympify(v) + sp.Rational(1, 2)) * hs[k]
            else:
                xpos = lo_k + (sp.sympify(v) - sp.Rational(1, 2)) * hs[k]
            bres_st, bres_oj = bst.subs(X[k], xpos), oj.subs(X[k], xpos)
            bval, blead = residual_orders(bres_st, bres_oj, hs)
            bok = bval >= order_needed
            bdetail = {"cell": f"{ls} = {v}", "valuation": str(bval), "needed": order_needed}
            if not bok:
                bdetail["leading_residual"] = str(blead)[:300]
                bdetail["stencil"] = str(bterm)[:300]
            results.append(((*comp, f"cell[{ls}={v}]"), bok, bdetail))
    extra_comps = set(table.comps) - set(expected_comps)
    if extra_comps:
        problems.append(f"kernel writes components {sorted(extra_comps)} outside rank_out={rank_out}, dim={dim}")
    return results, problems, printed


def stencil_support(tab) -> dict:
    """per axis: set of cell offsets used by any component"""
    from sympy.core.function import AppliedUndef

    from ..stencil import cell_offsets

    sup = {k: set() for k in range(tab.n_axes)}
    for term in tab.comps.values():
        for c in sp.sympify(term).atoms(AppliedUndef):
            if c.func.__name__ == "arr":
                _, offs = cell_offsets(c, tab.loop_syms)
                for k, o in enumerate(offs):
                    sup[k].add(o)
    return {k: sorted(v) for k, v in sup.items()}


ALLOWED_SUPPORT = {"forward": {0, 1}, "backward": {-1, 0}, "central": {-1, 0, 1}}


def _row_job(job):
    """worker: one (registration, n_axes, options) row -> serialisable result"""
    backend_cls, subdir, gcls, name, n_axes, options, extra = job
    ix = get_index()
    cfg = read_config_defaults(ix)
    cfg.update(extra.get("config", {}))
    regs = [r for r in registrations(ix, backend_cls, subdir) if r.grid_cls == gcls and r.name == name]
    if not regs:
        return {"job": job, "error": f"registration {gcls}.{name} vanished"}
    r = regs[0]
    sysname, _ = GRIDS[gcls]
    grid = make_grid_model(ix, gcls, n_axes, periodic=extra.get("periodic"))
    try:
        decide = extra.get("decide")
        it, closure = run_factory(ix, r.factory, grid, options, cfg)
        k = apply_kernel(it, closure, grid, factory=r.factory.ref, options=options)
        res, problems, printed = check_kernel_against_oracle(
            k, grid, sysname, n_axes, name, expected_order(options), r.rank_in, r.rank_out, isotropic=extra.get("isotropic", False)
        )
    except RaisedInCode as e:
        return {"job": job, "raised": e.exc_name, "line": getattr(e.node, "lineno", None)}
    except Unsupported as e:
        return {"job": job, "error": str(e)}
    tab = kernel_table(k, n_axes)
    sample = {str(c): str(t)[:300] for c, t in list(tab.comps.items())[:2]}
    support = stencil_support(tab)
    return {
        "job": job,
        "factory": r.factory.ref,
        "rank": (r.rank_in, r.rank_out),
        "results": [(c, ok, d) for c, ok, d in res],
        "problems": problems,
        "assumptions": printed,
        "sample": sample,
        "prange": [lp.var for lp in k.loops if lp.kind == "prange"],
        "kernel_funcs": sorted({st.func for st in k.stores if st.base == "out"}),
        "support": support,
    }


def derivative_rows(ix):
    """the d_d<axis>[_forward|_backward] / d2_d<axis>2 family resolved through
    NumbaBackend.get_operator_info (interpreted from source)"""
    fi = ix.func("pde/backends/numba/backend.py", "NumbaBackend.get_operator_info")
    rows = []
    for n_axes in (1, 2, 3):
        axes = ["x", "y", "z"][:n_axes]
        for ax_id, ax in enumerate(axes):
            for suffix, method, order, deriv in (
                ("", "central", 2, 1),
                ("_central", "central", 2, 1),
                ("_forward", "forward", 1, 1),
                ("_backward", "backward", 1, 1),
                (None, None, 2, 2),
            ):
                name = f"d2_d{ax}2" if suffix is None else f"d_d{ax}{suffix}"
                rows.append((n_axes, ax_id, name, method, order, deriv))
    return fi, rows


def _deriv_job(job):
    n_axes, ax_id, name, method, order, deriv = job
    ix = get_index()
    cfg = read_config_defaults(ix)
    fi = ix.func("pde/backends/numba/backend.py", "NumbaBackend.get_operator_info")
    grid = make_grid_model(ix, "CartesianGrid", n_axes)
    grid._attrs["axes"] = ["x", "y", "z"][:n_axes]
    backend = backend_model()

    def no_super(*a):
        def raiser(*a, **k):
            from ..fx import RaisedInCode
            import ast as _ast

            raise RaisedInCode("NotImplementedError", _ast.Pass())

        return Model("super", {"get_operator_info": raiser})

    ov = std_overrides(ix, cfg, backend)
    ov["super"] = no_super
    ov["OperatorInfo"] = lambda factory, rank_in=0, rank_out=0, name="": {"factory": factory, "rank_in": rank_in, "rank_out": rank_out, "name": name}
    ov["pde.tools.typing.OperatorInfo"] = ov["OperatorInfo"]
    it = Interp(ix, overrides=ov)
    it.builtins["isinstance"] = _wrap_isinstance(it.builtins["isinstance"])
    try:
        info = it.call(it.make_closure(fi, it.module_env(fi.module)), (backend, grid, name), {})
        if not isinstance(info, dict):
            return {"job": job, "error": f"get_operator_info returned {info!r}"}
        if info["rank_in"] != 0 or info["rank_out"] != 0:
            return {"job": job, "error": f"ranks {info['rank_in']},{info['rank_out']} for scalar derivative"}
        closure = it.call(info["factory"], (grid,), {"backend": backend})
        k = apply_kernel(it, closure, grid, factory="make_derivative", options={})
    except RaisedInCode as e:
        return {"job": job, "raised": e.exc_name}
    except Unsupported as e:
        return {"job": job, "error": str(e)}
    orc = get_oracle("cartesian", n_axes)
    table = kernel_table(k, n_axes)
    hs = tuple(grid._attrs["discretization"].items)
    term = table.comps.get(())
    if term is None:
        return {"job": job, "results": [((), False, "no store")], "problems": table.problems}
    st = substitute_taylor(term, table.loop_syms, hs, TAYLOR_ORDER)
    want = to_jets(orc.derivative(ax_id, deriv)[()], orc)
    val, lead = residual_orders(st, want, hs)
    ok = val >= order
    d = {"valuation": str(val), "needed": order}
    if not ok:
        d["leading_residual"] = str(lead)[:300]
        d["stencil"] = str(term)
    sup = stencil_support(table)
    problems = list(table.problems)
    for ax, offs in sup.items():
        allowed = ALLOWED_SUPPORT[method or "central"] if ax == ax_id else {0}
        if set(offs) - allowed:
            problems.append(f"`{name}` reads offsets {offs} along axis {ax}; documented stencil uses {sorted(allowed)}")
    return {"job": job, "results": [((), ok, d)], "problems": problems, "sample": {"()": str(term)}}


def _wrap_isinstance(orig):
    def f(obj, cls):
        if isinstance(cls, dict) or (callable(cls) and not isinstance(cls, type)):
            # isinstance(operator, OperatorInfo) with operator a str
            return isinstance(obj, dict)
        return orig(obj, cls)

    return f


def check(tier: str) -> Report:
    rep = Report("C01", tier, "proof", "ast->sympy stencil tables vs continuum operators derived in the Cartesian embedding; Taylor residual valuation")
    rep.explanation = (
        "Each registered operator factory is interpreted from its syntax tree on a symbolic grid (shape N_k, spacing h_k, "
        "inner radius r_min); the kernel it returns is interpreted on symbolic arrays, giving the stencil as a sympy term. "
        "Cells are replaced by Taylor polynomials (order 4) about the cell centre, the continuum operator is derived "
        "independently in the Cartesian embedding, and every jet coefficient of the difference must vanish to order "
        "h^2 (central) / h^1 (one-sided) identically in position, spacing and inner radius."
    )
    ix = get_index()
    jobs = []
    counts = {}
    regs = registrations(ix, "NumbaBackend", "pde/backends/numba/operators/")
    for r in regs:
        counts[r.grid_cls] = counts.get(r.grid_cls, 0) + 1
        if r.grid_cls not in GRIDS:
            raise AnalysisError(f"operator {r.name} registered for unknown grid class {r.grid_cls}: no oracle")
        if r.name not in Oracle.RANK_IN:
            raise AnalysisError(f"registered operator {r.grid_cls}.{r.name} has no oracle row")
        if (r.rank_in, r.rank_out) != (Oracle.RANK_IN[r.name], Oracle.RANK_OUT[r.name]):
            rep.violation(
                "C01.registry-ranks",
                f"{r.factory.ref}::registration",
                f"operator `{r.name}` registered with ranks ({r.rank_in},{r.rank_out}), continuum operator has "
                f"({Oracle.RANK_IN[r.name]},{Oracle.RANK_OUT[r.name]})",
                line=r.factory.node.lineno,
            )
        _, axes_list = GRIDS[r.grid_cls]
        for n_axes in axes_list:
            for options in option_rows(r.factory):
                jobs.append(("NumbaBackend", "pde/backends/numba/operators/", r.grid_cls, r.name, n_axes, options, {}))
    for g, n in FLOOR_NUMBA.items():
        rep.floor(f"numba operator registrations for {g}", counts.get(g, 0), n)
    # 9-point Laplacian (isotropic spacing only, as the code itself warns)
    for w, per in ((sp.Rational(1, 2), (False, False)), (sp.Rational(1, 3), (True, False)), (sp.Rational(1, 3), (False, True))):
        jobs.append(
            (
                "NumbaBackend",
                "pde/backends/numba/operators/",
                "CartesianGrid",
                "laplace",
                2,
                {},
                {"config": {"operators.cartesian.laplacian_2d_corner_weight": w}, "isotropic": True, "periodic": per},
            )
        )
    fi, drows = derivative_rows(ix)
    nproc = min(16, os.cpu_count() or 1)
    with mp.get_context("fork").Pool(nproc) as pool:
        results = pool.map(_row_job, jobs, chunksize=1)
        dresults = pool.map(_deriv_job, drows, chunksize=1)

    for res in results:
        backend_cls, subdir, gcls, name, n_axes, options, extra = res["job"]
        tag = f"{gcls}/{n_axes}:{name}:{_fmt(options)}{':w=' + str(extra['config']['operators.cartesian.laplacian_2d_corner_weight']) + ',periodic=' + str(extra.get('periodic')) if extra.get('config') else ''}"
        if "error" in res:
            raise AnalysisError(f"{tag}: {res['error']}")
        if "raised" in res:
            # a factory may legitimately reject an option row (e.g. unknown method) -- but
            # the rows enumerated here are the documented ones
            rep.violation("C01.row-rejected", f"{gcls}.{name}::{_fmt(options)}", f"factory raised {res['raised']} for documented options {options} on {n_axes} axes")
            continue
        rep.saw("kernel rows", tag)
        kf = "+".join(res["kernel_funcs"]) or res["factory"]
        construct = f"{kf}::{name}::{_fmt(options)}"
        meth = options.get("method")
        if meth in ALLOWED_SUPPORT:
            for ax, offs in res["support"].items():
                bad = set(offs) - ALLOWED_SUPPORT[meth]
                if bad:
                    rep.violation(
                        "C01.stencil-support",
                        f"{kf}::{name}::{_fmt(options)}::axes={n_axes}",
                        f"`{name}` with method={meth!r} on {gcls} reads cells at offsets {sorted(bad)} along axis {ax}; the documented "
                        f"{meth} difference uses offsets {sorted(ALLOWED_SUPPORT[meth])} only",
                    )
            rep.oblige(f"{tag}:support", True, res["support"])
        for p in res["problems"]:
            rep.violation("C01.store-shape", construct, p)
        for comp, ok, d in res["results"]:
            rep.oblige(f"{tag}:out{list(comp)}", ok, d)
            if not ok:
                rep.violation(
                    "C01.consistency",
                    f"{kf}::{name}::{_fmt(options)}::axes={n_axes}::out{list(comp)}",
                    f"[registered by {res['factory']}] stencil of `{name}` on {gcls} ({n_axes} axes, {options}) component {list(comp)} is not an order-"
                    f"{expected_order(options)} approximation of the continuum operator: {d}",
                    detail=d,
                )
        if len(rep.samples) < 12:
            rep.sample({"row": tag, "stencil": res["sample"], "assumptions": res["assumptions"]})
    for res in dresults:
        n_axes, ax_id, name, method, order, deriv = res["job"]
        tag = f"derivative/{n_axes}:{name}"
        if "error" in res:
            raise AnalysisError(f"{tag}: {res['error']}")
        if "raised" in res:
            rep.violation("C01.derivative-lookup", f"pde/backends/numba/backend.py::NumbaBackend.get_operator_info::{name}", f"lookup of `{name}` raised {res['raised']}")
            continue
        rep.saw("derivative rows", tag)
        for p in res["problems"]:
            rep.violation("C01.stencil-support", f"pde/backends/numba/operators/common.py::derivative::{name}/{n_axes}", p)
        for comp, ok, d in res["results"]:
            rep.oblige(f"{tag}", ok, d)
            if not ok:
                rep.violation(
                    "C01.consistency",
                    f"pde/backends/numba/operators/common.py::{name}::axes={n_axes}",
                    f"`{name}` on a {n_axes}-axes grid is not an order-{order} approximation of d^{deriv}/d{name}: {d}",
                )
    near_axis(rep, ix)
    rep.assumptions += [
        "near-axis regime: fields are generic polynomials (degree 6 in r, 3 in z) smooth in Cartesian coordinates; virtual points at the axis hold the analytic continuation (parity) of the field",
        "spectral (FFT) Laplacians are not stencils and are out of scope",
        "numba compiles the interpreted Python semantics faithfully; float round-off ignored",
        "cell centres at lo + (i+1/2) h (checked against discretize_interval by C12)",
        "the 9-point Laplacian is checked for isotropic spacing only (documented restriction)",
    ]
    return rep


def _fmt(options: dict) -> str:
    return ",".join(f"{k}={v}" for k, v in sorted(options.items())) or "default"


# =============================================================================
# near-axis regime (r_min = 0): uniform second order in the cells adjoining the axis
# =============================================================================
NEAR_AXIS_EXCEPTIONS = {
    # documented in the property statement: first order in the cells adjoining the axis
    ("CylindricalSymGrid", "vector_laplace"): 1,
}


def _poly(name, r, z, K=3, M=0):
    tot = 0
    for k in range(K + 1):
        for m in range(M + 1):
            tot += sp.Symbol(f"{name}_{k}{m}") * r ** (2 * k) * (z**m if z is not None else 1)
    return tot


def smooth_fields(sysname, rank):
    """components (in operator order) of a generic smooth, axially symmetric field, as polynomials
    in r^2 (and z) with the regularity conditions implied by smoothness in Cartesian coordinates"""
    r = sp.Symbol("r", positive=True)
    z = sp.Symbol("z", real=True) if sysname == "cylindrical" else None
    M = 3 if sysname == "cylindrical" else 0
    P = lambda n: _poly(n, r, z, 3, M)  # noqa: E731
    dim = {"polar": 2, "spherical": 3, "cylindrical": 3}[sysname]
    if rank == 0:
        return {(): P("s")}
    if rank == 1:
        if sysname == "polar":
            return {(0,): r * P("f"), (1,): r * P("g")}
        if sysname == "spherical":
            return {(0,): r * P("f"), (1,): sp.Integer(0), (2,): sp.Integer(0)}
        return {(0,): r * P("f"), (1,): P("w"), (2,): r * P("g")}
    out = {(a, b): sp.Integer(0) for a in range(dim) for b in range(dim)}
    A, B, C, D, E, F = (P(n) for n in "ABCDEF")
    if sysname == "polar":
        out[(0, 0)], out[(1, 1)] = A + r**2 * B, A + r**2 * C
        out[(0, 1)], out[(1, 0)] = -D + r**2 * E, D + r**2 * F
    elif sysname == "spherical":
        out[(0, 0)] = A + r**2 * B
        out[(1, 1)] = out[(2, 2)] = A + r**2 * C
    else:  # cylindrical, component order (r, z, phi)
        out[(0, 0)], out[(2, 2)] = A + r**2 * B, A + r**2 * C
        out[(0, 2)], out[(2, 0)] = -D + r**2 * E, D + r**2 * F
        out[(1, 1)] = P("G")
        out[(0, 1)], out[(1, 0)] = r * P("H"), r * P("I")
        out[(2, 1)], out[(1, 2)] = r * P("J"), r * P("K")
    return out


def _near_axis_job(job):
    gcls, name, options = job
    ix = get_index()
    cfg = read_config_defaults(ix)
    reg = [r for r in registrations(ix, "NumbaBackend", "pde/backends/numba/operators/") if r.grid_cls == gcls and r.name == name][0]
    sysname, axes_list = GRIDS[gcls]
    n_axes = axes_list[0]
    grid = make_grid_model(ix, gcls, n_axes)
    # the axis is part of the grid: r_min = 0
    from ..fx import IdxArr

    K = IdxArr.K
    h = grid._attrs["discretization"].items
    N0 = grid._attrs["shape"][0]
    grid._attrs["axes_coords"] = (IdxArr((K + sp.Rational(1, 2)) * h[0], N0),) + tuple(grid._attrs["axes_coords"][1:])
    grid._attrs["axes_bounds"] = ((sp.Integer(0), N0 * h[0]),) + tuple(grid._attrs["axes_bounds"][1:])
    try:
        it, closure = run_factory(ix, reg.factory, grid, options, cfg)
        k = apply_kernel(it, closure, grid, factory=reg.factory.ref, options=options)
    except (Unsupported, RaisedInCode) as e:
        return {"job": job, "error": str(e)}
    from sympy.core.function import AppliedUndef

    from ..stencil import cell_offsets

    table = kernel_table(k, n_axes)
    orc = get_oracle(sysname, 0)
    fields = smooth_fields(sysname, reg.rank_in)
    r, z = sp.Symbol("r", positive=True), sp.Symbol("z", real=True)
    isym = table.loop_syms[0]
    Z = sp.Symbol("Z", real=True)
    # continuum value for the explicit field
    want = oracle_op(sysname, 0, name)
    fsub = {}
    for comp, f in orc.field(reg.rank_in).items():
        fsub[f] = fields[comp]
    results = []
    for comp, term in table.comps.items():
        if sp.sympify(term).has(sp.Piecewise):
            # cells singled out by element stores are judged by the per-cell rows of the consistency clause
            term = resolve_piecewise(term)
        st = sp.sympify(term)
        repl = {}
        for c in st.atoms(AppliedUndef):
            if c.func.__name__ != "arr":
                continue
            cc, offs = cell_offsets(c, table.loop_syms)
            val = fields[cc].subs(r, (isym + offs[0] - sp.Rational(1, 2)) * h[0])
            if n_axes == 2:
                val = val.subs(z, Z + offs[1] * h[1])
            repl[c] = val
        st = st.xreplace(repl)
        if n_axes == 2:
            # coefficients of the kernels do not depend on the axial index
            st = st.subs(table.loop_syms[1], sp.Symbol("j_any"))
        exact = sp.sympify(want[comp]).subs(fsub).doit()
        exact = exact.subs(r, (isym - sp.Rational(1, 2)) * h[0])
        if n_axes == 2:
            exact = exact.subs(z, Z)
        res = sp.together(sp.expand(st - exact))
        res = res.subs({hh: EPS * sp.Symbol(f"eta{n}", positive=True) for n, hh in enumerate(h)})
        res = sp.expand(sp.simplify(res))
        # valuation in eps of every coefficient (with the cell index symbolic)
        coeffsyms = sorted([s for s in res.free_symbols if "_" in s.name and s.name.split("_")[0] in "sfgwABCDEFGHIJK"], key=str)
        best = sp.oo
        lead = None
        if res != 0:
            P = sp.Poly(res, *coeffsyms) if coeffsyms else None
            items = zip(P.monoms(), P.coeffs()) if P is not None else [((), res)]
            from ..stencil import valuation

            for mono, co in items:
                v = valuation(co)
                if v < best:
                    best, lead = v, (str(dict(zip([str(c) for c in coeffsyms], mono))) if coeffsyms else "", str(sp.factor(co))[:200])
        results.append((comp, str(best), lead))
    return {"job": job, "factory": reg.factory.ref, "results": results, "kernel_funcs": sorted({s.func for s in k.stores if s.base == "out"})}


def near_axis(rep: Report, ix):
    jobs = []
    for r in registrations(ix, "NumbaBackend", "pde/backends/numba/operators/"):
        if r.grid_cls not in ("PolarSymGrid", "SphericalSymGrid", "CylindricalSymGrid"):
            continue
        for options in option_rows(r.factory):
            if options.get("method", "central") != "central" or options.get("central", True) is not True:
                continue  # the uniform claim is made for the central variants
            jobs.append((r.grid_cls, r.name, options))
    with mp.get_context("fork").Pool(min(16, os.cpu_count() or 1)) as pool:
        results = pool.map(_near_axis_job, jobs, chunksize=1)
    for res in results:
        gcls, name, options = res["job"]
        tag = f"near-axis:{gcls}:{name}:{_fmt(options)}"
        if "error" in res:
            raise AnalysisError(f"{tag}: {res['error']}")
        rep.saw("near-axis rows", tag)
        need = NEAR_AXIS_EXCEPTIONS.get((gcls, name), 2)
        kf = "+".join(res["kernel_funcs"]) or res["factory"]
        for comp, val, lead in res["results"]:
            v = sp.oo if val == "oo" else sp.Integer(val)
            ok = v >= need
            if ok:
                rep.oblige(f"{tag}:out{list(comp)}: error O(h^{need}) with the cell index symbolic (cells adjoining the axis included)", ok, {"valuation": val, "leading": lead})
            if not ok:
                rep.violation(
                    "C01.near-axis",
                    f"{kf}::{name}::{_fmt(options)}::near-axis::out{list(comp)}",
                    f"{gcls} `{name}` {options}: on smooth axially symmetric fields (r_min = 0) the error in component {list(comp)} at cell i is O(h^{val}) "
                    f"with i symbolic (leading term {lead}); the property requires order {need} uniformly down to the axis",
                )

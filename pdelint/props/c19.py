"""C19 -- vector and tensor components are tied to the right basis vectors.

(a) For every coordinate class the extracted ``_basis_rotation`` is proved orthonormal,
right-handed and equal to the normalised transposed ``_mapping_jacobian``, which is
proved to be the derivative of the extracted ``_pos_to_cart``.
(b) One component order: an index-space typing pass (COMP = grid axes followed by the
symmetric axes, as used by the operators; COORD = order of the coordinate system
``grid.c.axes``) reports every place where a COMP-indexed value meets a COORD-indexed
container without re-indexing, if the two orders differ for some concrete grid class.
"""

from __future__ import annotations

import ast

import sympy as sp

from ..core import AnalysisError, Report
from ..coordsys import COORD_CLASSES, CoordExtract, zero_test
from ..index import ClassInfo, FuncInfo, const_value, dotted, get_index

GRID_FILES = ("pde/grids/base.py", "pde/grids/cartesian.py", "pde/grids/spherical.py", "pde/grids/cylindrical.py")


# ----------------------------------------------------------------------------
# (a)
# ----------------------------------------------------------------------------
def check_bases(rep: Report, ix):
    for cn, rel in COORD_CLASSES.items():
        dims = (1, 2, 3) if cn == "CartesianCoordinates" else (None,)
        for d in dims:
            c = CoordExtract(ix, cn, d)
            tag = cn + (f"/{d}" if d else "")
            ref = f"{rel}::{cn}"
            rep.saw("coordinate classes", tag)
            X = sp.Matrix(c.to_cart())
            J = c.jacobian()
            Jd = X.jacobian(sp.Matrix(c.q))
            bad = [(i, j) for i in range(c.dim) for j in range(c.dim) if not zero_test(J[i, j] - Jd[i, j])]
            rep.oblige(f"{tag}:mapping_jacobian = d(pos_to_cart)/dq", not bad, bad)
            for i, j in bad:
                rep.violation("C19.jacobian", f"{ref}._mapping_jacobian::entry[{i},{j}]", f"{tag}: Jacobian entry [{i},{j}] is `{J[i, j]}`, derivative of pos_to_cart gives `{Jd[i, j]}`")
            R = c.rotation()
            RRt = R * R.T
            bad = [(i, j) for i in range(c.dim) for j in range(c.dim) if not zero_test(RRt[i, j] - (1 if i == j else 0))]
            rep.oblige(f"{tag}:basis_rotation orthonormal", not bad, bad)
            for i, j in bad:
                rep.violation("C19.orthonormal", f"{ref}._basis_rotation::RRt[{i},{j}]", f"{tag}: (R R^T)[{i},{j}] = `{sp.simplify(RRt[i, j])}`, basis is not orthonormal")
            ok = zero_test(R.det() - 1)
            rep.oblige(f"{tag}:basis_rotation right-handed (det = +1)", ok, str(sp.simplify(R.det())))
            if not ok:
                rep.violation("C19.right-handed", f"{ref}._basis_rotation::det", f"{tag}: det R = `{sp.simplify(R.det())}`, expected +1")
            # the basis is defined wherever the mapping is: no division by a quantity that vanishes at an admissible point
            map_divs = [d for d, _ in c.divisors_of("_pos_to_cart")]
            rot_divs = c.divisors_of("_basis_rotation")
            bad_divs = []
            seen_divs = set()
            for dv, line in rot_divs:
                if (str(dv), line) in seen_divs:
                    continue
                seen_divs.add((str(dv), line))
                why = divisor_may_vanish(dv, map_divs, c.q)
                if why:
                    bad_divs.append((str(dv), why, line))
            rep.oblige(f"{tag}:basis_rotation defined wherever the mapping is ({len(rot_divs)} divisions)", not bad_divs, bad_divs)
            for n, (dv, why, line) in enumerate(bad_divs[:2]):
                rep.violation("C19.basis-defined", f"{ref}._basis_rotation::divisor{n}", f"{tag}: the basis is computed with a division by `{dv}`, {why}; the mapping itself is regular there, so the local basis (and every vector conversion through it) is undefined (0/0 or infinite) at an admissible point", line=line)
            # rows of R are the normalised columns of the Jacobian
            h = c.scale_factors()
            bad = []
            for a in range(c.dim):
                for i in range(c.dim):
                    if not zero_test(R[a, i] * h[a] - Jd[i, a]):
                        bad.append((a, i))
            rep.oblige(f"{tag}:basis_rotation rows = normalised Jacobian columns", not bad, bad)
            for a, i in bad:
                rep.violation(
                    "C19.basis-vs-jacobian",
                    f"{ref}._basis_rotation::row{a}col{i}",
                    f"{tag}: R[{a},{i}] = `{R[a, i]}` but (dX_{i}/dq_{a})/h_{a} = `{sp.simplify(Jd[i, a] / h[a])}`: basis vector {a} ({c.axes[a]}) is not the unit tangent of its coordinate line",
                )
            # scale factors are the column norms
            bad = [a for a in range(c.dim) if not zero_test(h[a] ** 2 - sum(Jd[i, a] ** 2 for i in range(c.dim)))]
            rep.oblige(f"{tag}:scale factors = |dX/dq_a|", not bad, bad)
            for a in bad:
                rep.violation("C19.scale-factors", f"{ref}._scale_factors::h{a}", f"{tag}: scale factor {a} is `{h[a]}`, |dX/dq_{a}|^2 = `{sp.simplify(sum(Jd[i, a] ** 2 for i in range(c.dim)))}`")
            if len(rep.samples) < 8:
                rep.sample({"class": tag, "pos_to_cart": [str(x) for x in X], "rotation": [[str(e) for e in R.row(a)] for a in range(c.dim)]})
    rep.floor("coordinate classes analysed", len(rep.analysed.get("coordinate classes", [])), 8)


# ----------------------------------------------------------------------------
# (b) index spaces
# ----------------------------------------------------------------------------
def grid_orders(ix):
    """per concrete grid class: COMP order (axes + symmetric axes) and COORD order (c.axes)"""
    out = {}
    base = ix.cls("pde/grids/base.py", "GridBase")
    for g in ix.subclasses(base, strict=True):
        if g.module.rel not in GRID_FILES:
            continue
        sym = g.find_attr("_axes_symmetric")
        cattr = g.find_attr("c")
        cls_coord = None
        # coordinate system: class attribute `c = XCoordinates()` or assignment in __init__
        for c in g.mro():
            if "c" in c.attrs:
                cls_coord = dotted(c.attrs["c"].func) if isinstance(c.attrs["c"], ast.Call) else None
                break
            init = c.methods.get("__init__")
            if init:
                for n in ast.walk(init[0].node):
                    if isinstance(n, ast.Assign) and any(isinstance(t, ast.Attribute) and t.attr == "c" and dotted(t.value) == "self" for t in n.targets) and isinstance(n.value, ast.Call):
                        cls_coord = dotted(n.value.func)
                if cls_coord:
                    break
        if cls_coord is None or cls_coord not in COORD_CLASSES:
            continue
        if cls_coord == "CartesianCoordinates":
            out[g.name] = {"coord": ["x", "y", "z"], "comp": ["x", "y", "z"], "coord_cls": cls_coord}
            continue
        ccls = ix.cls(COORD_CLASSES[cls_coord], cls_coord)
        caxes = const_value(ccls.find_attr("axes")[1])
        symm = tuple(const_value(sym[1])) if sym else ()
        described = [i for i in range(len(caxes)) if i not in symm]
        comp = [caxes[i] for i in described] + [caxes[i] for i in symm]
        out[g.name] = {"coord": list(caxes), "comp": comp, "coord_cls": cls_coord}
    return out


COMP_SOURCES = ("get_axis_index",)
COORD_CONTAINERS = ("axes", "coordinate_limits")  # attributes of `<grid>.c`
COORD_MATRICES = ("basis_rotation", "mapping_jacobian", "_basis_rotation", "_mapping_jacobian")


def _is_c_attr(node: ast.AST, names) -> bool:
    """<expr>.c.<name> or self.c.<name>"""
    return isinstance(node, ast.Attribute) and node.attr in names and isinstance(node.value, ast.Attribute) and node.value.attr == "c"


def index_space_findings(ix, orders):
    """returns list of (rule, construct, message, line)"""
    differing = sorted(g for g, o in orders.items() if o["coord"] != o["comp"])
    findings = []
    sites = 0
    for f in ix.all_functions():
        rel = f.module.rel
        if not (rel.startswith("pde/fields/") or rel.startswith("pde/grids/") or rel.startswith("pde/visualization") or rel.startswith("pde/tools/plotting")):
            continue
        if rel.startswith("pde/grids/coordinates"):
            continue
        comp_names: set[str] = set()
        coordmat_names: set[str] = set()
        compdata_names: set[str] = set()
        # pass 1: tag local names
        for node in ast.walk(f.node):
            if isinstance(node, ast.Assign) and len(node.targets) == 1 and isinstance(node.targets[0], ast.Name):
                v = node.value
                if isinstance(v, ast.Call) and isinstance(v.func, ast.Attribute) and v.func.attr in COMP_SOURCES:
                    comp_names.add(node.targets[0].id)
                if isinstance(v, ast.Call) and isinstance(v.func, ast.Attribute) and v.func.attr in COORD_MATRICES:
                    coordmat_names.add(node.targets[0].id)
        # parameters documented as component arrays (leading axis = components in COMP order)
        for a in f.node.args.args:
            if a.arg in ("components",):
                compdata_names.add(a.arg)
        for node in ast.walk(f.node):
            if isinstance(node, ast.Assign) and len(node.targets) == 1 and isinstance(node.targets[0], ast.Name):
                v = node.value
                if isinstance(v, ast.Call) and dotted(v.func).startswith("np.as") and v.args and isinstance(v.args[0], ast.Name) and v.args[0].id in compdata_names:
                    compdata_names.add(node.targets[0].id)
        # pass 2: sinks
        for node in ast.walk(f.node):
            # COORD container subscripted by a COMP index
            if isinstance(node, ast.Subscript) and _is_c_attr(node.value, COORD_CONTAINERS):
                sites += 1
                idx = node.slice
                if isinstance(idx, ast.Name) and idx.id in comp_names:
                    findings.append(
                        (
                            "C19.comp-index-into-coord-order",
                            f"{f.ref}::{ast.unparse(node.value)}[{idx.id}]",
                            f"`{ast.unparse(node)}`: `{idx.id}` comes from get_axis_index (component order: grid axes then symmetric axes) but indexes "
                            f"`{ast.unparse(node.value)}` (coordinate-system order); the two orders differ on {differing}",
                            node.lineno,
                        )
                    )
            # einsum contracting component data with a rotation matrix
            if isinstance(node, ast.Call) and dotted(node.func).endswith("einsum") and len(node.args) >= 3 and isinstance(node.args[0], ast.Constant):
                spec = str(node.args[0].value).replace(" ", "")
                ins, _, outs = spec.partition("->")
                terms = ins.split(",")
                ops = node.args[1:]
                for ti, (term, op) in enumerate(zip(terms, ops)):
                    if isinstance(op, ast.Name) and op.id in compdata_names:
                        lead = term.replace("...", "")[:1]
                        for tj, (term2, op2) in enumerate(zip(terms, ops)):
                            if isinstance(op2, ast.Name) and op2.id in coordmat_names:
                                sites += 1
                                t2 = term2.replace("...", "")
                                if lead and lead in t2 and lead not in outs:
                                    findings.append(
                                        (
                                            "C19.comp-contracted-with-coord-basis",
                                            f"{f.ref}::einsum::{op.id}*{op2.id}",
                                            f"`{ast.unparse(node)}` contracts the component axis of `{op.id}` (component order of the field: grid axes then "
                                            f"symmetric axes) with axis {t2.index(lead)} of `{op2.id}` = c.basis_rotation (coordinate-system order) without "
                                            f"re-indexing; the orders differ on {differing}, where e.g. the z-component is rotated with the phi basis vector",
                                            node.lineno,
                                        )
                                    )
    return findings, sites, differing


def component_order_consistency(rep: Report, ix):
    """every place that names components uses `axes + axes_symmetric` (COMP)"""
    n = 0
    for f in ix.all_functions():
        if not f.module.rel.startswith("pde/fields/"):
            continue
        for node in ast.walk(f.node):
            if isinstance(node, ast.BinOp) and isinstance(node.op, ast.Add):
                l, r = ast.unparse(node.left), ast.unparse(node.right)
                if l.endswith(".axes") and r.endswith(".axes_symmetric"):
                    n += 1
                    rep.saw("component naming sites", f"{f.ref}")
                elif l.endswith(".axes_symmetric") and r.endswith(".axes"):
                    rep.violation("C19.component-naming", f"{f.ref}::axes-order", f"`{ast.unparse(node)}` lists symmetric axes before grid axes; operators use grid axes first", line=node.lineno)
    rep.floor("component naming sites (axes + axes_symmetric)", n, 4)
    # get_axis_index resolves names in COMP order
    g = ix.func("pde/grids/base.py", "GridBase.get_axis_index")
    txt = [ast.unparse(n) for n in ast.walk(g.node) if isinstance(n, ast.BinOp) and isinstance(n.op, ast.Add)]
    ok = any(t.replace(" ", "") == "self.axes+self.axes_symmetric" for t in txt)
    rep.oblige("get_axis_index resolves names in the order axes + axes_symmetric", ok, txt)
    if not ok:
        rep.violation("C19.component-naming", f"{g.ref}::name-table", f"get_axis_index no longer resolves component names in the order axes + axes_symmetric: {txt}")


# ----------------------------------------------------------------------------
# (c) component algebra: dot / outer / transpose / basis change
# ----------------------------------------------------------------------------
def component_algebra(rep: Report, ix):
    """every implementation of a product / transposition / basis change places the k-th
    component of the result where the defining index formula puts it"""
    from .. import tensoralg as ta

    outs = ta.all_outcomes(ix)
    by_site: dict[tuple, list] = {}
    for o in outs:
        by_site.setdefault((o.site, o.role), []).append(o)
    for (site, role), group in sorted(by_site.items()):
        rep.saw("tensor-algebra implementations", f"{site} :: {role}")
        decided = [o for o in group if o.raised is None]
        bad = [o for o in decided if (o.mismatches and o.mismatches[0][0] != "out-not-filled") or o.uninit]
        rep.oblige(f"{site}: {role} ({len(decided)} scenarios: dims/ranks/out/conjugate)", not bad, [o.scenario for o in bad[:3]])
        if bad:
            o = bad[0]
            if o.mismatches and o.mismatches[0][0] == "shape":
                what = f"result has shape {o.mismatches[0][1]}, the defining formula gives {o.mismatches[0][2]}"
            elif o.mismatches:
                idx, got, exp = o.mismatches[0]
                what = f"entry {tuple(idx)} (component indices first, then grid cell) is `{got}`, the defining formula gives `{exp}`"
            else:
                what = "part of the result is never written (uninitialised memory is returned)"
            rep.violation(
                "C19.component-algebra",
                f"{site}::{role}",
                f"{site} does not compute {role}: in scenario {o.scenario} {what}; {len(bad)} of {len(decided)} scenarios differ",
                line=o.line,
                extra={"scenarios": [b.scenario for b in bad[:6]]},
            )
        if not decided:
            rep.note(f"{site}: every scenario of {role} ends in an exception ({group[0].raised}); whether a route may raise is decided by C03")
    rep.floor("tensor-algebra (site, formula) pairs interpreted", len(by_site), 17)
    if len(rep.samples) < 12:
        o = next((o for o in outs if o.route == "numba" and o.raised is None and o.role.startswith("out[j]")), None)
        if o is not None:
            rep.sample({"site": o.site, "formula": o.role, "scenario": o.scenario, "entry[0,0]": str(o.value[(0,) * o.value.ndim])})
    # transpose() / trace() route to the conversions checked above
    t = ix.func("pde/fields/tensorial.py", "Tensor2Field.transpose")
    calls = [n for n in ast.walk(t.node) if isinstance(n, ast.Call) and isinstance(n.func, ast.Attribute) and n.func.attr == "convert"]
    ok = len(calls) == 1 and calls[0].args and const_value(calls[0].args[0]) == "transposed" and dotted(calls[0].func.value) == "self"
    rep.oblige("Tensor2Field.transpose = self.convert('transposed')", bool(ok), [ast.unparse(c) for c in calls])
    if not ok:
        rep.violation("C19.component-algebra", f"{t.ref}::route", f"Tensor2Field.transpose no longer routes to self.convert('transposed') (found {[ast.unparse(c) for c in calls]})", line=t.node.lineno)


# ----------------------------------------------------------------------------
# (d) conversion of vector fields to Cartesian grids goes through the basis rotation
# ----------------------------------------------------------------------------
def conversion_routes(rep: Report, ix):
    """interpolating a vector field onto a Cartesian grid changes the basis: the interpolated components must pass through
    grid._vector_to_cartesian.  (1) VectorField.interpolate_to_grid: every returning path either keeps the grid class
    (same class / Cartesian to Cartesian: same basis) or builds its data with _vector_to_cartesian from the interpolated
    components; (2) the base implementation refuses (fields of rank >= 1 without their own conversion cannot be
    re-labelled silently); (3) FieldCollection.interpolate_to_grid converts each member with the member's own
    interpolate_to_grid(grid, ...) -- building `f.__class__(grid, f.interpolate(points))` bypasses the rotation."""
    from ..cfg_lite import all_paths

    # (1)
    fv = [f for f in ix.funcs("pde/fields/vectorial.py", "VectorField.interpolate_to_grid") if "overload" not in f.decorator_names][0]
    rep.saw("functions", fv.ref)

    def ev(st):
        if isinstance(st, ast.Assign) and len(st.targets) == 1 and isinstance(st.targets[0], ast.Name):
            return "assign"
        if isinstance(st, ast.Return):
            return "return"
        return None

    n = 0
    for path, oc in all_paths(fv.node, event=ev):
        if oc != "return":
            continue
        env = {}
        ret = None
        for k, st in path.events:
            if k == "assign":
                env[st.targets[0].id] = st.value
            else:
                ret = st
        if ret is None or not isinstance(ret.value, ast.Call):
            raise AnalysisError(f"{fv.ref}: returned value is not a field constructor call")
        n += 1
        data = ret.value.args[1] if len(ret.value.args) > 1 else next((k.value for k in ret.value.keywords if k.arg == "data"), None)
        while isinstance(data, ast.Name) and data.id in env:
            data = env[data.id]
        rotated = isinstance(data, ast.Call) and isinstance(data.func, ast.Attribute) and data.func.attr == "_vector_to_cartesian"
        if rotated:
            arg = data.args[1] if len(data.args) > 1 else None
            while isinstance(arg, ast.Name) and arg.id in env:
                arg = env[arg.id]
            rotated = isinstance(arg, ast.Call) and isinstance(arg.func, ast.Attribute) and arg.func.attr == "interpolate" and dotted(arg.func.value) == "self"
        # a path without rotation must have established that the basis does not change
        conds = [ast.unparse(t) for t, pol in path.tests if pol]
        same_basis = any("__class__ is grid.__class__" in c or ("isinstance(self.grid, CartesianGrid)" in c and "isinstance(grid, CartesianGrid)" in c) for c in conds)
        ok = rotated or same_basis
        rep.oblige(f"VectorField.interpolate_to_grid:path{n}: components rotated to the Cartesian basis or basis unchanged", ok, {"data": ast.unparse(data)[:80] if data is not None else None, "conditions": conds})
        if not ok:
            rep.violation(
                "C19.conversion-route",
                f"{fv.ref}::path-without-rotation",
                f"a path of VectorField.interpolate_to_grid returns `{ast.unparse(data)[:80] if data is not None else None}` under {conds}: the components interpolated in the local basis are "
                "neither rotated with grid._vector_to_cartesian nor known to refer to the same basis",
                line=ret.lineno,
            )
    rep.floor("returning paths of VectorField.interpolate_to_grid", n, 2)
    # (2)
    fb = ix.func("pde/fields/datafield_base.py", "DataFieldBase.interpolate_to_grid")
    rep.saw("functions", fb.ref)
    body = [st for st in fb.node.body if not (isinstance(st, ast.Expr) and isinstance(st.value, ast.Constant))]
    refuses = bool(body) and isinstance(body[-1], ast.Raise) and not any(isinstance(x, ast.Return) for x in ast.walk(fb.node))
    rep.oblige("DataFieldBase.interpolate_to_grid refuses (no silent re-labelling of components)", refuses)
    if not refuses:
        rep.violation("C19.conversion-route", f"{fb.ref}::base", "the base implementation of interpolate_to_grid no longer refuses: fields of rank >= 1 without their own conversion are interpolated without a change of basis", line=fb.node.lineno)
    # (3)
    fc = ix.func("pde/fields/collection.py", "FieldCollection.interpolate_to_grid")
    rep.saw("functions", fc.ref)
    gparam = fc.node.args.args[1].arg if len(fc.node.args.args) > 1 else None
    lambdas = [l for l in ast.walk(fc.node) if isinstance(l, ast.Lambda)]
    nested = [d for d in ast.walk(fc.node) if isinstance(d, ast.FunctionDef) and d is not fc.node]
    per_member = lambdas + nested
    if len(per_member) != 1:
        raise AnalysisError(f"{fc.ref}: expected exactly one per-member operation (lambda / local function), found {len(per_member)}")
    op = per_member[0]
    member = op.args.args[0].arg if op.args.args else None
    body_expr = op.body if isinstance(op, ast.Lambda) else next((st.value for st in op.body if isinstance(st, ast.Return)), None)
    ok = (
        isinstance(body_expr, ast.Call)
        and isinstance(body_expr.func, ast.Attribute)
        and body_expr.func.attr == "interpolate_to_grid"
        and isinstance(body_expr.func.value, ast.Name)
        and body_expr.func.value.id == member
        and body_expr.args
        and isinstance(body_expr.args[0], ast.Name)
        and body_expr.args[0].id == gparam
    )
    rep.oblige("FieldCollection.interpolate_to_grid converts each member with the member's own interpolate_to_grid(grid, ...)", bool(ok), ast.unparse(body_expr)[:100] if body_expr is not None else None)
    if not ok:
        rep.violation(
            "C19.conversion-route",
            f"{fc.ref}::per-member",
            f"members of a collection are converted with `{ast.unparse(body_expr)[:100] if body_expr is not None else None}` instead of their own `interpolate_to_grid({gparam}, ...)`: vector members reach a "
            "Cartesian grid with their local-basis components re-labelled as Cartesian ones (r*e_r becomes (r, 0) instead of (x, y))",
            line=op.lineno,
        )


# ----------------------------------------------------------------------------
# (e) every consumer of the rotation matrix applies it as out_i = sum_k v_k R[k, i]
# ----------------------------------------------------------------------------
ROTATION_CONSUMERS_PROVED = {
    ("pde/grids/coordinates/base.py", "CoordinatesBase.vec_to_cart"),
    ("pde/grids/base.py", "GridBase._vector_to_cartesian"),
    ("pde/grids/coordinates/base.py", "CoordinatesBase.basis_rotation"),
}


def rotation_consumers(rep: Report, ix):
    """the rows of basis_rotation are the basis vectors (a): a vector with local components v_k has Cartesian components
    out_i = sum_k v_k * R[k, i].  The two einsum consumers are proved in (c); any other function that obtains the matrix and
    combines its entries with components by hand must contract the same index: in a sum of products `R[a, b] * comp_k` that
    is stored as Cartesian component i, every term needs a == k and b == i (R[i, k] applies the inverse rotation)."""
    n = 0
    for f in ix.all_functions():
        rel = f.module.rel
        if not rel.startswith("pde/") or rel.startswith("pde/grids/coordinates/") and f.qualname.split(".")[-1] in ("_basis_rotation",):
            continue
        if (rel, f.qualname) in ROTATION_CONSUMERS_PROVED:
            continue
        own_nested = {id(x) for g in f.nested() for x in ast.walk(g.node)}
        rots = {}
        for st in ast.walk(f.node):
            if id(st) in own_nested:
                continue
            if isinstance(st, ast.Assign) and len(st.targets) == 1 and isinstance(st.targets[0], ast.Name) and isinstance(st.value, ast.Call) and isinstance(st.value.func, ast.Attribute) and st.value.func.attr in ("basis_rotation", "_basis_rotation"):
                rots[st.targets[0].id] = st
        if not rots:
            continue
        n += 1
        rep.saw("hand-written consumers of the rotation matrix", f.ref)
        defs: dict[str, ast.expr] = {}
        for st in ast.walk(f.node):
            if isinstance(st, ast.Assign) and len(st.targets) == 1:
                t = st.targets[0]
                if isinstance(t, ast.Name):
                    defs[t.id] = st.value
                elif isinstance(t, ast.Tuple) and isinstance(st.value, ast.Tuple) and len(t.elts) == len(st.value.elts):
                    for a, b in zip(t.elts, st.value.elts):
                        if isinstance(a, ast.Name):
                            defs[a.id] = b

        def comp_index(e, depth=0):
            """the component k such that e derives from `<data>[k]`"""
            for x in ast.walk(e):
                if isinstance(x, ast.Subscript) and isinstance(x.value, ast.Name) and isinstance(const_value(x.slice), int) and x.value.id not in rots and x.value.id in [a.arg for a in f.node.args.args]:
                    return const_value(x.slice)
            if depth < 5:
                for x in ast.walk(e):
                    if isinstance(x, ast.Name) and x.id in defs and x.id not in rots:
                        k = comp_index(defs[x.id], depth + 1)
                        if k is not None:
                            return k
            return None

        outs = []
        for st in ast.walk(f.node):
            if isinstance(st, ast.Assign) and any(isinstance(x, ast.Subscript) and isinstance(x.value, ast.Name) and x.value.id in rots for x in ast.walk(st.value)):
                outs.append(st)
        outs.sort(key=lambda st: st.lineno)
        if not outs:
            raise AnalysisError(f"{f.ref}: obtains the rotation matrix but its use is not a sum of products of entries and components")
        for i, st in enumerate(outs):
            terms = []

            def flat(e):
                if isinstance(e, ast.BinOp) and isinstance(e.op, ast.Add):
                    flat(e.left)
                    flat(e.right)
                else:
                    terms.append(e)

            flat(st.value)
            bad = []
            for t in terms:
                if not (isinstance(t, ast.BinOp) and isinstance(t.op, ast.Mult)):
                    raise AnalysisError(f"{f.ref}: term `{ast.unparse(t)[:50]}` of the hand-written rotation is not a product")
                sides = [t.left, t.right]
                entry = next((x for x in sides if isinstance(x, ast.Subscript) and isinstance(x.value, ast.Name) and x.value.id in rots), None)
                other = next((x for x in sides if x is not entry), None)
                if entry is None or not isinstance(entry.slice, ast.Tuple) or len(entry.slice.elts) != 2:
                    raise AnalysisError(f"{f.ref}: term `{ast.unparse(t)[:50]}` does not use an entry R[a, b]")
                a, b = const_value(entry.slice.elts[0]), const_value(entry.slice.elts[1])
                k = comp_index(other)
                if not isinstance(a, int) or not isinstance(b, int) or k is None:
                    raise AnalysisError(f"{f.ref}: cannot resolve `{ast.unparse(t)[:50]}` to (entry indices, component)")
                if a != k or b != i:
                    bad.append(f"`{ast.unparse(t)}` uses R[{a}, {b}] with local component {k} for Cartesian component {i} (needs R[{k}, {i}])")
            rep.oblige(f"{f.qualname}: Cartesian component {i} = sum_k v_k * R[k, {i}]", not bad, bad)
            if bad:
                rep.violation(
                    "C19.component-algebra",
                    f"{f.ref}::hand-written-rotation::component{i}",
                    f"{bad[0]}: the rows of basis_rotation are the basis vectors, so this applies the inverse rotation (e_r is mapped to (cos phi, -sin phi)); the result disagrees with _vector_to_cartesian",
                    line=st.lineno,
                )
    rep.note(f"hand-written consumers of the rotation matrix judged: {n}")


# closed coordinate domains: values at which a coordinate symbol of that name may sit on the boundary
_DOMAIN_EDGE = {"r": [0], "theta": [0, sp.pi], "sigma": [0, sp.pi], "phi": [0], "tau": [0], "x": [0], "y": [0], "z": [0]}


def divisor_may_vanish(d, mapping_divisors, coords):
    """None if the divisor `d` cannot vanish at an admissible point where the mapping is regular;
    otherwise the reason.  Decided per factor: a power of a coordinate vanishes on the edge of its
    closed domain; a factor that is a constant multiple of a divisor of the mapping shares the
    mapping's own singularity; anything else is outside the decidable class (analysis error)."""
    mfactors = []
    for m in mapping_divisors:
        for f in sp.Mul.make_args(sp.factor(m)):
            b = f.as_base_exp()[0]
            if not b.is_number:
                mfactors.append(b)
    for f in sp.Mul.make_args(sp.factor(d)):
        b = f.as_base_exp()[0]
        if b.is_number:
            continue
        if any(sp.simplify(b / m).is_number for m in mfactors):
            continue  # singular exactly where the mapping is
        if isinstance(b, sp.Symbol) and b in coords:
            edge = _DOMAIN_EDGE.get(b.name)
            if edge is None:
                raise AnalysisError(f"coordinate {b} has no declared closed domain")
            if 0 in edge:
                return f"which vanishes at {b} = 0"
            continue
        # a composite factor: look for a zero on the edges of the closed domain
        syms = sorted(b.free_symbols, key=str)
        import itertools as _it

        choices = [[(q, v) for v in _DOMAIN_EDGE.get(q.name, []) + [sp.Rational(3, 7)]] for q in syms]
        for combo in _it.product(*choices):
            sub = dict(combo)
            try:
                val = sp.simplify(b.subs(sub))
            except Exception:  # noqa: BLE001
                continue
            if val == 0 and not any(sp.simplify(m.subs(sub)) == 0 for m in mfactors):
                return f"whose factor `{b}` vanishes at {', '.join(f'{k} = {v}' for k, v in sub.items())}"
        if b.is_positive or b.is_negative:
            continue
        raise AnalysisError(f"cannot decide whether the divisor factor `{b}` vanishes on the coordinate domain")
    return None


def check(tier: str) -> Report:
    rep = Report("C19", tier, "proof", "sympy identities on extracted coordinate maps (orthonormality, handedness, basis = normalised Jacobian); index-space typing (component order vs coordinate-system order)")
    rep.explanation = (
        "(a) _pos_to_cart, _mapping_jacobian, _scale_factors and _basis_rotation of all six coordinate classes are interpreted from source on "
        "coordinate symbols; identities are decided modulo the Pythagorean ideals (Groebner reduction). (b) The component order COMP of each "
        "grid class (axes + symmetric axes) and the order COORD of its coordinate system are computed from the class attributes; every "
        "subscript of a COORD container by an index produced by get_axis_index and every einsum that contracts the component axis of a "
        "component array with a basis_rotation matrix is reported when COMP != COORD for some grid class (CylindricalSymGrid). "
        "(c) Every implementation of dot products (all four rank combinations), outer products, transposition and the basis change to Cartesian "
        "components -- field methods, numpy and numba back-end factories, coordinate classes -- is interpreted on arrays of distinct symbols "
        "(abstract interpretation with small concrete shapes, pdelint/npsem.py) with and without `out`, with and without conjugation; each "
        "computed entry must equal the defining index formula (out[i,j] = a[i]*b[j], out[j] = sum_i a[i]*b[i,j], ...)."
    )
    ix = get_index()
    check_bases(rep, ix)
    orders = grid_orders(ix)
    rep.sample({"component order vs coordinate order": orders})
    rep.floor("grid classes with a coordinate system", len(orders), 5)
    findings, sites, differing = index_space_findings(ix, orders)
    rep.floor("COORD-container / rotation-matrix use sites inspected", sites, 2)
    rep.oblige("grid classes whose component order differs from the coordinate order", True, differing)
    if differing:
        for rule, construct, msg, line in findings:
            rep.violation(rule, construct, msg, line=line)
    component_order_consistency(rep, ix)
    component_algebra(rep, ix)
    conversion_routes(rep, ix)
    rotation_consumers(rep, ix)
    rep.assumptions += [
        "tensor algebra is interpreted for (dim, grid shape) in {(2,(3,)), (3,(2,)), (3,(2,4))}: the operations are written with einsum ellipses / whole-slice stores and are uniform in the grid axes; numpy indexing, broadcasting and einsum semantics as documented",
        "theta in (0, pi), r > 0, sigma in (0, pi): chart domains of the coordinate systems",
        "index-space typing covers values produced by get_axis_index and parameters named `components`; other ways of producing component indices are not tracked",
    ]
    return rep

"""C12 -- grid geometry and coordinate transformations are self-consistent.

(a) discretize_interval == documented formula; (b) cell volumes: n-ball volumes, exact
integrals of the volume factor, telescoping sum == grid volume; coordinate classes'
volume factor / cell volume consistent with their own Jacobian; (c) pos_to_cart and
pos_from_cart mutually inverse; (d) transform: all nine (source, target) pairs, cell<->grid
inverse affine maps with centre -> index + 1/2; (e) normalize_point formulas (periodic
and reflect) match the range/idempotence templates, 1-axis and n-axis branches agree;
(f) integrate weights are the cell_volume_data factors of the integrated axes;
(g) distance: the periodic flags / bounds handed to _difference_vector are indexed by
Cartesian component and paired with the Cartesian direction of the periodic grid axis.
"""

from __future__ import annotations

import ast
import os
import itertools
import random

import sympy as sp

from ..core import AnalysisError, Report, run_sections
from ..coordsys import COORD_CLASSES, CoordExtract, PointVec, zero_test
from ..fx import IdxArr, Interp, Model, Opaque, RaisedInCode, Unsupported, Vec, make_grid_model, to_py
from ..index import const_value, dotted, get_index
from .c19 import grid_orders

BASE = "pde/grids/base.py"
GRIDS = {
    "CartesianGrid": ("pde/grids/cartesian.py", "CartesianCoordinates", (1, 2, 3)),
    "PolarSymGrid": ("pde/grids/spherical.py", "PolarCoordinates", (1,)),
    "SphericalSymGrid": ("pde/grids/spherical.py", "SphericalCoordinates", (1,)),
    "CylindricalSymGrid": ("pde/grids/cylindrical.py", "CylindricalCoordinates", (2,)),
}


def decide_rmin(cond, node):
    return None


# ----------------------------------------------------------------------------
def check_discretize(rep: Report, ix):
    f = ix.func(BASE, "discretize_interval")
    rep.saw("functions", f.ref)
    it = Interp(ix)
    it.np["arange"] = lambda n: IdxArr(IdxArr.K, n)
    x0, x1 = sp.Symbol("x_min", real=True), sp.Symbol("x_max", real=True)
    N = sp.Symbol("N", integer=True, positive=True)
    try:
        mids, dx = it.call(it.make_closure(f, it.module_env(f.module)), (x0, x1, N), {})
    except (Unsupported, RaisedInCode) as e:
        raise AnalysisError(f"{f.ref}: {e}") from e
    ok_dx = sp.simplify(it.as_expr(dx) - (x1 - x0) / N) == 0
    ok_mid = isinstance(mids, IdxArr) and sp.simplify(mids.expr - (x0 + (IdxArr.K + sp.Rational(1, 2)) * (x1 - x0) / N)) == 0 and sp.simplify(sp.sympify(mids.n) - N) == 0
    rep.oblige("discretize_interval: dx = (x_max - x_min)/N", ok_dx, str(dx))
    rep.oblige("discretize_interval: x_i = x_min + (i + 1/2) dx, i = 0..N-1", ok_mid, str(mids))
    if not ok_dx:
        rep.violation("C12.discretization", f"{f.ref}::dx", f"dx is `{dx}`, documented (x_max - x_min)/N")
    if not ok_mid:
        rep.violation("C12.discretization", f"{f.ref}::midpoints", f"cell centres are `{mids}`, documented x_min + (i + 1/2) dx for i = 0..N-1")


def check_ball_volumes(rep: Report, ix):
    f = ix.func("pde/grids/spherical.py", "volume_from_radius")
    rep.saw("functions", f.ref)
    r = sp.Symbol("r", positive=True)
    for dim in (1, 2, 3):
        it = Interp(ix)
        try:
            v = it.as_expr(it.call(it.make_closure(f, it.module_env(f.module)), (r,), {"dim": dim}))
        except (Unsupported, RaisedInCode) as e:
            raise AnalysisError(f"{f.ref}: {e}") from e
        want = sp.pi ** sp.Rational(dim, 2) / sp.gamma(sp.Rational(dim, 2) + 1) * r**dim
        ok = sp.simplify(v - want) == 0
        rep.oblige(f"volume_from_radius(dim={dim}) is the {dim}-ball volume", ok, str(v))
        if not ok:
            rep.violation("C12.ball-volume", f"{f.ref}::dim={dim}", f"volume_from_radius(r, {dim}) = `{v}`, the {dim}-ball has volume `{sp.simplify(want)}`")


def grid_model_for(ix, gname, n_axes, rmin=None):
    rel, cname, _ = GRIDS[gname]
    g = make_grid_model(ix, gname, n_axes, rel=rel)
    if rmin is not None:
        old = sp.Symbol("r_min", nonnegative=True)
        g._attrs["axes_coords"] = tuple(IdxArr(a.expr.subs(old, rmin), a.n) for a in g._attrs["axes_coords"])
        g._attrs["axes_bounds"] = tuple(tuple(sp.sympify(b).subs(old, rmin) for b in bb) for bb in g._attrs["axes_bounds"])
    return g


def check_cell_volumes(rep: Report, ix):
    for gname, (rel, cname, axes_list) in GRIDS.items():
        for n_axes in axes_list:
            g = grid_model_for(ix, gname, n_axes)
            it = Interp(ix)
            try:
                data = it.getattr(g, "cell_volume_data")
            except (Unsupported, RaisedInCode) as e:
                raise AnalysisError(f"{rel}::{gname}.cell_volume_data: {e}") from e
            data = list(data.items) if isinstance(data, Vec) else list(data)
            rep.saw("grid classes", f"{gname}/{n_axes}")
            ref = f"{rel}::{gname}.cell_volume_data"
            c = CoordExtract(ix, cname, n_axes if cname == "CartesianCoordinates" else None)
            vf = c.volume_factor()
            orders = {"CartesianCoordinates": list(range(n_axes))}
            sym = g._cls.find_attr("_axes_symmetric")
            symm = tuple(const_value(sym[1])) if sym else ()
            described = [i for i in range(c.dim) if i not in symm]
            if len(described) != n_axes:
                raise AnalysisError(f"{gname}: {len(described)} described axes, grid model has {n_axes}")
            # exact cell volume: integrate the volume factor over the cell and over the full range of symmetric coordinates
            idx = [sp.Symbol(f"i{k}", integer=True, nonnegative=True) for k in range(n_axes)]
            expr = vf
            limits_attr = c.cls.find_attr("coordinate_limits")
            for pos, q in enumerate(c.q):
                if pos in described:
                    k = described.index(pos)
                    h = g._attrs["discretization"].items[k]
                    centre = g._attrs["axes_coords"][k].at(idx[k])
                    expr = sp.integrate(expr, (q, centre - h / 2, centre + h / 2))
                else:
                    it2 = Interp(ix)
                    lim = it2.eval(limits_attr[1], it2.module_env(c.cls.module))
                    lo, hi = lim[pos]
                    expr = sp.integrate(expr, (q, it2.as_expr(lo), it2.as_expr(hi)))
            got = sp.Integer(1)
            for k, d in enumerate(data):
                got *= d.at(idx[k]) if isinstance(d, IdxArr) else it.as_expr(d)
            ok = sp.simplify(sp.expand(got - expr)) == 0
            rep.oblige(f"{gname}/{n_axes}: product of cell_volume_data = exact integral of the volume factor over the cell", ok, {"cell_volume_data": str(got), "exact": str(sp.simplify(expr))})
            if not ok:
                rep.violation("C12.cell-volume", f"{ref}::{n_axes}-axes", f"{gname}: cell volume `{sp.simplify(got)}` differs from the exact integral `{sp.simplify(expr)}` of the volume factor")
            if len(data) != n_axes:
                rep.violation("C12.cell-volume", f"{ref}::factors", f"{gname}: cell_volume_data has {len(data)} factors for {n_axes} axes")
            # telescoping sum == volume property
            total = got
            for k in range(n_axes):
                total = sp.summation(total, (idx[k], 0, g._attrs["shape"][k] - 1))
            for rmin_case, rmin in (("r_min=0", sp.Integer(0)), ("r_min>0", sp.Symbol("r_in", positive=True))):
                if gname == "CartesianGrid" and rmin_case == "r_min>0":
                    continue
                g2 = grid_model_for(ix, gname, n_axes, rmin if gname != "CartesianGrid" else None)
                if gname == "CartesianGrid":
                    size = Vec([n * h for n, h in zip(g2._attrs["shape"], g2._attrs["discretization"].items)])
                    g2._attrs["cuboid"] = Model("cuboid", {"size": size}, cls=ix.cls("pde/tools/cuboid.py", "Cuboid"))
                # a branch the symbols cannot decide must be right either way (it is feasible for some radius)
                vols = []
                for forced in (True, False):
                    it3 = Interp(ix)
                    it3.builtins["float"] = lambda x=0: it3.as_expr(x)
                    asked = []
                    it3.decide = lambda cond, node, forced=forced, asked=asked: asked.append(str(cond)) or forced
                    try:
                        vols.append((it3.as_expr(it3.getattr(g2, "volume")), list(asked)))
                    except (Unsupported, RaisedInCode) as e:
                        raise AnalysisError(f"{rel}::{gname}.volume: {e}") from e
                    if not asked:
                        break
                vol = vols[0][0]
                for vv, asked in vols[1:]:
                    if sp.simplify(vv - vol) != 0:
                        # report the variant that disagrees with the sum below
                        vol = vv if sp.simplify(sp.expand((total.subs(sp.Symbol("r_min", nonnegative=True), rmin) if gname != "CartesianGrid" else total) - vv)) != 0 else vol
                tot = total.subs(sp.Symbol("r_min", nonnegative=True), rmin) if gname != "CartesianGrid" else total
                ok = sp.simplify(sp.expand(tot - vol)) == 0
                rep.oblige(f"{gname}/{n_axes}:{rmin_case}: sum of cell volumes == volume", ok, {"sum": str(sp.simplify(tot)), "volume": str(vol)})
                if not ok:
                    rep.violation("C12.volume", f"{rel}::{gname}.volume::{rmin_case}", f"{gname} ({rmin_case}): cell volumes sum to `{sp.simplify(tot)}`, the `volume` property gives `{vol}`")


def coordinate_class_sections():
    import functools

    out = []
    for cname in COORD_CLASSES:
        dims = (1, 2, 3) if cname == "CartesianCoordinates" else (None,)
        for d in dims:
            out.append(functools.partial(check_coordinate_classes, only=(cname, d)))
    return out


def check_coordinate_classes(rep: Report, ix, only=None):
    for cname, rel in COORD_CLASSES.items():
        dims = (1, 2, 3) if cname == "CartesianCoordinates" else (None,)
        for d in dims:
            if only is not None and only != (cname, d):
                continue
            c = CoordExtract(ix, cname, d)
            tag = cname + (f"/{d}" if d else "")
            rep.saw("coordinate classes", tag)
            X = sp.Matrix(c.to_cart())
            Jd = X.jacobian(sp.Matrix(c.q))
            vf = c.volume_factor()
            det = Jd.det()
            ok = zero_test(vf**2 - det**2)
            rep.oblige(f"{tag}: volume factor = |det J|", ok, str(vf))
            if not ok:
                rep.violation("C12.volume-factor", f"{rel}::{cname}._volume_factor::value", f"{tag}: volume factor `{vf}` is not |det d(pos_to_cart)/dq| = `{sp.simplify(det)}`")
            h = c.scale_factors()
            prod = sp.Integer(1)
            for x in h:
                prod *= x
            ok = zero_test(prod - vf)
            rep.oblige(f"{tag}: volume factor = product of scale factors", ok, str(prod))
            if not ok:
                rep.violation("C12.volume-factor", f"{rel}::{cname}._scale_factors::product", f"{tag}: product of scale factors `{prod}` differs from the volume factor `{vf}`")
            if c.has("_cell_volume"):
                lo = [sp.Symbol(f"lo{k}", positive=True) for k in range(c.dim)]
                hi = [sp.Symbol(f"hi{k}", positive=True) for k in range(c.dim)]
                cv = c.cell_volume(lo, hi)
                expr = vf
                for q, a, b in zip(c.q, lo, hi):
                    expr = sp.integrate(expr, (q, a, b))
                ok = sp.simplify(sp.expand(cv - expr)) == 0
                rep.oblige(f"{tag}: _cell_volume = integral of the volume factor over the box", ok, str(cv))
                if not ok:
                    rep.violation("C12.cell-volume", f"{rel}::{cname}._cell_volume::value", f"{tag}: _cell_volume gives `{cv}`, the integral of the volume factor is `{sp.simplify(expr)}`")
            # inverse maps
            seed = rep.seed
            back = c.from_cart(list(X))
            exact = []
            for k, (b, q) in enumerate(zip(back, c.q)):
                res = None
                try:
                    res = sp.simplify(b - q)
                except Exception:  # noqa: BLE001
                    pass
                if res == 0:
                    exact.append(True)
                    rep.oblige(f"{tag}: pos_from_cart(pos_to_cart(q))[{k}] = q[{k}] (symbolic)", True)
                    continue
                # spot evaluation of the *extracted* term at random rational points of the chart
                rng = random.Random(seed * 1000 + k)
                ok = True
                for _ in range(12):
                    vals = {}
                    for s in c.q:
                        if s.name in ("theta", "sigma"):
                            vals[s] = sp.Rational(rng.randint(1, 30), 10)
                        elif s.name == "phi":
                            vals[s] = sp.Rational(rng.randint(1, 60), 10)
                        elif s.name == "r":
                            vals[s] = sp.Rational(rng.randint(1, 50), 10)
                        else:
                            vals[s] = sp.Rational(rng.randint(-30, 30), 10)
                    vals[sp.Symbol("a_scale", positive=True)] = sp.Rational(rng.randint(5, 30), 10)
                    num = sp.N((b - q).subs(vals), 30)
                    if q.name == "phi":
                        # angles are identified modulo the period 2*pi
                        turns = num / sp.N(2 * sp.pi, 30)
                        num = turns - round(turns)
                    if abs(num) > 1e-20:
                        ok = False
                        witness = {str(k_): str(v) for k_, v in vals.items()}
                        break
                rep.oblige(f"{tag}: pos_from_cart(pos_to_cart(q))[{k}] = q[{k}] (spot-evaluated on the extracted term)", ok)
                if not ok:
                    rep.violation("C12.inverse-map", f"{rel}::{cname}._pos_from_cart::component{k}", f"{tag}: pos_from_cart(pos_to_cart(q))[{k}] = `{b}` differs from q[{k}] at {witness}")


def check_transform(rep: Report, ix):
    f = ix.func(BASE, "GridBase.transform")
    rep.saw("functions", f.ref)
    for gname, (rel, cname, axes_list) in GRIDS.items():
        for n_axes in axes_list:
            g = grid_model_for(ix, gname, n_axes)
            log = []
            g._attrs["point_from_cartesian"] = lambda p: log.append("from_cart") or PointVec([sp.Symbol(f"g{k}") for k in range(n_axes)])
            g._attrs["point_to_cartesian"] = lambda p: log.append(("to_cart", p)) or PointVec([sp.Symbol(f"X{k}") for k in range(g._attrs["dim"])])
            pts = {
                "cartesian": PointVec([sp.Symbol(f"x{k}") for k in range(g._attrs["dim"])]),
                "grid": PointVec([sp.Symbol(f"q{k}") for k in range(n_axes)]),
                "cell": PointVec([sp.Symbol(f"c{k}") for k in range(n_axes)]),
            }
            res = {}
            for s, t in itertools.product(pts, repeat=2):
                it = Interp(ix)
                it.np["atleast_1d"] = lambda x: x
                it.np["array"] = lambda x, *a, **k: Vec([Vec(list(r)) if isinstance(r, (tuple, list)) else r for r in x]) if isinstance(x, (tuple, list)) else x
                try:
                    r = it.call(it.getattr(g, "transform"), (pts[s],), {"source": s, "target": t})
                except RaisedInCode as e:
                    rep.violation("C12.transform-pairs", f"{f.ref}::{s}->{t}", f"{gname}: transform(source={s!r}, target={t!r}) raises {e.exc_name}")
                    continue
                except Unsupported as e:
                    raise AnalysisError(f"{f.ref} [{gname} {s}->{t}]: {e}") from e
                if r is None:
                    rep.violation("C12.transform-pairs", f"{f.ref}::{s}->{t}", f"{gname}: transform(source={s!r}, target={t!r}) falls through without a result")
                    continue
                res[(s, t)] = r
            rep.oblige(f"{gname}/{n_axes}: all nine (source, target) pairs return", len(res) == 9, sorted(res))
            h = g._attrs["discretization"].items
            lo = [b[0] for b in g._attrs["axes_bounds"]]
            c2g = res.get(("cell", "grid"))
            g2c = res.get(("grid", "cell"))
            if c2g is not None and g2c is not None:
                c2g = [sp.sympify(x) for x in (c2g.items if isinstance(c2g, Vec) else c2g)]
                g2c = [sp.sympify(x) for x in (g2c.items if isinstance(g2c, Vec) else g2c)]
                ok1 = all(sp.simplify(c2g[k] - (lo[k] + sp.Symbol(f"c{k}") * h[k])) == 0 for k in range(n_axes))
                ok2 = all(sp.simplify(g2c[k].subs(sp.Symbol(f"q{k}"), c2g[k]) - sp.Symbol(f"c{k}")) == 0 for k in range(n_axes))
                centre = all(sp.simplify(g2c[k].subs(sp.Symbol(f"q{k}"), g._attrs["axes_coords"][k].at(sp.Symbol("i"))) - (sp.Symbol("i") + sp.Rational(1, 2))) == 0 for k in range(n_axes))
                rep.oblige(f"{gname}/{n_axes}: cell->grid is lo + c*h", ok1, [str(x) for x in c2g])
                rep.oblige(f"{gname}/{n_axes}: grid->cell inverts cell->grid", ok2, [str(x) for x in g2c])
                rep.oblige(f"{gname}/{n_axes}: cell centres map to index + 1/2", centre)
                if not (ok1 and ok2 and centre):
                    rep.violation("C12.cell-grid-map", f"{f.ref}::cell<->grid", f"{gname}: cell->grid = {c2g}, grid->cell = {g2c}; they must be mutually inverse affine maps sending cell centres to index + 1/2")
    # point_to_cartesian / point_from_cartesian compose c.pos_* with the symmetric-axes bookkeeping
    for name, inner, outer in (("point_to_cartesian", "_coords_full", "pos_to_cart"), ("point_from_cartesian", "pos_from_cart", "_coords_symmetric")):
        fn = ix.func(BASE, f"GridBase.{name}")
        rep.saw("functions", fn.ref)
        calls = [dotted(n.func).split(".")[-1] for n in ast.walk(fn.node) if isinstance(n, ast.Call)]
        ok = inner in calls and outer in calls
        rep.oblige(f"{name} composes {outer}({inner}(points))", ok, calls)
        if not ok:
            rep.violation("C12.transform-pairs", f"{fn.ref}::composition", f"{name} no longer composes {outer} with {inner}: calls {calls}")


def check_normalize(rep: Report, ix):
    """normalize_point interpreted with pdelint/npsem.py (numpy semantics on arrays of symbols): every combination of
    periodicity flags (1-3 axes), reflect on/off, and the point given as a scalar (1 axis), a single point and a batch"""
    import itertools as _it

    import numpy as _np

    from .. import npsem as ns

    f = ix.func(BASE, "GridBase.normalize_point")
    rep.saw("functions", f.ref)
    # the folding / reflection is done by in-place arithmetic on the converted array: the conversion of the caller's point must
    # produce floating-point numbers (integer coordinates `[3, 4]` are legitimate input; an integer array truncates every folded
    # value it is assigned) -- the symbolic interpretation below is blind to dtypes, so this is decided at the conversion site
    pname = f.node.args.args[1].arg
    convs = [st for st in ast.walk(f.node) if isinstance(st, ast.Assign) and len(st.targets) == 1 and isinstance(st.targets[0], ast.Name) and st.targets[0].id == pname and isinstance(st.value, ast.Call) and dotted(st.value.func) in ("np.asarray", "np.array", "np.asanyarray", "np.atleast_1d", "np.asfarray")]
    if not convs:
        raise AnalysisError(f"{f.ref}: conversion of `{pname}` to an array not found")
    conv = min(convs, key=lambda st: st.lineno)
    dt = next((kw.value for kw in conv.value.keywords if kw.arg == "dtype"), None)
    if dt is None and len(conv.value.args) >= 2:
        dt = conv.value.args[1]
    ok_dt = dotted(conv.value.func) == "np.asfarray" or (dt is not None and ast.unparse(dt) in ("np.double", "float", "np.float64", "np.float_", "'float'", '"float"', "np.longdouble", "'d'", '"d"'))
    rep.oblige("normalize_point converts the point to floating point before the in-place folding", ok_dt, ast.unparse(conv))
    if not ok_dt:
        rep.violation("C12.normalize-point", f"{f.ref}::conversion-dtype", f"`{ast.unparse(conv)}` keeps the dtype of the caller's point: for integer coordinates the folded / reflected values are assigned into an integer array and truncated (and bounds that are not integers are lost), so points are not mapped into the grid", line=conv.lineno)
    m = f.module
    scope_vars = {n: ns.Opaque(n) for n in list(m.imports) + list(m.functions) + list(m.classes) + list(m.assigns) if "." not in n}
    scope_vars["np"] = ns.NP
    n_cases = 0
    shown = 0
    for n_axes in (1, 2, 3):
        lo = [sp.Symbol(f"lo{k}", real=True) for k in range(n_axes)]
        L = [sp.Symbol(f"L{k}", positive=True) for k in range(n_axes)]
        hi = [a + b for a, b in zip(lo, L)]
        for flags in _it.product((False, True), repeat=n_axes):
            for reflect in (False, True):
                shapes = [(n_axes,), (2, n_axes)] + ([()] if n_axes == 1 else [])
                if os.environ.get("PDELINT_TIER") == "thorough":
                    shapes += [(3, 2, n_axes), (1, n_axes)]
                for shape in shapes:
                    pt = ns.sym_array("p", shape, real=True) if shape else sp.Symbol("p", real=True)
                    orig = pt.copy() if shape else pt
                    grid = ns.Stub("grid", axes_bounds=tuple((a, b) for a, b in zip(lo, hi)), periodic=list(flags), num_axes=n_axes, __kind__=("GridBase",))
                    sem = ns.NpSem(where=f.ref)
                    mode = f"{n_axes}-axes:periodic={flags}:reflect={reflect}:point{shape}"
                    try:
                        res = sem.run_function(f.node, {}, (grid, pt), {"reflect": reflect}, outer=ns.Scope(scope_vars))
                    except ns.Raised as e:
                        rep.oblige(f"normalize_point:{mode}", False, e.what)
                        rep.violation("C12.normalize-point", f"{f.ref}::raises::{n_axes}-axes", f"normalize_point raises `{e.what}` for {mode}")
                        continue
                    except ns.Unsupported as e:
                        raise AnalysisError(f"{f.ref} [{mode}]: {e}") from e
                    n_cases += 1
                    res = _np.asarray(res, dtype=object)
                    o = _np.asarray(orig, dtype=object)
                    if res.shape != o.shape:
                        rep.oblige(f"normalize_point:{mode}", False, f"shape {res.shape}")
                        rep.violation("C12.normalize-point", f"{f.ref}::shape::{n_axes}-axes", f"normalize_point returns shape {res.shape} for a point of shape {o.shape} ({mode})")
                        continue
                    bad = None
                    for idx in _np.ndindex(o.shape) if o.shape else [()]:
                        k = idx[-1] if idx else 0
                        p = o[idx]
                        if flags[k]:
                            want = lo[k] + sp.Mod(p - lo[k], L[k])
                            what = "periodic axis: x_min + ((p - x_min) mod L) -- in [x_min, x_max), identity there, moves by whole periods (also when reflect=True)"
                        elif reflect:
                            want = lo[k] + sp.Abs(sp.Mod(p - hi[k], 2 * L[k]) - L[k])
                            what = "non-periodic axis with reflect: x_min + |((p - x_max) mod 2L) - L| -- in [x_min, x_max], identity there, moves by reflections"
                        else:
                            want = p
                            what = "non-periodic axis without reflect: unchanged"
                        if sp.simplify(sp.expand(sp.sympify(res[idx]) - want)) != 0:
                            bad = (k, res[idx], want, what)
                            break
                    rep.oblige(f"normalize_point:{mode}", bad is None, None if bad is None else str(bad[1]))
                    if bad is not None:
                        k, got, want, what = bad
                        kind = "periodic" if flags[k] else ("reflect" if reflect else "plain")
                        rep.violation(
                            "C12.normalize-point",
                            f"{f.ref}::{kind}::{n_axes}-axes",
                            f"normalize_point ({mode}), axis {k}: computes `{got}`; required template {what}, i.e. `{want}`",
                        )
                    elif shown < 3 and any(flags) and reflect:
                        shown += 1
                        rep.sample({"normalize_point": mode, "result": [str(x) for x in res.ravel()][:4]})
    rep.floor("normalize_point cases (flags x reflect x point shapes)", n_cases, 60)


def check_integrate(rep: Report, ix):
    """GridBase.integrate interpreted with pdelint/npsem.py on arrays of distinct symbols: for Cartesian (scalar cell
    extents, 1-3 axes), cylindrical-like (array, scalar) and spherical-like (array,) cell_volume_data, data of rank 0
    and 1 (and a plain number), and every selection of axes (None, int, tuples): each entry of the result must be the
    sum over the integrated grid axes of data times the cell-volume factors of exactly those axes."""
    import functools as _ft
    import itertools as _it

    import numpy as _np

    from .. import npsem as ns

    f = ix.func(BASE, "GridBase.integrate")
    rep.saw("functions", f.ref)
    m = f.module
    scope_vars = {n: ns.Opaque(n) for n in list(m.imports) + list(m.functions) + list(m.classes) + list(m.assigns) if "." not in n}
    scope_vars["np"] = ns.NP
    scope_vars["functools"] = ns.Stub("functools", reduce=lambda fn, seq: _ft.reduce(fn, list(seq)))
    configs = [
        ("cartesian/1", (2,), ["s"]),
        ("cartesian/2", (2, 3), ["s", "s"]),
        ("cartesian/3", (2, 3, 2), ["s", "s", "s"]),
        ("cylindrical", (2, 3), ["a", "s"]),
        ("spherical", (3,), ["a"]),
    ]
    n_cases = 0
    for name, shape, kinds in configs:
        n_axes = len(shape)
        cvd = []
        for k, kind in enumerate(kinds):
            cvd.append(sp.Symbol(f"w{k}", positive=True) if kind == "s" else ns.sym_array(f"w{k}", (shape[k],), positive=True))

        def weight(k, i):
            return cvd[k] if kinds[k] == "s" else cvd[k][i]

        vols = _np.empty(shape, dtype=object)
        for idx in _np.ndindex(shape):
            vols[idx] = sp.Mul(*[weight(k, idx[k]) for k in range(n_axes)])
        axes_choices = [None] + list(range(n_axes)) + [c for r in range(1, n_axes + 1) for c in _it.combinations(range(n_axes), r)]
        for rank in (0, 1, "number") + ((2,) if os.environ.get("PDELINT_TIER") == "thorough" else ()):
            for axes in axes_choices:
                if rank == "number":
                    data = 1
                    d = _np.empty(shape, dtype=object)
                    d[...] = sp.Integer(1)
                    lead = ()
                else:
                    lead = (2,) * rank
                    data = ns.sym_array("u", lead + shape)
                    d = data.copy()
                grid = ns.Stub("grid", shape=shape, num_axes=n_axes, cell_volume_data=tuple(cvd), cell_volumes=vols.copy(), _mesh=None, __kind__=("GridBase",))
                sem = ns.NpSem(where=f.ref)
                tag = f"integrate:{name}:rank={rank}:axes={axes}"
                try:
                    res = sem.run_function(f.node, {}, (grid, data), {"axes": axes}, outer=ns.Scope(scope_vars))
                except ns.Raised as e:
                    rep.oblige(tag, False, e.what)
                    rep.violation("C12.integrate-weights", f"{f.ref}::raises::{name}", f"{tag}: integrate raises `{e.what}`")
                    continue
                except ns.Unsupported as e:
                    raise AnalysisError(f"{f.ref} [{tag}]: {e}") from e
                n_cases += 1
                A = tuple(range(n_axes)) if axes is None else ((axes,) if isinstance(axes, int) else tuple(axes))
                kept = [k for k in range(n_axes) if k not in A]
                want = _np.empty(lead + tuple(shape[k] for k in kept), dtype=object)
                for oidx in _np.ndindex(want.shape):
                    comp, kidx = oidx[: len(lead)], oidx[len(lead) :]
                    tot = sp.Integer(0)
                    for iidx in _it.product(*[range(shape[k]) for k in A]):
                        full = [None] * n_axes
                        for k, v in zip(kept, kidx):
                            full[k] = v
                        for k, v in zip(A, iidx):
                            full[k] = v
                        tot += d[comp + tuple(full)] * sp.Mul(*[weight(k, full[k]) for k in A])
                    want[oidx] = sp.expand(tot)
                got = _np.asarray(res, dtype=object)
                diff = ns.arrays_equal(got, want)
                rep.oblige(tag + ": sum over the integrated axes with the cell-volume factors of those axes", not diff, None if not diff else str(diff[0])[:200])
                if diff:
                    if diff[0][0] == "shape":
                        msg = f"result has shape {diff[0][1]}, expected {diff[0][2]}"
                    else:
                        msg = f"entry {tuple(diff[0][0])} is `{diff[0][1]}`, expected `{diff[0][2]}`"
                    rep.violation(
                        "C12.integrate-weights",
                        f"{f.ref}::{name}::rank={rank}::axes={'all' if axes is None else 'explicit'}",
                        f"{tag}: {msg} (u = data entries with component indices first, w<k> = cell-volume factor of grid axis k): the weights or the summation axes do not belong to the integrated grid axes",
                    )
    rep.floor("integrate cases (grid kinds x data rank x axes selections)", n_cases, 80)


def check_difference_vector(rep: Report, ix):
    """(g) periodic flags / bounds handed to _difference_vector are Cartesian-indexed"""
    orders = grid_orders(ix)
    base = ix.cls(BASE, "GridBase")
    loop = ix.func(BASE, "GridBase._difference_vector")
    rep.saw("functions", loop.ref)
    # the loop pairs periodic[i] / axes_bounds[i] with Cartesian component i of the difference
    n_sites = 0
    for g in ix.subclasses(base):
        for f in g.methods.get("difference_vector", []):
            for node in ast.walk(f.node):
                if not (isinstance(node, ast.Call) and dotted(node.func).endswith("_difference_vector")):
                    continue
                n_sites += 1
                rep.saw("difference_vector sites", f.ref)
                kw = {k.arg: k.value for k in node.keywords if k.arg}
                # classes this definition serves: g and subclasses not overriding it
                served = [c for c in ix.subclasses(g) if c.find_method("difference_vector") is f]
                for c in served:
                    sym = c.find_attr("_axes_symmetric")
                    symm = tuple(const_value(sym[1])) if sym else ()
                    has_symmetric = bool(symm)
                    for argname in ("periodic", "axes_bounds"):
                        v = kw.get(argname)
                        if v is None:
                            rep.violation("C12.difference-vector", f"{f.ref}::{argname}", f"`{argname}` is not passed to _difference_vector")
                            continue
                        txt = ast.unparse(v)
                        kind = classify_index_space(v)
                        ok = True
                        why = ""
                        if kind == "AXES" and has_symmetric:
                            ok = False
                            why = (
                                f"`{argname}={txt}` is indexed by grid axis (length num_axes) but _difference_vector indexes it by Cartesian component "
                                f"(length dim): on {c.name} (symmetric axes {symm}) the flag of grid axis k is applied to Cartesian component k"
                            )
                        elif kind == "LITERAL":
                            n = len(v.elts)
                            dim = c.find_attr("dim")
                            cname = orders.get(c.name, {}).get("coord_cls")
                            cdim = None
                            if cname and cname != "CartesianCoordinates":
                                cdim = const_value(ix.cls(COORD_CLASSES[cname], cname).find_attr("dim")[1])
                            if cdim is not None and n != cdim:
                                ok = False
                                why = f"`{argname}={txt}` has {n} entries, the grid has dim {cdim}"
                            elif cdim is not None:
                                ok, why = literal_pairs_periodic_axis(ix, c, cname, argname, v)
                        rep.oblige(f"difference_vector:{c.name}:{argname} is Cartesian-indexed", ok, txt)
                        if not ok:
                            rep.violation("C12.difference-vector", f"{f.ref}::{argname}", f"{c.name}.difference_vector: {why}", line=node.lineno)
    rep.floor("difference_vector definitions calling _difference_vector", n_sites, 3)
    # every returning path of an override on a grid class that can have periodic axes reaches _difference_vector with the
    # class's own periodicity flags; a path that takes the un-wrapped difference (super() / base call with all-False flags)
    # must have established that *no* axis is periodic (`not any(self.periodic)`) -- `not all(...)` does not imply that
    from ..cfg_lite import all_paths

    n_paths = 0
    for g in ix.subclasses(base, strict=True):
        for f in g.methods.get("difference_vector", []):

            def ev(st):
                return "return" if isinstance(st, ast.Return) else None

            for path, oc in all_paths(f.node, event=ev):
                if oc != "return":
                    continue
                ret = next((st for k, st in path.events if k == "return"), None)
                if ret is None or ret.value is None:
                    continue
                n_paths += 1
                v = ret.value
                wraps = isinstance(v, ast.Call) and dotted(v.func).endswith("._difference_vector") and not dotted(v.func).startswith("super")
                if wraps:
                    continue

                def no_periodic(t, pol):
                    neg = False
                    while isinstance(t, ast.UnaryOp) and isinstance(t.op, ast.Not):
                        neg = not neg
                        t = t.operand
                    is_any = isinstance(t, ast.Call) and dotted(t.func) in ("any", "np.any") and t.args and "periodic" in ast.unparse(t.args[0])
                    return is_any and (pol == neg)  # any(periodic) evaluated False

                ok = any(no_periodic(t, pol) for t, pol in path.tests)
                conds = [("" if pol else "not ") + ast.unparse(t)[:50] for t, pol in path.tests]
                rep.oblige(f"{f.qualname}: un-wrapped path only without periodic axes", ok, conds)
                if not ok:
                    rep.violation(
                        "C12.difference-vector",
                        f"{f.ref}::unwrapped-path",
                        f"`{ast.unparse(v)[:70]}` is returned under {conds or 'no condition'}: this path skips the periodic wrap although the condition does not rule out periodic axes "
                        "(mixed periodicity): distances across the seam exceed half a period and change under period shifts",
                        line=ret.lineno,
                    )
    rep.floor("returning paths of difference_vector overrides", n_paths, 2)


def check_wrap_formula(rep: Report, ix):
    """the periodic wrap of one Cartesian difference component: d -> ((d + L/2) mod L) - L/2,
    i.e. a representative in [-L/2, L/2) that differs from d by a whole number of periods"""
    f = ix.func(BASE, "GridBase._difference_vector")
    rep.saw("functions", f.ref)
    it = Interp(ix)
    it.np["atleast_1d"] = lambda x: x
    p1 = PointVec([sp.Symbol(f"a{k}", real=True) for k in range(3)])
    p2 = PointVec([sp.Symbol(f"b{k}", real=True) for k in range(3)])
    lo = [sp.Symbol(f"lo{k}", real=True) for k in range(3)]
    L = [sp.Symbol(f"L{k}", positive=True) for k in range(3)]
    g = Model("grid", {"dim": 3, "transform": lambda p, source=None, target=None: p, "axes_bounds": tuple((lo[k], lo[k] + L[k]) for k in range(3))}, cls=ix.cls(BASE, "GridBase"))
    periodic = [True, False, True]
    try:
        diff = it.call(it.getattr(g, "_difference_vector"), (p1, p2), {"coords": "cartesian", "periodic": periodic, "axes_bounds": None})
    except (Unsupported, RaisedInCode) as e:
        raise AnalysisError(f"{f.ref}: {e}") from e
    items = list(diff.items) if isinstance(diff, Vec) else list(diff)
    for k in range(3):
        d = sp.Symbol(f"b{k}", real=True) - sp.Symbol(f"a{k}", real=True)
        want = sp.Mod(d + L[k] / 2, L[k]) - L[k] / 2 if periodic[k] else d
        ok = sp.simplify(sp.sympify(items[k]) - want) == 0
        rep.oblige(f"difference component {k}: {'wrapped into [-L/2, L/2)' if periodic[k] else 'plain difference'}", ok, str(items[k]))
        if not ok:
            rep.violation("C12.difference-wrap", f"{f.ref}::component-wrap", f"Cartesian difference component {k} (periodic={periodic[k]}) is `{items[k]}`; required `{want}` (never more than half a period, antisymmetric up to the half-open end, invariant under period shifts)")


def classify_index_space(v: ast.expr) -> str:
    txt = ast.unparse(v)
    if txt in ("self.periodic", "self.axes_bounds", "self._periodic", "self._axes_bounds"):
        return "AXES"
    if isinstance(v, ast.BinOp) and isinstance(v.op, ast.Mult) and "self.dim" in txt:
        return "CART"
    if isinstance(v, ast.Constant) and v.value is None:
        return "DEFAULT"
    if isinstance(v, (ast.List, ast.Tuple)):
        return "LITERAL"
    return "UNKNOWN"


def literal_pairs_periodic_axis(ix, c, cname, argname, v):
    """entries of a literal list: position i must be the Cartesian direction of the grid axis whose flag / bounds it carries"""
    ce = CoordExtract(ix, cname)
    X = ce.to_cart()
    sym = c.find_attr("_axes_symmetric")
    symm = tuple(const_value(sym[1])) if sym else ()
    described = [i for i in range(ce.dim) if i not in symm]
    for i, e in enumerate(v.elts):
        txt = ast.unparse(e)
        if isinstance(e, ast.Constant) and e.value in (False, None):
            continue
        # self.periodic[k] / self.axes_bounds[k] / self._periodic_z ...
        k = None
        if isinstance(e, ast.Subscript) and ast.unparse(e.value) in ("self.periodic", "self.axes_bounds", "self._periodic", "self._axes_bounds"):
            try:
                k = const_value(e.slice)
            except ValueError:
                return False, f"`{txt}`: index is not constant"
        elif txt.startswith("self._periodic_") or txt.startswith("self.periodic_"):
            name = txt.split("_")[-1]
            axes = [ce.axes[j] for j in described]
            if name in axes:
                k = axes.index(name)
        if k is None:
            return False, f"entry {i} of `{argname}` is `{txt}`, cannot be tied to a grid axis"
        q = ce.q[described[k]]
        # translation along grid axis k must be the translation along Cartesian component i
        ok = sp.simplify(sp.diff(X[i], q) - 1) == 0 and all(sp.simplify(sp.diff(X[j], q)) == 0 for j in range(ce.dim) if j != i)
        if not ok:
            return False, f"entry {i} of `{argname}` carries grid axis {k} ({ce.axes[described[k]]}) but that axis is not the Cartesian direction {i} (pos_to_cart = {X})"
    return True, ""



# ----------------------------------------------------------------------------
# (h) sub-grids of retained axes (slice) and projection
# ----------------------------------------------------------------------------
# constructor parameter -> the piece of identity it must receive for the retained axes
# (confirmed by reading the constructors; the parameter lists are re-checked on every run)
SLICE_TARGETS = {
    "CartesianGrid": {"bounds": "bounds-list", "shape": "shape", "periodic": "periodic"},
    "UnitGrid": {"shape": "shape", "periodic": "periodic"},
    "PolarSymGrid": {"radius": "bounds-pair", "shape": "shape"},
    "SphericalSymGrid": {"radius": "bounds-pair", "shape": "shape"},
}


def _retained_axis(tests) -> int | None:
    """axis k established by a branch decision `indices[0] == k` on the path"""
    for t, pol in tests:
        if isinstance(t, ast.Compare) and len(t.ops) == 1 and isinstance(t.ops[0], ast.Eq) and pol:
            l, r = t.left, t.comparators[0]
            if isinstance(l, ast.Subscript) and isinstance(l.value, ast.Name) and const_value(l.slice) == 0 and isinstance(const_value(r), int):
                return const_value(r)
    return None


def _has_unknown(v) -> bool:
    from ..gridleaf import Seq, Unknown

    if isinstance(v, Unknown):
        return True
    if isinstance(v, Seq):
        return any(_has_unknown(i) for i in v.items)
    return False


def check_slice_project(rep: Report, ix):
    from ..cfg_lite import all_paths
    from ..gridleaf import Const, Gather, LeafEval, Leaf, Seq, pair

    base = ix.cls(BASE, "GridBase")
    n_paths = 0
    for c in ix.subclasses(base, strict=True):
        if "slice" not in c.methods or not c.module.rel.startswith("pde/grids/"):
            continue
        f = c.methods["slice"][0]
        rep.saw("functions", f.ref)
        params = [a.arg for a in f.node.args.args]
        if len(params) != 2:
            raise AnalysisError(f"{f.ref}: expected slice(self, indices)")
        ind = params[1]

        def event(st):
            if isinstance(st, ast.Assign) and len(st.targets) == 1:
                return "assign"
            if isinstance(st, ast.Return):
                return "return"
            return None

        for path, oc in all_paths(f.node, event=event):
            if oc != "return":
                continue
            le = LeafEval(ix, c)
            env: dict = {}
            ctor = {}  # local name -> constructor call
            axes_set = {}
            ret = None
            for kind, st in path.events:
                if kind == "return":
                    ret = st
                    continue
                t = st.targets[0]
                if isinstance(t, ast.Name) and isinstance(st.value, ast.Call):
                    ctor[t.id] = st.value
                elif isinstance(t, ast.Attribute) and isinstance(t.value, ast.Name) and t.attr == "axes":
                    axes_set[t.value.id] = st.value
                else:
                    le.bind(t, le.ev(st.value, env), env)
            if ret is None or ret.value is None:
                continue
            call = ret.value if isinstance(ret.value, ast.Call) else ctor.get(ret.value.id) if isinstance(ret.value, ast.Name) else None
            if call is None:
                raise AnalysisError(f"{f.ref}: the returned sub-grid is not the result of a constructor call on this path (line {ret.lineno})")
            n_paths += 1
            tname = dotted(call.func)
            target = c.name if tname in ("self.__class__", "type(self)", "cls") else tname.split(".")[-1]
            if target not in SLICE_TARGETS:
                raise AnalysisError(f"{f.ref}: sub-grid class `{tname}` is not in the table of slice targets")
            tcls = next((k for k in ix.all_classes() if k.name == target and k.module.rel.startswith("pde/grids/")), None)
            init = tcls.find_method("__init__") if tcls else None
            if init is None:
                raise AnalysisError(f"{f.ref}: constructor of {target} not found")
            iparams = [a.arg for a in init.node.args.args][1:]
            table = SLICE_TARGETS[target]
            if not set(table) <= set(iparams):
                raise AnalysisError(f"{init.ref}: parameters {iparams} no longer match the slice-target table {sorted(table)}")
            given = dict(zip(iparams, call.args))
            given.update({k.arg: k.value for k in call.keywords if k.arg})
            k_axis = _retained_axis(path.tests)
            tag = f"{c.name}.slice -> {target}" + (f" (axis {k_axis})" if k_axis is not None else " (gather over indices)")
            rep.saw("slice paths", tag)
            for p, want in table.items():
                arg = given.get(p)
                construct = f"{f.ref}::{target}.{p}" + (f"::axis{k_axis}" if k_axis is not None else "")
                if arg is None:
                    dflt_ok = False
                    if want == "periodic":
                        # omitting `periodic` is right only if the retained axis can never be periodic
                        per = c.find_attr("_periodic")
                        dflt_ok = False
                    rep.oblige(f"{tag}: {p} passed", dflt_ok, "parameter omitted")
                    rep.violation("C12.slice-preserves-axes", construct, f"{tag}: constructor parameter `{p}` of the sub-grid is not passed, so the {want} of the retained axis is replaced by the default", line=call.lineno)
                    continue
                got = le.ev(arg, env)
                # a reader property used here must be lossless as well
                for col in le.collapses:
                    lossy = [d for d in col.dropped if d not in col.exact]
                    if lossy:
                        rep.violation(
                            "C12.slice-preserves-axes",
                            construct + "::lossy-reader",
                            f"{tag}: `{p}` is taken from `{col.prop}`, which drops {[str(d) for d in lossy]} under `{col.condition}` without that condition fixing their value",
                            line=col.line,
                        )
                le.collapses.clear()
                if k_axis is None:
                    accepted = {
                        "bounds-list": [Gather("bounds", ind)],
                        "shape": [Gather("shape", ind)],
                        "periodic": [Gather("periodic", ind)],
                        "bounds-pair": [],
                    }[want]
                else:
                    accepted = {
                        "bounds-list": [Seq((pair(k_axis),))],
                        "bounds-pair": [pair(k_axis)],
                        "shape": [Leaf("shape", k_axis), Seq((Leaf("shape", k_axis),))],
                        "periodic": [Leaf("periodic", k_axis), Seq((Leaf("periodic", k_axis),))],
                    }[want]
                ok = got in accepted
                if not ok and _has_unknown(got):
                    raise AnalysisError(f"{f.ref}: cannot tell which part of the grid `{p}={ast.unparse(arg)}` carries ({got}); idiom outside the leaf domain")
                rep.oblige(f"{tag}: `{p}` = {want} of the retained axes", ok, f"{ast.unparse(arg)} carries {got}")
                if not ok:
                    rep.violation(
                        "C12.slice-preserves-axes",
                        construct,
                        f"{tag}: `{p}={ast.unparse(arg)}` carries {got}; the sub-grid must receive {' or '.join(str(a) for a in accepted)} (bounds, shape and periodicity of every retained axis unchanged), "
                        "otherwise projected/sliced fields live on a grid with other cell centres and volumes and their integral changes",
                        line=call.lineno,
                    )
            # axis names, if reassigned, must be those of the retained axes
            if isinstance(ret.value, ast.Name) and ret.value.id in axes_set:
                got = le.ev(axes_set[ret.value.id], env)
                accepted = [Gather("axes", ind)] if k_axis is None else [Seq((Leaf("axes", k_axis),))]
                ok = got in accepted
                rep.oblige(f"{tag}: axis names of the retained axes", ok, str(got))
                if not ok:
                    rep.violation("C12.slice-preserves-axes", f"{f.ref}::{target}.axes", f"{tag}: the sub-grid's axes are set to {got}, expected {accepted[0]}", line=ret.lineno)
    rep.floor("returning paths of grid slice methods", n_paths, 4)
    # --- projection: integrate over exactly the axes that slice() does not retain
    for qn in ("ScalarField.project", "ScalarField.slice"):
        f = ix.func("pde/fields/scalar.py", qn)
        rep.saw("functions", f.ref)
        defs = {}
        for st in ast.walk(f.node):
            if isinstance(st, ast.Assign) and len(st.targets) == 1:
                t = st.targets[0]
                if isinstance(t, ast.Name):
                    defs.setdefault(t.id, []).append(st.value)
                elif isinstance(t, ast.Tuple) and isinstance(st.value, ast.Tuple) and len(t.elts) == len(st.value.elts):
                    for a, b in zip(t.elts, st.value.elts):
                        if isinstance(a, ast.Name):
                            defs.setdefault(a.id, []).append(b)
        slices = [n for n in ast.walk(f.node) if isinstance(n, ast.Call) and isinstance(n.func, ast.Attribute) and n.func.attr == "slice" and dotted(n.func.value) in ("self.grid", "grid")]
        if len(slices) != 1 or len(slices[0].args) != 1 or not isinstance(slices[0].args[0], ast.Name):
            raise AnalysisError(f"{f.ref}: expected one call grid.slice(<name>)")
        retain = slices[0].args[0].id
        rdef = defs.get(retain, [])
        # ax_retain = tuple(sorted(set(ax_all) - set(ax_remove))) with ax_all = range(num_axes)
        ok = False
        removed_name = None
        if len(rdef) == 1:
            subs = [n for n in ast.walk(rdef[0]) if isinstance(n, ast.BinOp) and isinstance(n.op, ast.Sub)]
            if len(subs) == 1:
                l, r = subs[0].left, subs[0].right
                ln = [n.id for n in ast.walk(l) if isinstance(n, ast.Name) and n.id != "set"]
                rn = [n.id for n in ast.walk(r) if isinstance(n, ast.Name) and n.id != "set"]
                if len(ln) == 1 and len(rn) == 1:
                    alld = defs.get(ln[0], [])
                    is_all = len(alld) == 1 and isinstance(alld[0], ast.Call) and dotted(alld[0].func) == "range" and len(alld[0].args) == 1 and ast.unparse(alld[0].args[0]).endswith("grid.num_axes")
                    sorted_ = any(isinstance(n, ast.Call) and dotted(n.func) == "sorted" for n in ast.walk(rdef[0]))
                    ok = is_all and sorted_
                    removed_name = rn[0]
        rep.oblige(f"{qn}: retained axes = sorted(all axes - removed axes)", ok, ast.unparse(rdef[0]) if rdef else None)
        if not ok:
            rep.violation("C12.project-axes", f"{f.ref}::retained-axes", f"{qn}: the axes handed to grid.slice are `{ast.unparse(rdef[0]) if rdef else retain}`; expected the sorted complement of the removed axes in range(grid.num_axes)", line=slices[0].lineno)
            continue
        if qn.endswith("project"):
            ints = [n for n in ast.walk(f.node) if isinstance(n, ast.Call) and isinstance(n.func, ast.Attribute) and n.func.attr == "integrate"]
            red = [n for n in ast.walk(f.node) if isinstance(n, ast.Call) and dotted(n.func) in ("np.max", "np.min", "np.sum", "np.mean")]
            bad = []
            for n in ints:
                ax = next((k.value for k in n.keywords if k.arg == "axes"), n.args[1] if len(n.args) > 1 else None)
                if not (isinstance(ax, ast.Name) and ax.id == removed_name):
                    bad.append(ast.unparse(n))
            for n in red:
                ax = next((k.value for k in n.keywords if k.arg == "axis"), None)
                if not (isinstance(ax, ast.Name) and ax.id == removed_name):
                    bad.append(ast.unparse(n))
            rep.floor("integrate calls in ScalarField.project", len(ints), 2)
            rep.oblige("project: every reduction runs over exactly the removed axes", not bad, bad)
            for b in bad:
                rep.violation("C12.project-axes", f"{f.ref}::reduction-axes", f"project reduces with `{b}`, not over the removed axes `{removed_name}` that the sliced grid lacks", line=f.node.lineno)
    # --- radial factor of the cylinder equals the polar cell volume (so that V_cyl = V_polar x dz)
    vols = {}
    for gname in ("PolarSymGrid", "CylindricalSymGrid"):
        g = grid_model_for(ix, gname, GRIDS[gname][2][0])
        it = Interp(ix)
        try:
            data = it.getattr(g, "cell_volume_data")
        except (Unsupported, RaisedInCode) as e:
            raise AnalysisError(f"{gname}.cell_volume_data: {e}") from e
        data = list(data.items) if isinstance(data, Vec) else list(data)
        i0 = sp.Symbol("i0", integer=True, nonnegative=True)
        vols[gname] = data[0].at(i0) if isinstance(data[0], IdxArr) else it.as_expr(data[0])
    ok = sp.simplify(sp.expand(vols["PolarSymGrid"] - vols["CylindricalSymGrid"])) == 0
    rep.oblige("radial cell-volume factor of CylindricalSymGrid = cell volume of the PolarSymGrid with the same radial axis", ok, {k: str(v) for k, v in vols.items()})
    if not ok:
        rep.violation("C12.project-volume", f"{GRIDS['CylindricalSymGrid'][0]}::CylindricalSymGrid.cell_volume_data::radial", f"radial factor {vols['CylindricalSymGrid']} differs from the polar cell volume {vols['PolarSymGrid']}: projecting along z changes the integral")


def check_random_point_range(rep: Report, ix):
    """"points generated inside the grid are reported as contained": the radial (and axial) coordinate of get_random_point is
    drawn as f(uniform(f^-1(lo), f^-1(hi))) with lo/hi computed from the bounds and boundary_distance >= 0.  Obligations on the
    extracted terms (sympy, r_inner >= 0, r_outer > 0, boundary_distance >= 0, both values of avoid_center, dim 2 and 3): the
    draw at u = 0 equals lo and at u = 1 equals hi (the transformation is undone consistently), lo >= lower bound and
    hi <= upper bound of the axis -- so every point lies between the bounds of the grid (a hole is never entered)."""
    sites = [("pde/grids/spherical.py", "SphericalSymGridBase.get_random_point", ["r"]), ("pde/grids/cylindrical.py", "CylindricalSymGrid.get_random_point", ["r", "z"])]
    U = sp.Symbol("u_draw", nonnegative=True)
    bd = sp.Symbol("boundary_distance", nonnegative=True)
    n = 0
    for rel, qn, coords in sites:
        f = ix.func(rel, qn)
        rep.saw("functions", f.ref)
        for avoid in (False, True):
            for dim in ((2, 3) if "Spherical" in qn else (3,)):
                lo = [sp.Symbol("r_inner", nonnegative=True), sp.Symbol("z_lo", real=True)]
                ext = [sp.Symbol("r_width", positive=True), sp.Symbol("z_width", positive=True)]
                hi = [a + b for a, b in zip(lo, ext)]
                env = {"boundary_distance": bd, "avoid_center": avoid}

                def ev(e):
                    if isinstance(e, ast.Constant) and isinstance(e.value, (int, float)):
                        return sp.nsimplify(e.value, rational=True)
                    if isinstance(e, ast.Name):
                        if e.id in env:
                            return env[e.id]
                        raise Unsupported(f"name {e.id}")
                    if isinstance(e, ast.Attribute):
                        if ast.unparse(e) == "self.dim":
                            return sp.Integer(dim)
                        if ast.unparse(e) == "np.pi":
                            return sp.pi
                        raise Unsupported(ast.unparse(e))
                    if isinstance(e, ast.Subscript):
                        txt = ast.unparse(e)
                        for k in (0, 1):
                            if txt == f"self.axes_bounds[{k}]":
                                return (lo[k], hi[k])
                            for end in (0, 1):
                                if txt == f"self.axes_bounds[{k}][{end}]":
                                    return (lo[k], hi[k])[end]
                        raise Unsupported(txt)
                    if isinstance(e, ast.IfExp):
                        t = ev(e.test)
                        if not isinstance(t, bool):
                            raise Unsupported("undecided conditional")
                        return ev(e.body if t else e.orelse)
                    if isinstance(e, ast.BinOp):
                        l, r = ev(e.left), ev(e.right)
                        return {ast.Add: lambda: l + r, ast.Sub: lambda: l - r, ast.Mult: lambda: l * r, ast.Div: lambda: l / r, ast.Pow: lambda: l**r}[type(e.op)]()
                    if isinstance(e, ast.UnaryOp) and isinstance(e.op, ast.USub):
                        return -ev(e.operand)
                    if isinstance(e, ast.Call):
                        fn = dotted(e.func).split(".")[-1]
                        if fn == "uniform" and len(e.args) == 2:
                            a, b = ev(e.args[0]), ev(e.args[1])
                            return a + U * (b - a)
                        if fn == "sqrt":
                            return sp.sqrt(ev(e.args[0]))
                        if fn == "array" and isinstance(e.args[0], (ast.List, ast.Tuple)) and len(e.args[0].elts) == 1:
                            return ev(e.args[0].elts[0])
                        raise Unsupported(ast.unparse(e)[:50])
                    raise Unsupported(ast.unparse(e)[:50])

                coord_nodes: dict = {}
                try:
                    for st in f.node.body:
                        if isinstance(st, ast.Assign) and len(st.targets) == 1:
                            t = st.targets[0]
                            if isinstance(t, ast.Name) and t.id != "rng":
                                if t.id in coords:
                                    coord_nodes[t.id] = st.value
                                try:
                                    env[t.id] = ev(st.value)
                                except Unsupported:
                                    if t.id in coords or t.id.endswith(("_min", "_max")):
                                        raise
                            elif isinstance(t, ast.Tuple) and all(isinstance(x, ast.Name) for x in t.elts):
                                v = ev(st.value)
                                for x, vv in zip(t.elts, v):
                                    env[x.id] = vv
                        if all(c in env for c in coords):
                            break
                except Unsupported as e:
                    raise AnalysisError(f"{f.ref}: {e}") from e
                for k, c in enumerate(coords):
                    if c not in env:
                        raise AnalysisError(f"{f.ref}: the sampled coordinate `{c}` was not found")
                    n += 1
                    r = env[c]
                    at0, at1 = sp.simplify(r.subs(U, 0)), sp.simplify(r.subs(U, 1))
                    # the function raises unless <c>_max > <c>_min (guard extracted below) and <c>_min >= 0 for radii:
                    # |<c>_max| = <c>_max
                    mx, mn = env.get(f"{c}_max"), env.get(f"{c}_min")
                    guarded = any(
                        isinstance(st, ast.If) and any(isinstance(b, ast.Raise) for b in st.body) and f"{c}_max <= {c}_min" in ast.unparse(st.test)
                        for st in f.node.body
                    )
                    if not guarded:
                        raise AnalysisError(f"{f.ref}: guard `{c}_max <= {c}_min -> raise` not found")
                    if mx is not None and mn is not None and (sp.simplify(mn).is_nonnegative or c != "r") and c in coord_nodes:
                        # re-evaluate the draw with <c>_max as a positive symbol (justified by the guard), then substitute back
                        P = sp.Symbol(f"{c}_max_pos", positive=True)
                        saved = env[f"{c}_max"]
                        env[f"{c}_max"] = P
                        try:
                            r_pos = ev(coord_nodes[c])
                        finally:
                            env[f"{c}_max"] = saved
                        at1 = sp.simplify(sp.simplify(r_pos.subs(U, 1)).subs(P, mx))
                    tag = f"{qn}:avoid_center={avoid}:dim={dim}:{c}"
                    lo_ok = sp.simplify(at0 - lo[k]).is_nonnegative
                    hi_ok = sp.simplify(hi[k] - at1).is_nonnegative
                    rep.oblige(f"{tag}: draws lie between the bounds of the axis", bool(lo_ok) and bool(hi_ok), {"u=0": str(at0), "u=1": str(at1)})
                    if not (lo_ok and hi_ok):
                        which = f"smallest draw `{at0}` is not >= the lower bound `{lo[k]}`" if not lo_ok else f"largest draw `{at1}` is not <= the upper bound `{hi[k]}`"
                        rep.violation(
                            "C12.random-point-range",
                            f"{f.ref}::{c}::avoid_center={avoid}",
                            f"{tag}: the {which} for all admissible boundary_distance >= 0: generated points can lie outside the grid (inside the hole of an annulus / shell), where contains_point is False",
                            line=f.node.lineno,
                        )
    rep.floor("sampled coordinates of get_random_point judged", n, 6)


def check(tier: str) -> Report:
    rep = Report("C12", tier, "proof", "abstract interpretation of geometry helpers into sympy; exact integrals / sums; template matching for point normalisation; index-space typing of periodicity flags")
    rep.explanation = (
        "discretize_interval, volume_from_radius, cell_volume_data, volume, the coordinate classes, GridBase.transform, normalize_point and "
        "integrate are interpreted from source on symbolic shapes, bounds and points. Identities proved with sympy: documented cell-centre "
        "formula; n-ball volumes; cell volume = exact integral of the (extracted) volume factor over the cell; sum of cell volumes = volume "
        "property (sympy summation, r_min = 0 and > 0); volume factor = |det J| = product of scale factors; _cell_volume = box integral; "
        "pos_from_cart o pos_to_cart = id (symbolic where sympy reduces it, else spot-evaluated on the extracted term and recorded as such); "
        "all nine transform pairs return, cell<->grid mutually inverse with centres at index + 1/2; normalize_point equals the periodic / "
        "reflect templates in both the 1-axis and n-axis branch; integrate weights. Rule (g): arguments of _difference_vector must be indexed "
        "by Cartesian component and tied to the Cartesian direction of the periodic grid axis. Rule (h): every returning path of every grid `slice` "
        "method hands the sub-grid constructor exactly the bounds (both ends), shape and periodicity of the retained axes (structural leaf "
        "domain of pdelint/gridleaf.py; reader properties such as `radius` are followed and must be lossless), ScalarField.project/slice "
        "retain the sorted complement of the removed axes and reduce over exactly the removed axes."
    )
    ix = get_index()
    run_sections(
        rep,
        [*coordinate_class_sections(), check_cell_volumes, check_transform, check_normalize, check_integrate, check_difference_vector, check_wrap_formula, check_discretize, check_ball_volumes, check_slice_project, check_random_point_range],
        ix,
    )
    rep.assumptions += [
        "lemma used for normalize_point: for L > 0, (x mod L) lies in [0, L) and differs from x by a multiple of L (Python/numpy modulo)",
        "chart domains r > 0, theta, sigma in (0, pi); points within round-off of a face and get_random_point containment are not decided",
        "bipolar/bispherical inverse maps are spot-evaluated on the extracted sympy terms (recorded per obligation), not proved",
        "projection preserves the integral because (i) slice() keeps bounds/shape/periodicity of the retained axes (rule h), (ii) integrate weights are the cell-volume factors of the removed axes, (iii) cell volumes factorise per axis and the radial factor of the cylinder equals the polar cell volume -- all three are obligations of this check",
    ]
    return rep

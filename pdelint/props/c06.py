"""C06 -- time steppers realise their scheme exactly, on every backend.

(a)/(b) every ``_make_single_step_fixed_dt`` closure is interpreted with an uninterpreted
right-hand side; the Butcher tableau (A, b, c) is read off the stage arguments and must
satisfy the order conditions of the scheme, its stability function and stage times;
implicit schemes: the fixed-point equation of the iteration body is solved on the
linear test equation; (c) RKF45: tableau + embedded pair order conditions;
(d) python vs numba loops are compared as extracted update maps; (e) adaptive loops:
step-size clamp, acceptance, exit condition and the stage-pair invariant.
"""

from __future__ import annotations

import ast

import sympy as sp
from sympy.core.function import AppliedUndef

from ..core import AnalysisError, Report
from ..fx import Closure, Interp, Model, Opaque, RaisedInCode, UFunc, Unsupported, WholeArr
from ..index import const_value, dotted, get_index
from ..kernels import read_config_defaults, std_overrides
from ..rk import order_conditions, stability_function

DT = sp.Symbol("dt", positive=True)
T = sp.Symbol("t", real=True)
U = sp.Symbol("u")
Avar = sp.Symbol("a")
Z = sp.Symbol("z")

SOLVERS = {
    # name: (file, class, order, stability function of z)
    "euler": ("pde/solvers/euler.py", "EulerSolver", 1, 1 + Z),
    "runge-kutta": ("pde/solvers/runge_kutta.py", "RungeKuttaSolver", 4, 1 + Z + Z**2 / 2 + Z**3 / 6 + Z**4 / 24),
}
NB_SOLVERS = "pde/backends/numba/_solvers.py"


class RhsLog:
    """uninterpreted rhs: the n-th call returns the symbol F_n and is logged"""

    def __init__(self, name="F"):
        self.calls: list[tuple] = []
        self.name = name
        self.ufunc = UFunc("rhs", self.on_call)

    def on_call(self, it: Interp, args, kwargs, node):
        if len(args) != 2:
            raise Unsupported(f"rhs called with {len(args)} arguments")
        st, t = it.as_expr(args[0]), it.as_expr(args[1])
        f = sp.Symbol(f"{self.name}{len(self.calls)}")
        self.calls.append((st, t, f))
        return WholeArr(f"rhsval{len(self.calls)}", f)


def make_solver(ix, rel, clsname, rhs: RhsLog, **attrs) -> tuple[Model, Interp]:
    cls = ix.cls(rel, clsname)
    cfg = read_config_defaults(ix)
    logger = Model("logger", {k: (lambda *a, **kw: None) for k in ("info", "warning", "debug", "error")})
    backend = Model(
        "backend",
        {
            "make_pde_rhs": lambda pde, state: rhs.ufunc,
            "compile_function": lambda f, **k: f,
            "make_mpi_synchronizer": lambda **k: (lambda v: v),
            "name": "numpy",
            "__isinstance__": lambda c: True,
        },
    )
    pde = Model(
        "pde",
        {
            "is_sde": False,
            "make_pde_rhs": lambda state, backend=None: rhs.ufunc,
            "use_noise_variance": False,
            "use_noise_realization": False,
        },
    )
    info = {"dt": DT, "steps": sp.Symbol("steps0"), "post_step_data": sp.Symbol("psd"), "dt_statistics": None}
    a = dict(
        pde=pde,
        backend=backend,
        info=info,
        _logger=logger,
        adaptive=False,
        mpi_run=False,
        tolerance=sp.Symbol("tol", positive=True),
        dt_min=sp.Symbol("dt_min", positive=True),
        dt_max=sp.Symbol("dt_max", positive=True),
        maxiter=sp.Symbol("maxiter", integer=True, positive=True),
        maxerror=sp.Symbol("maxerror", positive=True),
        explicit_fraction=sp.Symbol("alpha"),
        _make_post_step_hook=lambda state: (lambda s, t, post_step_data=None: (s, post_step_data)),
    )
    a.update(attrs)
    solver = Model(f"solver<{clsname}>", a, cls=cls)
    ov = std_overrides(ix, cfg)
    ov["get_array_namespace"] = lambda x: it.np
    ov["pde.tools.misc.get_array_namespace"] = ov["get_array_namespace"]
    ov["OnlineStatistics"] = lambda: None
    ov["_make_post_step_hook"] = lambda solver, state: (lambda s, t, post_step_data=None: (s, post_step_data))
    it = Interp(ix, overrides=ov)
    it.np["abs"] = lambda x: sp.Function("aabs")(it.as_expr(x))
    it.np["empty_like"] = lambda x, **k: WholeArr("uninit", sp.Symbol("uninitialised"))
    return solver, it


STATE = Model("state", {"data": Opaque("state.data"), "grid": Model("grid", {"cell_volumes": sp.Symbol("V", positive=True)})})


# ----------------------------------------------------------------------------
# explicit one-step schemes: tableau
# ----------------------------------------------------------------------------
def tableau_from_log(rhs: RhsLog, result, u=U, t=T, dt=DT):
    """(A, b, c) from the logged rhs calls: stage_i state = u + dt*sum_j A_ij F_j, time t + c_i dt"""
    s = len(rhs.calls)
    F = [f for _, _, f in rhs.calls]
    A, c = [], []
    for i, (st, tt, f) in enumerate(rhs.calls):
        d = sp.expand((st - u) / dt)
        row = []
        for j in range(s):
            co = d.coeff(F[j])
            row.append(sp.nsimplify(co))
            d = d - co * F[j]
        if sp.simplify(d) != 0:
            raise Unsupported(f"stage {i} state is not u + dt*linear(F): remainder {d}")
        if any(row[j] != 0 for j in range(i, s)):
            raise Unsupported(f"stage {i} depends on a later stage")
        A.append(row)
        ci = sp.simplify((tt - t) / dt)
        if ci.free_symbols:
            raise Unsupported(f"stage {i} time `{tt}` is not t + c*dt")
        c.append(sp.nsimplify(ci))
    b = linear_weights(result - u, F, dt)
    return A, b, c


def linear_weights(expr, F, dt):
    d = sp.expand(expr / dt)
    b = []
    for f in F:
        co = d.coeff(f)
        b.append(sp.nsimplify(co))
        d = d - co * f
    if sp.simplify(d) != 0:
        raise Unsupported(f"expression is not dt*linear(F): remainder {d}")
    return b


def run_single_step(ix, rel, clsname, method="_make_single_step_fixed_dt", variable_dt=False):
    rhs = RhsLog()
    solver, it = make_solver(ix, rel, clsname, rhs)
    maker = it.getattr(solver, method)
    step = it.call(maker, (STATE,) if variable_dt else (STATE, DT), {})
    u = WholeArr("u", U)
    n0 = len(rhs.calls)
    ret = it.call(step, (u, T, DT) if variable_dt else (u, T), {})
    return rhs, solver, it, u, ret, step


def check_explicit(rep: Report, ix, name, rel, clsname, order, stab):
    rhs, solver, it, u, ret, step = run_single_step(ix, rel, clsname)
    ref = f"{rel}::{clsname}._make_single_step_fixed_dt"
    rep.saw("steppers", ref)
    result = it.as_expr(ret) if ret is not None else u.val
    in_place = sp.simplify(u.val - result) == 0
    rep.oblige(f"{name}:updates-state-in-place-and-returns-it", in_place, {"returned": str(result), "state": str(u.val)})
    if not in_place:
        rep.violation("C06.return-vs-state", f"{ref}::single_step::return", f"{name}: returned value `{result}` differs from the in-place updated state `{u.val}`")
    A, b, c = tableau_from_log(rhs, result)
    rep.sample({"scheme": name, "A": [[str(x) for x in r] for r in A], "b": [str(x) for x in b], "c": [str(x) for x in c]})
    _check_tableau(rep, name, ref, A, b, c, order, stab)


def _check_tableau(rep, name, ref, A, b, c, order, stab, role="single_step"):
    s = len(b)
    for i in range(s):
        ok = sp.simplify(sum(A[i]) - c[i]) == 0
        rep.oblige(f"{name}:stage{i}:time c_i = sum_j a_ij", ok, {"c": str(c[i]), "row": [str(x) for x in A[i]]})
        if not ok:
            rep.violation(
                "C06.stage-time",
                f"{ref}::{role}::stage{i}",
                f"{name}: stage {i} evaluates the right-hand side at time t + {c[i]}*dt but at the state u + dt*{[str(x) for x in A[i]]}.F "
                f"(row sum {sum(A[i])}): the stage time does not belong to the stage state",
            )
    for p, tname, res in order_conditions(A, b, order):
        ok = res == 0
        rep.oblige(f"{name}:order{p}:{tname}", ok, str(res))
        if not ok:
            rep.violation("C06.order-condition", f"{ref}::{role}::order{p}:{tname}", f"{name}: order-{p} condition of tree {tname} has residual {res} (weights {[str(x) for x in b]})")
    if stab is not None:
        R = sp.expand(stability_function(A, b, Z))
        ok = sp.simplify(R - sp.expand(stab)) == 0
        rep.oblige(f"{name}:stability-function", ok, str(R))
        if not ok:
            rep.violation("C06.stability-function", f"{ref}::{role}::linear-test", f"{name}: on du/dt = a*u one step multiplies the state by {R}, scheme requires {sp.expand(stab)}")


# ----------------------------------------------------------------------------
# implicit schemes: fixed point of the iteration body
# ----------------------------------------------------------------------------
def check_implicit(rep: Report, ix, name, rel, clsname, method, expected):
    rhs = RhsLog()
    solver, it = make_solver(ix, rel, clsname, rhs)
    maker = it.getattr(solver, method)
    step = it.call(maker, (STATE, DT), {})
    ref = f"{rel}::{clsname}.{method}"
    rep.saw("steppers", ref)
    u = WholeArr("u", U)
    X = sp.Symbol("X")
    seen = {"n": 0}

    def loop_cases(var, lo, hi, node):
        # the fixed-point iteration: start the generic iteration from an arbitrary iterate X
        if seen["n"] == 0 and isinstance(hi, sp.Basic) and hi.has(sp.Symbol("maxiter", integer=True, positive=True)):
            seen["n"] += 1
            u.val = X
            return [("iterate", sp.Symbol(var, integer=True, nonnegative=True))]
        return None

    it.loop_cases = loop_cases
    it.decide = lambda cond, node: True  # `err < maxerror2`: converged
    try:
        it.call(step, (u, T), {})
    except (Unsupported, RaisedInCode) as e:
        raise AnalysisError(f"{ref}: {e}") from e
    if seen["n"] != 1:
        raise AnalysisError(f"{ref}: fixed-point loop over `maxiter` not found")
    FX = u.val  # F(X) in terms of X, U and rhs symbols
    # linear test equation: F_k -> a * (state argument)
    sub = {f: Avar * st for st, tt, f in rhs.calls}
    FXl = sp.sympify(FX).subs(sub)
    # nested: state arguments may contain earlier F symbols
    for _ in range(len(rhs.calls)):
        FXl = FXl.subs(sub)
    sol = sp.solve(sp.Eq(X, FXl), X)
    if len(sol) != 1:
        raise AnalysisError(f"{ref}: fixed-point equation X = {FXl} has {len(sol)} solutions")
    growth = sp.simplify(sol[0] / U).subs(Avar, Z / DT)
    growth = sp.simplify(growth)
    want = expected
    ok = sp.simplify(growth - want) == 0
    rep.oblige(f"{name}:fixed-point growth factor", ok, {"growth": str(growth), "iteration": str(FX)})
    rep.sample({"scheme": name, "iteration map X -> ": str(FX), "growth factor": str(growth)})
    if not ok:
        rep.violation("C06.stability-function", f"{ref}::iteration::linear-test", f"{name}: converged iteration multiplies the state by {growth} on du/dt = a*u, scheme requires {want}; iteration body: X -> {FX}")
    # stage times of the evaluations that enter the converged iteration map
    used = [(st, tt, f) for st, tt, f in rhs.calls if sp.sympify(FX).has(f)]
    bad = []
    for st, tt, f in used:
        rel_t = sp.simplify((tt - T) / DT)
        if sp.sympify(st).has(X):
            if rel_t != 1:
                bad.append(f"rhs of the new iterate `{st}` evaluated at t + {rel_t}*dt (must be t + dt)")
        elif sp.simplify(st - U) == 0:
            if rel_t != 0:
                bad.append(f"rhs of the old state evaluated at t + {rel_t}*dt (must be t)")
        else:
            bad.append(f"rhs evaluated at an unexpected state `{st}`")
    rep.oblige(f"{name}:stage times of the iteration map", not bad, [(str(st), str(tt)) for st, tt, f in used])
    for b_ in bad:
        rep.violation("C06.stage-time", f"{ref}::iteration::times", f"{name}: {b_}")
    return growth


# ----------------------------------------------------------------------------
# Adams-Bashforth (python closure vs numba loop body)
# ----------------------------------------------------------------------------
def extract_ab_python(ix):
    rel, clsname = "pde/solvers/adams_bashforth.py", "AdamsBashforthSolver"
    rhs = RhsLog()
    solver, it = make_solver(ix, rel, clsname, rhs)
    it.builtins["float"] = lambda x=0: it.as_expr(x)
    maker = it.getattr(solver, "_make_inner_stepper")
    stepper = it.call(maker, (STATE,), {})
    if not isinstance(stepper, Closure):
        raise AnalysisError("AdamsBashforthSolver._make_inner_stepper did not return a closure")
    single = stepper.env.lookup("single_step")
    u, prev = WholeArr("u", U), WholeArr("p", sp.Symbol("p"))
    n0 = len(rhs.calls)
    it.call(single, (u, T, prev), {})
    return rhs.calls[n0:], u.val, prev.val, stepper, it, rhs, f"{rel}::{clsname}._make_inner_stepper"


def extract_ab_numba(ix):
    rhs = RhsLog()
    solver, it = make_solver(ix, "pde/solvers/adams_bashforth.py", "AdamsBashforthSolver", rhs)
    it.builtins["float"] = lambda x=0: it.as_expr(x)
    f = ix.func(NB_SOLVERS, "_make_adams_bashforth_stepper")
    it.overrides["nb"] = Model("nb", {"typeof": lambda x: Opaque("type"), "double": Opaque("double"), "int_": Opaque("int"), "config": Model("cfg", {"DISABLE_JIT": True})}, strict=False)
    stepper = it.call(it.make_closure(f, it.module_env(f.module)), (solver, STATE), {})
    comp = stepper.env.lookup("compiled_stepper")
    u, prev = WholeArr("u", U), WholeArr("p", sp.Symbol("p"))
    n0 = len(rhs.calls)
    it.loop_cases = lambda var, lo, hi, node: [("iteration", sp.Symbol("i", integer=True, nonnegative=True))]
    ret = it.call(comp, (u, prev, sp.Symbol("t_start"), sp.Symbol("steps", integer=True, positive=True), sp.Symbol("psd")), {})
    return rhs.calls[n0:], u.val, prev.val, stepper, it, rhs, ret, f"{NB_SOLVERS}::_make_adams_bashforth_stepper"


def check_adams_bashforth(rep: Report, ix):
    calls, unew, pnew, stepper, it, rhs, ref = extract_ab_python(ix)
    rep.saw("steppers", ref)

    def canon(calls, unew, pnew, tsym):
        # express through rhs(u, t) =: f_cur and rhs(p, t - dt) =: f_prev
        sub = {}
        problems = []
        for st, tt, f in calls:
            if sp.simplify(st - U) == 0 and sp.simplify(tt - tsym) == 0:
                sub[f] = sp.Symbol("f_cur")
            elif sp.simplify(st - sp.Symbol("p")) == 0 and sp.simplify(tt - (tsym - DT)) == 0:
                sub[f] = sp.Symbol("f_prev")
            else:
                problems.append(f"rhs evaluated at state `{st}`, time `{tt}`: neither (u_n, t_n) nor (u_(n-1), t_n - dt)")
        return sp.expand(sp.sympify(unew).subs(sub)), sp.expand(sp.sympify(pnew).subs(sub)), problems

    u1, p1, pr1 = canon(calls, unew, pnew, T)
    want_u = sp.expand(U + DT * (sp.Rational(3, 2) * sp.Symbol("f_cur") - sp.Rational(1, 2) * sp.Symbol("f_prev")))
    ok = sp.simplify(u1 - want_u) == 0 and sp.simplify(p1 - U) == 0 and not pr1
    rep.oblige("adams-bashforth:python:recursion", ok, {"u_next": str(u1), "prev_next": str(p1), "problems": pr1})
    rep.sample({"scheme": "adams-bashforth(python)", "u_next": str(u1), "prev_next": str(p1)})
    if not ok:
        rep.violation("C06.adams-bashforth", f"{ref}::single_step::recursion", f"python Adams-Bashforth step gives u_next = {u1}, prev_next = {p1} {pr1}; scheme: u + dt*(3/2 f_n - 1/2 f_(n-1)), prev = u")
    # start-up value: state_prev = u - dt*rhs(u, t_start)
    up = _ab_startup(it, stepper, rhs)
    rep.oblige("adams-bashforth:python:start-up", up["ok"], up)
    if not up["ok"]:
        rep.violation("C06.adams-bashforth", f"{ref}::fixed_stepper::start-up", f"python Adams-Bashforth start-up: {up}")
    # numba sibling
    calls2, unew2, pnew2, stepper2, it2, rhs2, ret2, ref2 = extract_ab_numba(ix)
    rep.saw("steppers", ref2)
    tloop = sp.Symbol("t_start") + sp.Symbol("i", integer=True, nonnegative=True) * DT
    u2, p2, pr2 = canon(calls2, unew2, pnew2, tloop)
    ok = sp.simplify(u2 - u1) == 0 and sp.simplify(p2 - p1) == 0 and not pr2
    rep.oblige("adams-bashforth:numba==python", ok, {"u_next": str(u2), "prev_next": str(p2), "problems": pr2})
    if not ok:
        rep.violation("C06.sibling-drift", f"{ref2}::compiled_stepper::recursion", f"numba Adams-Bashforth body gives u_next = {u2}, prev_next = {p2} {pr2}; python gives {u1}, {p1}")
    up2 = _ab_startup(it2, stepper2, rhs2)
    rep.oblige("adams-bashforth:numba:start-up", up2["ok"], up2)
    if not up2["ok"]:
        rep.violation("C06.adams-bashforth", f"{ref2}::fixed_stepper::start-up", f"numba Adams-Bashforth start-up: {up2}")


def _ab_startup(it, stepper, rhs):
    """interpret the outer fixed_stepper up to the start-up store of state_prev"""
    prev_box = WholeArr("prev0", sp.Symbol("garbage"))
    stepper.env.vars["state_prev"] = prev_box
    stepper.env.vars["init_state_prev"] = True
    u = WholeArr("u", U)
    it.loop_cases = lambda var, lo, hi, node: []  # skip the stepping loop itself
    n0 = len(rhs.calls)
    ts, te = sp.Symbol("t_start"), sp.Symbol("t_end")
    saved = it.decide
    try:
        it.overrides["compiled_stepper_stub"] = None
        try:
            it.call(stepper, (u, ts, te), {})
        except (Unsupported, RaisedInCode, KeyError):
            pass
    finally:
        it.decide = saved
    calls = rhs.calls[n0:]
    val = prev_box.val
    if not calls:
        return {"ok": False, "why": "no rhs call in start-up", "value": str(val)}
    st, tt, f = calls[0]
    ok = sp.simplify(val - (U - DT * f)) == 0 and sp.simplify(st - U) == 0 and sp.simplify(tt - ts) == 0
    return {"ok": bool(ok), "state_prev": str(val), "rhs_at": (str(st), str(tt))}


# ----------------------------------------------------------------------------
# adaptive loops
# ----------------------------------------------------------------------------
def run_adaptive(ix, which: str, accept: bool):
    """interpret one generic iteration of an adaptive stepping loop; returns a summary dict"""
    rhs = RhsLog()
    if which.startswith("python"):
        rel, clsname = ("pde/solvers/euler.py", "EulerSolver") if which.endswith("euler") else ("pde/solvers/base.py", "AdaptiveSolverBase")
        solver, it = make_solver(ix, rel, clsname, rhs, adaptive=True)
        ref = f"{rel}::{clsname}._make_inner_stepper"
    else:
        solver, it = make_solver(ix, "pde/solvers/euler.py", "EulerSolver", rhs, adaptive=True)
        ref = f"{NB_SOLVERS}::" + ("_make_adaptive_stepper_euler" if which.endswith("euler") else "_make_adaptive_stepper_general")
    sse_calls = []

    def single_step_error(state, t, dt):
        n = len(sse_calls)
        sse_calls.append((it.as_expr(state), it.as_expr(t), it.as_expr(dt)))
        return (WholeArr(f"new_state{n}", sp.Symbol(f"S{n}")), sp.Symbol(f"E{n}", nonnegative=True))

    solver._attrs["_make_single_step_error_estimate"] = lambda state: single_step_error
    adj_calls = []

    def adjust(dt, err):
        adj_calls.append((it.as_expr(dt), it.as_expr(err)))
        return sp.Symbol(f"dt_adj{len(adj_calls) - 1}", positive=True)

    it.overrides["_make_dt_adjuster"] = lambda lo, hi: adjust
    it.overrides["pde.solvers.base._make_dt_adjuster"] = it.overrides["_make_dt_adjuster"]
    it.overrides["nb"] = Model("nb", {"typeof": lambda x: Opaque("type"), "double": Opaque("double"), "int_": Opaque("int"), "config": Model("cfg", {"DISABLE_JIT": True})}, strict=False)
    hook_calls = []

    def hook(s, t, post_step_data=None):
        hook_calls.append((it.as_expr(s), it.as_expr(t)))
        return (s, post_step_data)

    solver._attrs["_make_post_step_hook"] = lambda state: hook
    it.overrides["_make_post_step_hook"] = lambda solver, state: hook
    if which.startswith("python"):
        maker = it.getattr(solver, "_make_inner_stepper")
        stepper = it.call(maker, (STATE,), {})
        loop_fn = stepper
    else:
        f = ix.func(NB_SOLVERS, ref.split("::")[1])
        stepper = it.call(it.make_closure(f, it.module_env(f.module)), (solver, STATE), {})
        loop_fn = stepper.env.lookup("compiled_stepper")
    tests = []

    def decide(cond, node):
        txt = ast.unparse(node) if node is not None else str(cond)
        tests.append(txt)
        c = sp.sympify(cond)
        if isinstance(cond, (sp.LessThan, sp.StrictLessThan, sp.GreaterThan, sp.StrictGreaterThan)) and c.has(sp.Symbol("tol", positive=True)) or "error_rel" in txt:
            return accept
        if "t_end" in txt or c.has(sp.Symbol("t_end")):
            return True  # not finished: the step size is adjusted
        if "dt_stat" in txt:
            return False
        return None

    it.decide = decide
    it.while_once = lambda st: True
    u = WholeArr("u", U)
    ts, te = sp.Symbol("t_start"), sp.Symbol("t_end")
    env_probe = {}
    if which.startswith("python"):
        ret = it.call(loop_fn, (u, ts, te), {})
    else:
        ret = it.call(loop_fn, (u, ts, te, sp.Symbol("dt0", positive=True)), {"dt_stats": None, "post_step_data": sp.Symbol("psd")})
    return {
        "ref": ref,
        "rhs": [(str(s), str(t), str(f)) for s, t, f in rhs.calls],
        "rhs_raw": rhs.calls,
        "sse": sse_calls,
        "adjust": adj_calls,
        "hook": hook_calls,
        "tests": tests,
        "state": u.val,
        "ret": ret,
        "exit": it.while_exit,
        "solver": solver,
    }


def check_adaptive(rep: Report, ix):
    dt0 = {"python": DT, "numba": sp.Symbol("dt0", positive=True)}
    dtmin = sp.Symbol("dt_min", positive=True)
    ts, te = sp.Symbol("t_start"), sp.Symbol("t_end")
    summaries = {}
    for which in ("python-general", "numba-general", "python-euler", "numba-euler"):
        for accept in (True, False):
            try:
                r = run_adaptive(ix, which, accept)
            except (Unsupported, RaisedInCode) as e:
                raise AnalysisError(f"adaptive loop {which}: {e}") from e
            rep.saw("adaptive loops", f"{r['ref']}:{'accept' if accept else 'reject'}")
            lang = which.split("-")[0]
            want_step = sp.Max(sp.Min(dt0[lang], te - ts), dtmin)
            # time handed to the step / returned time
            if which.endswith("general"):
                if len(r["sse"]) != 1:
                    rep.violation("C06.adaptive-loop", f"{r['ref']}::loop::step", f"{which}: {len(r['sse'])} step evaluations per iteration")
                    continue
                st, tt, dd = r["sse"][0]
                ok = sp.simplify(dd - want_step) == 0 and sp.simplify(tt - ts) == 0 and sp.simplify(st - U) == 0
                rep.oblige(f"adaptive:{which}:{'accept' if accept else 'reject'}:step = max(min(dt_opt, t_end - t), dt_min) from (state, t)", ok, {"dt_step": str(dd), "t": str(tt), "state": str(st)})
                if not ok:
                    rep.violation("C06.adaptive-step-size", f"{r['ref']}::loop::dt_step", f"{which}: step taken from state `{st}` at time `{tt}` with size `{dd}`; expected (u, t, {want_step})")
                new_state = sp.Symbol("S0")
            else:
                new_state = None
            summaries[(which, accept)] = r
    # sibling comparison and invariants on the summaries
    for kind in ("general", "euler"):
        for accept in (True, False):
            a = summaries.get((f"python-{kind}", accept))
            b = summaries.get((f"numba-{kind}", accept))
            if a is None or b is None:
                continue
            tag = f"adaptive:{kind}:{'accept' if accept else 'reject'}"
            sa = _adaptive_canon(a, DT)
            sb = _adaptive_canon(b, sp.Symbol("dt0", positive=True))
            same = sa == sb
            rep.oblige(f"{tag}:python==numba", same, {"python": sa, "numba": sb})
            if not same:
                diff = {k: (sa[k], sb[k]) for k in sa if sa[k] != sb.get(k)}
                rep.violation("C06.sibling-drift", f"{b['ref']}::loop::{'accept' if accept else 'reject'}", f"{tag}: numba loop differs from the python loop: {diff}")
            if len(rep.samples) < 12:
                rep.sample({"loop": tag, "summary": sa})
            for lang, r, s in (("python", a, sa), ("numba", b, sb)):
                # accepted step advances t by exactly dt_step and never beyond t_end except by the dt_min floor
                dto = sp.Symbol("dt_opt", positive=True)
                step_e = sp.Max(sp.Min(dto, te - ts), dtmin)
                want_t = ts + step_e if accept else ts
                ok = s["t_next"] != "None" and sp.simplify(sp.sympify(s["t_next"], locals=_LOC) - want_t) == 0
                rep.oblige(f"{tag}:{lang}:time advance", ok, s["t_next"])
                if not ok:
                    rep.violation("C06.adaptive-time", f"{r['ref']}::loop::t", f"{tag} ({lang}): loop time becomes `{s['t_next']}`, expected `{want_t}`")
                ok = s["steps_inc"] == ("1" if accept else "0")
                rep.oblige(f"{tag}:{lang}:step accounting", ok, s["steps_inc"])
                if not ok:
                    rep.violation("C06.adaptive-accounting", f"{r['ref']}::loop::steps", f"{tag} ({lang}): step counter changes by {s['steps_inc']}")
                ok = len(s["adjust_args"]) == 1 and sp.simplify(sp.sympify(s["adjust_args"][0][0], locals=_LOC) - step_e) == 0 and s["adjust_args"][0][1] == s["error_rel"]
                rep.oblige(f"{tag}:{lang}:dt adjustment inputs", ok, s["adjust_args"])
                if not ok:
                    rep.violation("C06.adaptive-step-size", f"{r['ref']}::loop::adjust_dt", f"{tag} ({lang}): adjust_dt called with {s['adjust_args']}, expected (dt_step, error_rel)")
    # adaptive Euler: stage-pair invariant  rate == rhs(state_cur, t) at the loop head
    for lang in ("python", "numba"):
        r = summaries.get((f"{lang}-euler", True))
        if r is None:
            continue
        calls = r["rhs_raw"]
        dt_opt = DT if lang == "python" else sp.Symbol("dt0", positive=True)
        step = sp.Max(sp.Min(dt_opt, te - ts), dtmin)
        # call 0: initial rate at (u, t_start); call 1: midpoint; call 2: rate for the next step
        ok0 = len(calls) >= 1 and sp.simplify(calls[0][0] - U) == 0 and sp.simplify(calls[0][1] - ts) == 0
        rep.oblige(f"adaptive-euler:{lang}:initial rate = rhs(state, t_start)", ok0, r["rhs"][:1])
        if not ok0:
            rep.violation("C06.stage-time", f"{r['ref']}::loop::initial-rate", f"adaptive Euler ({lang}): initial rate is rhs{r['rhs'][:1]}")
        if len(calls) >= 2:
            st, tt, f = calls[1]
            okm = sp.simplify(tt - (ts + step / 2)) == 0 and sp.simplify(st - (U + step / 2 * calls[0][2])) == 0
            rep.oblige(f"adaptive-euler:{lang}:midpoint rate at (u + dt/2 f, t + dt/2)", okm, r["rhs"][1])
            if not okm:
                rep.violation("C06.stage-time", f"{r['ref']}::loop::midpoint-rate", f"adaptive Euler ({lang}): midpoint rate is rhs({st}, {tt})")
        if len(calls) >= 3:
            st, tt, f = calls[2]
            new_state = U + step / 2 * calls[0][2] + step / 2 * calls[1][2]
            ok_state = sp.simplify(st - new_state) == 0
            ok_time = sp.simplify(tt - (ts + step)) == 0
            rep.oblige(f"adaptive-euler:{lang}:rate for next step = rhs(new state, new time)", ok_state and ok_time, r["rhs"][2])
            if not (ok_state and ok_time):
                rep.violation(
                    "C06.stage-time",
                    f"{r['ref']}::loop::next-rate",
                    f"adaptive Euler ({lang}): after an accepted step the rate for the next step is rhs(state={st}, t={tt}); the loop invariant `rate == rhs(state_cur, t)` "
                    f"needs t = {ts + step} (the time the new state belongs to) -- wrong for explicitly time-dependent equations",
                )
        else:
            rep.violation("C06.adaptive-loop", f"{r['ref']}::loop::rate", f"adaptive Euler ({lang}): {len(calls)} rhs evaluations in an accepted iteration, expected 3")


_LOC = {
    "dt_opt": sp.Symbol("dt_opt", positive=True),
    "dt_min": sp.Symbol("dt_min", positive=True),
    "t_start": sp.Symbol("t_start"),
    "t_end": sp.Symbol("t_end"),
}


def _adaptive_canon(r, dt_opt):
    te, ts = sp.Symbol("t_end"), sp.Symbol("t_start")
    ren = {dt_opt: sp.Symbol("dt_opt", positive=True)}
    ret = r["ret"]
    t_next = None
    steps_inc = None
    if isinstance(ret, tuple):
        t_next = sp.sympify(ret[0]).subs(ren)
        steps_inc = sp.sympify(ret[2])
    else:
        t_next = sp.sympify(ret).subs(ren) if ret is not None else None
        info = r["solver"]._attrs["info"]
        steps_inc = sp.simplify(sp.sympify(info["steps"]) - sp.Symbol("steps0"))
    tests = [t for t in r["tests"]]
    err = None
    for a in r["adjust"]:
        err = str(sp.sympify(a[1]).subs(ren))
    return {
        "t_next": str(sp.simplify(t_next)) if t_next is not None else "None",
        "steps_inc": str(steps_inc),
        "adjust_args": [(str(sp.simplify(sp.sympify(a[0]).subs(ren))), str(sp.sympify(a[1]).subs(ren))) for a in r["adjust"]],
        "error_rel": err,
        "hook": [(str(sp.sympify(s).subs(ren)), str(sp.simplify(sp.sympify(t).subs(ren)))) for s, t in r["hook"]],
        "state": str(sp.sympify(r["state"]).subs(ren)),
        "tests": [t for t in tests if "dt_stat" not in t and "dt_statistics" not in t],
        "exit": r["exit"],
    }


# ----------------------------------------------------------------------------

# ----------------------------------------------------------------------------
# convergence measure of the fixed-point iterations
# ----------------------------------------------------------------------------
def _measure_term(e: ast.AST, dname: str, d):
    """sympy term of the per-cell contribution to the error for diff = x + i*y"""
    if isinstance(e, ast.Constant) and isinstance(e.value, (int, float)):
        return sp.nsimplify(e.value, rational=True)
    if isinstance(e, ast.Name):
        if e.id == dname:
            return d
        raise Unsupported(f"name `{e.id}` in the convergence measure")
    if isinstance(e, ast.Attribute):
        if e.attr == "real":
            return sp.re(_measure_term(e.value, dname, d))
        if e.attr == "imag":
            return sp.im(_measure_term(e.value, dname, d))
        raise Unsupported(f"attribute .{e.attr} in the convergence measure")
    if isinstance(e, ast.BinOp):
        l, r = _measure_term(e.left, dname, d), _measure_term(e.right, dname, d)
        if isinstance(e.op, ast.Mult):
            return l * r
        if isinstance(e.op, ast.Add):
            return l + r
        if isinstance(e.op, ast.Sub):
            return l - r
        if isinstance(e.op, ast.Pow):
            return l**r
        if isinstance(e.op, ast.Div):
            return l / r
    if isinstance(e, ast.UnaryOp) and isinstance(e.op, ast.USub):
        return -_measure_term(e.operand, dname, d)
    if isinstance(e, ast.Call):
        fn = dotted(e.func).split(".")[-1]
        if fn in ("conj", "conjugate"):
            arg = e.args[0] if e.args else e.func.value
            return sp.conjugate(_measure_term(arg, dname, d))
        if fn in ("abs", "absolute") and len(e.args) == 1:
            return sp.Abs(_measure_term(e.args[0], dname, d))
        if fn in ("real",) and len(e.args) == 1:
            return sp.re(_measure_term(e.args[0], dname, d))
        if fn in ("float",) and len(e.args) == 1:
            return _measure_term(e.args[0], dname, d)
    raise Unsupported(f"`{ast.unparse(e)[:60]}` in the convergence measure")


def check_convergence_measure(rep: Report, ix):
    """the fixed-point iterations stop when `err < maxerror**2`; `err` must be the mean of the squared
    modulus |new - previous|^2 of the change of the iterate -- positive definite for complex data too
    (a measure such as Re(diff*diff) = x^2 - y^2 goes negative and stops the iteration at once)"""
    sites = [
        ("pde/solvers/implicit.py", "ImplicitSolver._make_single_step_fixed_dt_deterministic.implicit_step"),
        ("pde/solvers/implicit.py", "ImplicitSolver._make_single_step_fixed_dt_stochastic.implicit_step"),
        ("pde/solvers/crank_nicolson.py", "CrankNicolsonSolver._make_single_step_fixed_dt.crank_nicolson_step"),
    ]
    x, y = sp.symbols("x y", real=True)
    d = x + sp.I * y
    n = 0
    for rel, qn in sites:
        f = ix.func(rel, qn)
        rep.saw("functions", f.ref)
        # the loop that can `break` on a comparison  <err> < <tolerance>
        for loop in [l for l in ast.walk(f.node) if isinstance(l, ast.For)]:
            tests = [t for t in ast.walk(loop) if isinstance(t, ast.If) and any(isinstance(b, ast.Break) for b in t.body) and isinstance(t.test, ast.Compare)]
            tests = [t for t in tests if _owner_loop(loop, t)]
            if not tests:
                continue
            if len(tests) != 1:
                raise AnalysisError(f"{f.ref}: several break conditions in the iteration loop")
            t = tests[0].test
            if not (len(t.ops) == 1 and isinstance(t.ops[0], (ast.Lt, ast.LtE)) and isinstance(t.left, ast.Name) and isinstance(t.comparators[0], ast.Name)):
                raise AnalysisError(f"{f.ref}: break condition `{ast.unparse(t)}` is not `<err> < <tolerance>`")
            err, tol = t.left.id, t.comparators[0].id
            n += 1
            # accumulation of err inside the loop
            adds = [a for a in ast.walk(loop) if isinstance(a, ast.AugAssign) and isinstance(a.target, ast.Name) and a.target.id == err and isinstance(a.op, ast.Add)]
            inits = [a for a in ast.walk(loop) if isinstance(a, ast.Assign) and any(isinstance(tt, ast.Name) and tt.id == err for tt in a.targets)]
            divs = [a for a in ast.walk(loop) if isinstance(a, ast.AugAssign) and isinstance(a.target, ast.Name) and a.target.id == err and isinstance(a.op, ast.Div)]
            if len(adds) != 1 or len(inits) != 1 or const_value(inits[0].value) not in (0, 0.0):
                raise AnalysisError(f"{f.ref}: the error `{err}` is not accumulated as `{err} = 0; {err} += term` (found {len(inits)} initialisations, {len(adds)} accumulations)")
            # the difference the term is built from
            inner = [l2 for l2 in ast.walk(loop) if isinstance(l2, ast.For) and any(a is adds[0] for a in ast.walk(l2)) and l2 is not loop]
            if len(inner) != 1:
                raise AnalysisError(f"{f.ref}: expected one inner loop over the cells accumulating `{err}`")
            ddefs = [a for a in ast.walk(inner[0]) if isinstance(a, (ast.Assign, ast.AnnAssign)) and isinstance(a.targets[0] if isinstance(a, ast.Assign) else a.target, ast.Name)]
            if len(ddefs) != 1:
                raise AnalysisError(f"{f.ref}: expected one definition of the per-cell difference in the inner loop")
            dn = (ddefs[0].targets[0] if isinstance(ddefs[0], ast.Assign) else ddefs[0].target).id
            dv = ddefs[0].value
            ok_diff = isinstance(dv, ast.BinOp) and isinstance(dv.op, ast.Sub)
            bases = []
            if ok_diff:
                for side in (dv.left, dv.right):
                    b = side
                    while isinstance(b, (ast.Subscript, ast.Attribute)):
                        b = b.value
                    bases.append(b.id if isinstance(b, ast.Name) else None)
            # (new iterate, previous iterate): one array is overwritten by the update, the other holds its copy taken before
            upd = [a for a in loop.body if isinstance(a, ast.Assign) and isinstance(a.targets[0], ast.Subscript) and isinstance(a.targets[0].value, ast.Name)]
            written = [a.targets[0].value.id for a in upd]
            copies = [(a.targets[0].value.id, a.value.id) for a in upd if isinstance(a.value, ast.Name)]
            ok_pair = ok_diff and len(set(bases)) == 2 and None not in bases and any({c[0], c[1]} == set(bases) and written.index(c[0]) < max(i for i, w in enumerate(written) if w == c[1]) for c in copies if c[1] in written)
            rep.oblige(f"{qn}: error is built from (new iterate - previous iterate)", ok_pair, {"difference": ast.unparse(dv), "stores in the loop": written})
            if not ok_pair:
                rep.violation("C06.convergence-measure", f"{f.ref}::difference", f"the convergence test does not compare the new iterate with the copy taken before the update: `{dn} = {ast.unparse(dv)}` (stores in the loop: {written})", line=ddefs[0].lineno)
            try:
                term = sp.simplify(sp.expand(_measure_term(adds[0].value, dn, d)))
            except Unsupported as e:
                raise AnalysisError(f"{f.ref}: {e}") from e
            want = x**2 + y**2
            ok = sp.simplify(term - want) == 0
            if not ok and sp.simplify(term - sp.sqrt(want)) == 0:
                # the modulus itself is a norm as well; it must then be compared with maxerror (not its square)
                tdefs0 = [a for a in ast.walk(f.parent.node if f.parent else f.node) if isinstance(a, ast.Assign) and any(isinstance(tt, ast.Name) and tt.id == tol for tt in a.targets)]
                if len(tdefs0) == 1 and ast.unparse(tdefs0[0].value).endswith("maxerror"):
                    rep.oblige(f"{qn}: per-cell error term = |diff| compared with maxerror", True, ast.unparse(adds[0].value))
                    continue
            rep.oblige(f"{qn}: per-cell error term = |diff|^2 for complex diff", ok, {"term": ast.unparse(adds[0].value), "for diff = x + i y": str(term)})
            if not ok:
                rep.violation(
                    "C06.convergence-measure",
                    f"{f.ref}::term",
                    f"the error accumulated for the convergence test is `{ast.unparse(adds[0].value)}`, which for diff = x + i*y equals `{term}` instead of the squared modulus x**2 + y**2: "
                    "for complex fields it is not positive definite, so the fixed-point iteration stops although the iterate still changes and the step is not the implicit scheme",
                    line=adds[0].lineno,
                )
            # mean and squared tolerance
            ok_mean = len(divs) == 1 and ast.unparse(divs[0].value).endswith(".size")
            tdefs = [a for a in ast.walk(f.parent.node if f.parent else f.node) if isinstance(a, ast.Assign) and any(isinstance(tt, ast.Name) and tt.id == tol for tt in a.targets)]
            ok_tol = len(tdefs) == 1 and isinstance(tdefs[0].value, ast.BinOp) and isinstance(tdefs[0].value.op, ast.Pow) and const_value(tdefs[0].value.right) == 2 and ast.unparse(tdefs[0].value.left).endswith("maxerror")
            rep.oblige(f"{qn}: mean squared change compared with maxerror**2", ok_mean and ok_tol, {"normalisation": [ast.unparse(v) for v in divs], "tolerance": [ast.unparse(v) for v in tdefs]})
            if not (ok_mean and ok_tol):
                rep.violation("C06.convergence-measure", f"{f.ref}::scale", f"the squared error is not a mean over the cells compared with maxerror**2 (normalisation {[ast.unparse(v) for v in divs]}, tolerance {[ast.unparse(v) for v in tdefs]})", line=t.lineno)
    rep.floor("fixed-point iteration loops with a convergence test", n, 3)


def _owner_loop(loop: ast.For, node: ast.AST) -> bool:
    """is `loop` the innermost for-loop around node"""
    best = None
    for l in ast.walk(loop):
        if isinstance(l, ast.For) and any(x is node for x in ast.walk(l)):
            if best is None or any(x is l for x in ast.walk(best)):
                best = l
    return best is loop



def check_rhs_results_not_mutated(rep: Report, ix):
    """the compiled right-hand side may return (an alias of) its argument -- e.g. for du/dt = u the numba rhs hands back the
    state array itself -- so a stepper that updates the returned array in place (`k1 = rhs(u, t); k1 *= dt`) changes the state
    before the remaining stages are evaluated, while the interpreted rhs always allocates: the back-ends diverge and the step
    is no longer the scheme.  Rule: in every stepping closure no value bound directly to a call of the rate function is the
    target of an augmented assignment, an element store or an `out=` argument."""
    rate_makers = ("make_pde_rhs", "make_evolution_rate", "_make_pde_rhs")
    n = 0
    files = [m for rel, m in ix.modules.items() if rel.startswith("pde/solvers/") or rel == "pde/backends/numba/_solvers.py"]
    for m in files:
        for f in m.functions.values():
            if f.parent is None:
                continue
            # names of rate functions visible in this closure: bound in an enclosing function from a rate maker
            rate_names = set()
            p = f.parent
            while p is not None:
                for st in ast.walk(p.node):
                    if isinstance(st, ast.Assign) and len(st.targets) == 1 and isinstance(st.targets[0], ast.Name) and isinstance(st.value, ast.Call) and dotted(st.value.func).split(".")[-1] in rate_makers:
                        rate_names.add(st.targets[0].id)
                p = p.parent
            rate_names |= {a.arg for a in f.node.args.args if a.arg in ("rhs", "rhs_pde")}
            if not rate_names:
                continue
            own_nested = {id(x) for g in f.nested() for x in ast.walk(g.node)}
            bound: dict[str, int] = {}
            for st in ast.walk(f.node):
                if id(st) in own_nested:
                    continue
                if isinstance(st, ast.Assign) and len(st.targets) == 1 and isinstance(st.targets[0], ast.Name) and isinstance(st.value, ast.Call) and isinstance(st.value.func, ast.Name) and st.value.func.id in rate_names:
                    bound[st.targets[0].id] = st.lineno
            if not bound:
                continue
            n += 1
            rep.saw("stepping closures calling the rate function", f.ref)
            for st in ast.walk(f.node):
                if id(st) in own_nested:
                    continue
                tgt = None
                if isinstance(st, ast.AugAssign):
                    t = st.target
                    base = t.value if isinstance(t, ast.Subscript) else t
                    if isinstance(base, ast.Name) and base.id in bound:
                        tgt = (base.id, ast.unparse(st)[:60])
                elif isinstance(st, ast.Assign):
                    for t in st.targets:
                        if isinstance(t, ast.Subscript) and isinstance(t.value, ast.Name) and t.value.id in bound:
                            tgt = (t.value.id, ast.unparse(st)[:60])
                elif isinstance(st, ast.Call):
                    for k in st.keywords:
                        if k.arg == "out" and isinstance(k.value, ast.Name) and k.value.id in bound:
                            tgt = (k.value.id, ast.unparse(st)[:60])
                if tgt:
                    # a later re-binding of the same name to a fresh expression before the update would be fine; keep it simple:
                    # only names whose every binding is a rate call are judged
                    binds = [x for x in ast.walk(f.node) if id(x) not in own_nested and isinstance(x, ast.Assign) and any(isinstance(tt, ast.Name) and tt.id == tgt[0] for tt in x.targets)]
                    if all(isinstance(b.value, ast.Call) and isinstance(b.value.func, ast.Name) and b.value.func.id in rate_names for b in binds):
                        rep.violation(
                            "C06.rhs-result-mutated",
                            f"{f.ref}::{tgt[0]}",
                            f"`{tgt[1]}` updates in place the array returned by the rate function (bound at line {bound[tgt[0]]}); a compiled rate may return its argument (du/dt = u), so this changes "
                            "the state between the stages and the interpreted and compiled steppers disagree",
                            line=st.lineno,
                        )
    rep.oblige("no stepping closure updates the array returned by the rate function in place", not any(x.rule == "C06.rhs-result-mutated" for x in rep.findings), n)
    rep.floor("stepping closures that bind a result of the rate function", n, 5)


def check_hook_result_reaches_state(rep: Report, ix) -> None:
    """the post-step hook *returns* the state ("must return the state data ..., which it can modify in place"): the
    interpreted fixed stepper copies the returned array back into the caller's buffer, so a hook that returns a new
    array works there.  Every stepping loop on the numpy and numba back-ends must do the same, otherwise the back-ends
    diverge (the buffer keeps the state of the first step of each segment).  Rule, per function that calls
    `post_step_hook` and binds its result as `(target, data) = post_step_hook(...)`: the target is a whole-array store
    into the function's buffer parameter (`state_data[...]` / `state_data[:]`), or a local name that is copied into the
    buffer parameter by a whole-array store after the outermost loop containing the call.  Re-binding the buffer
    parameter itself loses the caller's array."""
    mods = [m for m in ix.modules.values() if m.rel.startswith("pde/solvers/") or m.rel == "pde/backends/numba/_solvers.py"]
    n_sites = 0

    def whole_store(t, pname):
        return (
            isinstance(t, ast.Subscript)
            and isinstance(t.value, ast.Name)
            and t.value.id == pname
            and (isinstance(t.slice, ast.Constant) and t.slice.value is Ellipsis or isinstance(t.slice, ast.Slice) and t.slice.lower is None and t.slice.upper is None and t.slice.step is None)
        )

    for m in mods:
        seen_nodes = set()
        for f in m.functions.values():
            if id(f.node) in seen_nodes:
                continue
            seen_nodes.add(id(f.node))
            own = [x for x in _own_nodes(f.node)]
            calls = [x for x in own if isinstance(x, ast.Assign) and isinstance(x.value, ast.Call) and isinstance(x.value.func, ast.Name) and x.value.func.id == "post_step_hook" and isinstance(x.targets[0], ast.Tuple) and len(x.targets[0].elts) == 2]
            if not calls:
                continue
            params = [a.arg for a in f.node.args.args]
            if not params:
                raise AnalysisError(f"{f.ref}: stepping function without a buffer parameter")
            P = params[0]
            for asg in calls:
                n_sites += 1
                rep.saw("hook call sites", f"{f.ref}:{asg.lineno}")
                t0 = asg.targets[0].elts[0]
                ok, why = False, ""
                if whole_store(t0, P):
                    ok = True
                elif isinstance(t0, ast.Name) and t0.id == P:
                    why = f"the result of the hook re-binds the buffer parameter `{P}`: if the hook returns a new array the caller's array is no longer updated"
                elif isinstance(t0, ast.Name):
                    # outermost loop of this function containing the call, and the statements after it in its block
                    chain = _ancestors(f.node, asg)
                    loops = [x for x in chain if isinstance(x, (ast.For, ast.While))]
                    if not loops:
                        raise AnalysisError(f"{f.ref}:{asg.lineno}: hook call outside a stepping loop")
                    outer = loops[0]
                    parent = chain[chain.index(outer) - 1] if chain.index(outer) > 0 else f.node
                    after = []
                    for fld in ("body", "orelse", "finalbody"):
                        blk = getattr(parent, fld, None)
                        if isinstance(blk, list) and outer in blk:
                            after = blk[blk.index(outer) + 1 :]
                    # ... or, still inside the iteration, the statements following the call in its own block
                    holder = chain[-2] if len(chain) >= 2 else f.node
                    for fld in ("body", "orelse", "finalbody"):
                        blk = getattr(holder, fld, None)
                        if isinstance(blk, list) and asg in blk:
                            after = after + blk[blk.index(asg) + 1 :]
                    wb = [st for st in after if isinstance(st, ast.Assign) and len(st.targets) == 1 and whole_store(st.targets[0], P) and isinstance(st.value, ast.Name) and st.value.id == t0.id]
                    ok = bool(wb)
                    if not ok:
                        why = f"the result of the hook is bound to `{t0.id}`, which is never copied back into `{P}` (neither right after the call nor after the loop)"
                else:
                    raise AnalysisError(f"{f.ref}:{asg.lineno}: target `{ast.unparse(t0)}` of the hook result is outside the rule's grammar")
                rep.oblige(f"hook-result-reaches-state:{f.ref}:{asg.lineno}", ok, why or ast.unparse(asg.targets[0]))
                if not ok:
                    rep.violation("C06.hook-result-lost", f"{f.ref}::post_step_hook", f"`{ast.unparse(asg)[:120]}`: {why}; the interpreted fixed stepper copies the hook's result back (`state_data[:] = state`), so the back-ends disagree for hooks that return a new array", line=asg.lineno)
    rep.floor("post-step hook call sites in numpy/numba steppers", n_sites, 7)


def _own_nodes(fnode):
    """nodes of a function body without those of nested functions"""
    out = []
    stack = [st for st in fnode.body if not isinstance(st, (ast.FunctionDef, ast.AsyncFunctionDef, ast.ClassDef))]
    while stack:
        x = stack.pop()
        out.append(x)
        for ch in ast.iter_child_nodes(x):
            if isinstance(ch, (ast.FunctionDef, ast.AsyncFunctionDef, ast.Lambda, ast.ClassDef)):
                continue
            stack.append(ch)
    return out


def _ancestors(fnode, target):
    """statement chain from the function body down to `target` (exclusive of fnode)"""
    path = []

    def rec(node, acc):
        for ch in ast.iter_child_nodes(node):
            if ch is target:
                path.extend(acc + [ch])
                return True
            if isinstance(ch, (ast.FunctionDef, ast.AsyncFunctionDef, ast.Lambda, ast.ClassDef)):
                continue
            if rec(ch, acc + [ch]):
                return True
        return False

    rec(fnode, [])
    return path


def check(tier: str) -> Report:
    rep = Report("C06", tier, "proof", "tableau extraction by abstract interpretation with an uninterpreted right-hand side; rooted-tree order conditions; fixed-point solution of implicit iterations; sibling comparison of stepping loops")
    rep.explanation = (
        "Each single-step closure is interpreted from source on a symbolic state with `rhs` logged as fresh symbols F_n: the stage states "
        "and times give the Butcher tableau (A, b, c) in exact rationals. Obligations: c_i = sum_j a_ij (each right-hand side is evaluated at "
        "the time its stage state belongs to), all rooted-tree order conditions up to the order of the scheme, the stability function on "
        "du/dt = a u. Implicit schemes: the iteration body is read as a map X -> F(X), solved for its fixed point on the linear test "
        "equation. RKF45: propagated weights order 4, embedded weights b + r order 5 (8 + 17 conditions). Adams-Bashforth and the adaptive "
        "loops are compared python vs numba as extracted update summaries, plus the invariant rate == rhs(state, t) of adaptive Euler."
    )
    ix = get_index()
    for name, (rel, clsname, order, stab) in SOLVERS.items():
        try:
            check_explicit(rep, ix, name, rel, clsname, order, stab)
        except (Unsupported, RaisedInCode) as e:
            raise AnalysisError(f"{name}: {e}") from e
    # generic variable-dt step of AdaptiveSolverBase (step doubling) and its error estimate
    try:
        rhs, solver, it, u, ret, step = run_single_step(ix, "pde/solvers/base.py", "AdaptiveSolverBase", "_make_single_step_variable_dt", variable_dt=True)
        A, b, c = tableau_from_log(rhs, it.as_expr(ret))
        _check_tableau(rep, "adaptive-base:variable-dt-euler", "pde/solvers/base.py::AdaptiveSolverBase._make_single_step_variable_dt", A, b, c, 1, 1 + Z)
        rep.saw("steppers", "pde/solvers/base.py::AdaptiveSolverBase._make_single_step_variable_dt")
        rhs, solver, it, u, ret, step = run_single_step(ix, "pde/solvers/base.py", "AdaptiveSolverBase", "_make_single_step_error_estimate", variable_dt=True)
        new_state, err = ret
        A, b, c = tableau_from_log(rhs, it.as_expr(new_state))
        # the returned state is the two-half-step solution: last two stages
        ref = "pde/solvers/base.py::AdaptiveSolverBase._make_single_step_error_estimate"
        rep.saw("steppers", ref)
        _check_tableau(rep, "adaptive-base:step-doubling", ref, A, b, c, 1, None, role="single_step_error_estimate")
        ok = [str(x) for x in c] == ["0", "0", "1/2"] and [str(x) for x in b] == ["0", "1/2", "1/2"]
        rep.oblige("adaptive-base:step-doubling returns the two-half-step solution", ok, {"b": [str(x) for x in b], "c": [str(x) for x in c]})
        if not ok:
            rep.violation("C06.error-estimate", f"{ref}::single_step_error_estimate::result", f"step doubling returns weights {b} at times {c}; expected two half steps (0, 1/2, 1/2) at (0, 0, 1/2)")
        F = [f for _, _, f in rhs.calls]
        inner = [a for a in sp.sympify(err).atoms(AppliedUndef)]
        diff = None
        for a in sp.sympify(err).atoms(AppliedUndef):
            if a.func.__name__ == "aabs":
                diff = a.args[0]
        okd = diff is not None and sp.simplify(sp.Abs(sp.expand(diff)) - sp.Abs(sp.expand(DT * F[0] - DT / 2 * F[1] - DT / 2 * F[2]))) == 0
        rep.oblige("adaptive-base:error = |full step - two half steps|", okd, str(err))
        if not okd:
            rep.violation("C06.error-estimate", f"{ref}::single_step_error_estimate::error", f"error estimate is `{err}`, expected max|full step - two half steps|")
    except (Unsupported, RaisedInCode) as e:
        raise AnalysisError(f"adaptive base: {e}") from e
    # RKF45
    try:
        rhs, solver, it, u, ret, step = run_single_step(ix, "pde/solvers/runge_kutta.py", "RungeKuttaSolver", "_make_single_step_error_estimate", variable_dt=True)
        ref = "pde/solvers/runge_kutta.py::RungeKuttaSolver._make_single_step_error_estimate"
        rep.saw("steppers", ref)
        new_state, err = ret
        A, b, c = tableau_from_log(rhs, it.as_expr(new_state))
        F = [f for _, _, f in rhs.calls]
        rep.floor("RKF45 stages", len(F), 6)
        _check_tableau(rep, "rkf45:propagated(order 4)", ref, A, b, c, 4, None, role="single_step_error_estimate")
        local = None
        for a in sp.sympify(err).atoms(AppliedUndef):
            if a.func.__name__ == "aabs":
                local = a.args[0]
        if local is None:
            raise AnalysisError("RKF45: error is not max|error_local|")
        r = linear_weights(local, F, DT)
        bhat = [bi + ri for bi, ri in zip(b, r)]
        rep.sample({"scheme": "rkf45", "c": [str(x) for x in c], "b": [str(x) for x in b], "r": [str(x) for x in r], "A_last_row": [str(x) for x in A[-1]]})
        for p, tname, res in order_conditions(A, bhat, 5):
            ok = res == 0
            rep.oblige(f"rkf45:embedded(b+r):order{p}:{tname}", ok, str(res))
            if not ok:
                rep.violation("C06.order-condition", f"{ref}::single_step_error_estimate::embedded-order{p}:{tname}", f"RKF45: b + r violates the order-{p} condition of tree {tname} (residual {res}): the error estimate is not the difference of a 5th and a 4th order solution")
        rep.oblige("rkf45:error weights sum to 0", sum(r) == 0, str(sum(r)))
        if sum(r) != 0:
            rep.violation("C06.error-estimate", f"{ref}::single_step_error_estimate::error-weights", f"RKF45 error weights sum to {sum(r)}, not 0")
    except (Unsupported, RaisedInCode) as e:
        raise AnalysisError(f"rkf45: {e}") from e
    # implicit schemes
    alpha = sp.Symbol("alpha")
    check_implicit(rep, ix, "implicit-euler", "pde/solvers/implicit.py", "ImplicitSolver", "_make_single_step_fixed_dt_deterministic", 1 / (1 - Z))
    check_implicit(rep, ix, "crank-nicolson", "pde/solvers/crank_nicolson.py", "CrankNicolsonSolver", "_make_single_step_fixed_dt", (1 + Z / 2) / (1 - Z / 2))
    check_adams_bashforth(rep, ix)
    check_adaptive(rep, ix)
    check_convergence_measure(rep, ix)
    check_rhs_results_not_mutated(rep, ix)
    check_hook_result_reaches_state(rep, ix)
    rep.floor("stepping constructs analysed", len(rep.analysed.get("steppers", [])) + len(rep.analysed.get("adaptive loops", [])), 16)
    rep.assumptions += [
        "post-step hooks are the identity on the state (default)",
        "convergence of the fixed-point iterations, the global error bound of adaptive stepping and scipy's integrator are not decided",
        "bit-level equality between backends is not decided (same formulas, numba compiles Python semantics)",
        "fixed-step loop structure (steps, t = t_start + i*dt, return time) is decided by C07",
    ]
    return rep

"""C08 -- trackers fire exactly once per scheduled time, in order, even when stopping.

Decided on the control-flow graphs (E4) of

* ``TrackerCollection.handle / initialize / finalize``  (pde/trackers/base.py)
* ``Controller._run_main_process`` and its stop handler  (pde/solvers/controller.py)
* ``StorageTracker.initialize / handle / finalize``      (pde/storage/base.py)

Variables are identified by *role* (the variable handed to ``handle`` as ``atol``, the
variable bound to ``make_stepper(...)``, the loop target bound to an element of
``tracker_action_times`` ...), never by their spelling, and local temporaries are
resolved through their unique reaching definition, so renamed locals, hoisted
sub-expressions, added logging and reordered independent statements do not matter.
An idiom the rules do not understand is an analysis error (exit 2), never a pass.

Rules (ids):
  C08.due-test                     due test is ``t > t_next - atol`` (strict), handle on its true side
  C08.handle-args                  tracker ``i`` is called with (state, t) of this call
  C08.stop-handler-defers          StopIteration handler cannot leave the loop (no raise/return/break)
  C08.deferred-reraise             the caught error is kept and re-raised after the loop on every path
  C08.slot-advanced-exactly-once   slot i := trackers[i].interrupt.next(t) exactly once on every due path,
                                   never on the not-due path, whether or not the tracker asked to stop
  C08.slot-value                   the slot store has that value and index
  C08.next-action-is-min           time_next_action is min(tracker_action_times) and is what is returned
  C08.slots-aligned                initialize builds the slot list in tracker order
  C08.finalize-all                 TrackerCollection.finalize visits every tracker
  C08.handle-before-step           main loop: handle exactly once, before the single stepper call
  C08.final-handle                 exactly one handle outside the loop, only on the normal exit, own stop handler
  C08.stop-exit-no-step            after a stop request neither the stepper nor handle is reachable
  C08.finalize-postdominates       trackers.finalize post-dominates all three non-raising exits, exactly once
  C08.t-final-assigned / C08.stop-reason-assigned   on every such exit
  C08.atol-sites                   tracker_atol = 0.5*dt, stepper_atol = 1e-6*dt at every dt-proportional site
  C08.adaptive-tolerance           the half-step tracker tolerance is confined to fixed stepping; on the adaptive branch the
                                   tracker tolerance is the small loop tolerance (scheduled times are served exactly)
  C08.storage-pairing              initialize->start_writing, handle->append(time=t), finalize->end_writing
"""

from __future__ import annotations

import ast
from fractions import Fraction

from ..absdom import compare_form, const_number, lin_ratio, lin_str, linform
from ..cfg import CFG, Node, build_cfg, def_value, handler_types, resolve_expr, walk_shallow
from ..core import AnalysisError, Report
from ..index import dotted, get_index

BASE = "pde/trackers/base.py"
CTRL = "pde/solvers/controller.py"
STOR = "pde/storage/base.py"

TRACKER_FACTOR = Fraction(1, 2)
STEPPER_FACTOR = Fraction(1, 10**6)


# ---------------------------------------------------------------------------- helpers
def params(fn: ast.FunctionDef) -> list[str]:
    return [a.arg for a in fn.args.posonlyargs + fn.args.args]


def is_name(e: ast.AST, name: str) -> bool:
    return isinstance(e, ast.Name) and e.id == name


def call_arg(c: ast.Call, pos: int, kw: str) -> ast.AST | None:
    for k in c.keywords:
        if k.arg == kw:
            return k.value
    if len(c.args) > pos and not any(isinstance(a, ast.Starred) for a in c.args[: pos + 1]):
        return c.args[pos]
    return None


def rchain(g: CFG, n: Node, e: ast.AST) -> str:
    """dotted chain of an expression after resolving local aliases"""
    return dotted(resolve_expr(g, n, e))


def calls_where(g: CFG, pred) -> list[tuple[Node, ast.Call]]:
    return [(n, c) for n in g.nodes if g.is_reachable(n) for c in n.calls() if pred(n, c)]


def info_store(n: Node, g: CFG, key: str) -> ast.Assign | None:
    a = n.ast
    if n.kind != "stmt" or not isinstance(a, ast.Assign):
        return None
    for t in a.targets:
        if (
            isinstance(t, ast.Subscript)
            and isinstance(t.slice, ast.Constant)
            and t.slice.value == key
            and rchain(g, n, t.value) == "self.info"
        ):
            return a
    return None


def innermost_loop(g: CFG, n: Node) -> Node | None:
    best = None
    for h in g.nodes:
        if h.kind in ("for", "while") and h is not n:
            body = g.loop_nodes(h)
            if n in body and (best is None or len(body) < len(g.loop_nodes(best))):
                best = h
    return best


def once(g: CFG, start: Node, pred, stop_edges=(), stop_nodes=()) -> set[int]:
    return g.path_counts(start, pred, stop_edges=stop_edges, stop_nodes=stop_nodes)


# ---------------------------------------------------------------------------- TrackerCollection
def check_collection(rep: Report, ix) -> None:
    f = ix.func(BASE, "TrackerCollection.handle")
    ref = f.ref
    rep.saw("functions", ref)
    g = build_cfg(f.node)
    ps = params(f.node)
    if len(ps) < 4:
        raise AnalysisError(f"{ref}: signature (self, state, t, atol) expected, found {ps}")
    _, P_STATE, P_T, P_ATOL = ps[:4]

    hcalls = calls_where(g, lambda n, c: isinstance(c.func, ast.Attribute) and c.func.attr == "handle")
    rep.floor(f"{ref}: tracker handle call sites", len(hcalls), 1)
    if len(hcalls) != 1:
        raise AnalysisError(f"{ref}: expected one tracker handle call, found {len(hcalls)}")
    hn, hc = hcalls[0]
    head = innermost_loop(g, hn)
    if head is None or head.kind != "for":
        raise AnalysisError(f"{ref}: tracker handle call is not inside a for loop")
    it = resolve_expr(g, head, head.ast.iter)
    tg = head.ast.target
    if not (
        isinstance(it, ast.Call)
        and dotted(it.func) == "enumerate"
        and len(it.args) == 1
        and not it.keywords
        and dotted(it.args[0]) == "self.tracker_action_times"
        and isinstance(tg, ast.Tuple)
        and len(tg.elts) == 2
        and all(isinstance(e, ast.Name) for e in tg.elts)
    ):
        raise AnalysisError(f"{ref}: iteration idiom `for i, t_next in enumerate(self.tracker_action_times)` not recognised")
    IDX, TN = tg.elts[0].id, tg.elts[1].id
    loop = g.loop_nodes(head)
    back = [(s, head) for s, _ in g.back_edges(head)]
    rep.sample({"construct": ref, "index": IDX, "slot-time": TN, "loop-nodes": len(loop)})

    # ---- receiver and arguments of the tracker call ---------------------------------
    recv = resolve_expr(g, hn, hc.func.value)
    recv_ok = isinstance(recv, ast.Subscript) and dotted(recv.value) == "self.trackers" and is_name(recv.slice, IDX)
    args = [resolve_expr(g, hn, a) for a in hc.args]
    args_ok = len(args) == 2 and not hc.keywords and is_name(args[0], P_STATE) and is_name(args[1], P_T)
    if not rep.oblige("collection.handle/handle-args", recv_ok and args_ok, ast.unparse(hc)):
        rep.violation("C08.handle-args", f"{ref}::tracker-call", f"tracker call is `{ast.unparse(hc)}`, expected self.trackers[{IDX}].handle({P_STATE}, {P_T})", line=hn.lineno)

    # ---- due test ----------------------------------------------------------------------
    dues = [d for d in loop if d.kind == "if" and any(is_name(x, TN) for x in ast.walk(resolve_expr(g, d, d.ast.test, stop=[TN])))]
    if len(dues) != 1:
        raise AnalysisError(f"{ref}: expected one due test on `{TN}`, found {len(dues)}")
    D = dues[0]
    cf = compare_form(resolve_expr(g, D, D.ast.test, stop=[TN]))
    want = {P_T: Fraction(1), TN: Fraction(-1), P_ATOL: Fraction(1)}
    ok = False
    if cf is not None:
        c = lin_ratio(cf[0], want)
        ok = c is not None and ((c > 0 and cf[1] == ">") or (c < 0 and cf[1] == "<"))
    rep.sample({"construct": ref, "due-test": ast.unparse(D.ast.test), "normal-form": f"{lin_str(cf[0])} {cf[1]} 0" if cf else None})
    true_side = g.reachable(D.succs("true"), avoid=[head], include_srcs=True)
    false_side = g.reachable([s for s in D.succs("false") if s is not head], avoid=[head], include_srcs=True)
    side_ok = hn in true_side and hn not in false_side
    if not rep.oblige("collection.handle/due-test", ok and side_ok, ast.unparse(D.ast.test)):
        rep.violation(
            "C08.due-test",
            f"{ref}::due-test",
            f"due test `{ast.unparse(D.ast.test)}` is not `{P_T} > {TN} - {P_ATOL}` guarding the tracker call on its true side",
            line=D.lineno,
        )

    # ---- StopIteration handler ----------------------------------------------------------
    tries = [p for p, fld in g.enclosing(hn) if isinstance(p, ast.Try) and fld == "body" and g.inside(p, head.ast)]
    stop_handlers: list[Node] = []
    if tries:
        for h in tries[0].handlers:
            if set(handler_types(h)) & {"StopIteration", "Exception", "BaseException", "*"}:
                stop_handlers += g.nodes_of(h)
    if not rep.oblige("collection.handle/stop-handler-present", bool(stop_handlers)):
        rep.violation("C08.stop-handler-defers", f"{ref}::stop-handler", "no StopIteration handler around the tracker call inside the loop: a stop request would skip the remaining due trackers", line=hn.lineno)
    err_vars: set[str] = set()
    for sh in stop_handlers:
        R = g.reachable([sh], avoid=[head])
        leaving = sorted({x.kind for x in R if x not in loop or x in (g.exit, g.raise_exit)} - {"exit", "raise-exit"})
        leaves = any(x not in loop for x in R)
        if not rep.oblige(f"collection.handle/stop-handler-defers@{','.join(handler_types(sh.ast))}", not leaves, leaving):
            rep.violation(
                "C08.stop-handler-defers",
                f"{ref}::stop-handler",
                f"the StopIteration handler can leave the tracker loop ({', '.join(leaving) or 'jump'}): trackers due at the same time are skipped",
                line=sh.lineno,
            )
        if sh.ast.name:
            for st in walk_shallow(list(sh.ast.body)):
                if isinstance(st, ast.Assign) and is_name(st.value, sh.ast.name):
                    err_vars |= {t.id for t in st.targets if isinstance(t, ast.Name)}
    if stop_handlers:
        ok_re = False
        detail = "no `if <kept error> is not None: raise <kept error>` found after the loop"
        for E in sorted(err_vars):
            for I in g.nodes:
                if I.kind != "if" or I in loop or not g.is_reachable(I):
                    continue
                t = I.ast.test
                side = None
                if isinstance(t, ast.Compare) and len(t.ops) == 1 and is_name(t.left, E) and isinstance(t.comparators[0], ast.Constant) and t.comparators[0].value is None:
                    side = "true" if isinstance(t.ops[0], ast.IsNot) else "false" if isinstance(t.ops[0], ast.Is) else None
                elif is_name(t, E):
                    side = "true"
                elif isinstance(t, ast.UnaryOp) and isinstance(t.op, ast.Not) and is_name(t.operand, E):
                    side = "false"
                if side is None:
                    continue
                set_side = I.succs(side)
                raises = [x for x in g.reachable(set_side, include_srcs=True) if x.kind == "raise" and x.ast.exc is not None and is_name(x.ast.exc, E)]
                must_raise = all(not g.can_reach_exit(s) for s in set_side)
                pd = g.can_reach_exit(head) and g.post_dominates(I, head)
                inits = [def_value(d, E) for d in g.defs_reaching(I, E)]
                defs_ok = all(v[0] == "expr" and ((isinstance(v[1], ast.Constant) and v[1].value is None) or any(is_name(v[1], sh.ast.name) for sh in stop_handlers)) for v in inits)
                detail = {"test": ast.unparse(t), "raises": len(raises), "must_raise": must_raise, "post_dominates_loop": pd, "defs_ok": defs_ok}
                if raises and must_raise and pd and defs_ok:
                    ok_re = True
        if not rep.oblige("collection.handle/deferred-reraise", ok_re, detail):
            rep.violation(
                "C08.deferred-reraise",
                f"{ref}::deferred-reraise",
                f"the caught stop request is not re-raised after the loop on every path ({detail})",
                line=(stop_handlers[0].lineno),
            )

    # ---- slot advance --------------------------------------------------------------------
    def slot_store(n: Node) -> ast.Assign | None:
        a = n.ast
        if n.kind == "stmt" and isinstance(a, (ast.Assign, ast.AugAssign)):
            ts = a.targets if isinstance(a, ast.Assign) else [a.target]
            for t in ts:
                if isinstance(t, ast.Subscript) and rchain(g, n, t.value) == "self.tracker_action_times":
                    return a
        return None

    stores = [n for n in g.nodes if g.is_reachable(n) and slot_store(n) is not None]
    rep.floor(f"{ref}: stores to tracker_action_times[...]", len(stores), 1)
    for n in stores:
        a = slot_store(n)
        good = isinstance(a, ast.Assign) and len(a.targets) == 1 and is_name(a.targets[0].slice, IDX) and n in loop
        if good:
            v = resolve_expr(g, n, a.value)
            good = (
                isinstance(v, ast.Call)
                and isinstance(v.func, ast.Attribute)
                and v.func.attr == "next"
                and isinstance(v.func.value, ast.Attribute)
                and v.func.value.attr == "interrupt"
                and isinstance(v.func.value.value, ast.Subscript)
                and dotted(v.func.value.value.value) == "self.trackers"
                and is_name(v.func.value.value.slice, IDX)
                and len(v.args) == 1
                and not v.keywords
                and is_name(v.args[0], P_T)
            )
        rep.sample({"construct": ref, "slot-store": ast.unparse(a)})
        if not rep.oblige(f"collection.handle/slot-value#{stores.index(n)}", good, ast.unparse(a)):
            rep.violation("C08.slot-value", f"{ref}::slot-advance", f"`{ast.unparse(a)}` is not `self.tracker_action_times[{IDX}] = self.trackers[{IDX}].interrupt.next({P_T})` inside the loop", line=n.lineno)
    is_store = lambda n: slot_store(n) is not None  # noqa: E731
    due_counts: set[int] = set()
    for s in D.succs("true"):
        due_counts |= once(g, s, is_store, stop_edges=back)
    notdue_counts: set[int] = set()
    for s in D.succs("false"):
        notdue_counts |= {0} if s is head else once(g, s, is_store, stop_edges=back)
    rep.sample({"construct": ref, "slot advances on due paths": sorted(due_counts), "on not-due paths": sorted(notdue_counts)})
    if not rep.oblige("collection.handle/slot-once-due", due_counts == {1}, sorted(due_counts)):
        rep.violation(
            "C08.slot-advanced-exactly-once",
            f"{ref}::due-branch",
            f"on the paths through the due branch (normal and StopIteration) the slot is advanced {sorted(due_counts)} times, expected exactly once on each",
            line=D.lineno,
        )
    if not rep.oblige("collection.handle/slot-never-not-due", notdue_counts <= {0}, sorted(notdue_counts)):
        rep.violation(
            "C08.slot-advanced-exactly-once",
            f"{ref}::not-due-branch",
            f"the slot of a tracker that is not due is advanced ({sorted(notdue_counts)} times)",
            line=D.lineno,
        )

    # ---- next action time ------------------------------------------------------------------
    def check_next_action(fi, allow_inf: bool) -> None:
        gg = g if fi is f else build_cfg(fi.node)
        n_sites = 0
        for n in gg.nodes:
            a = n.ast
            if n.kind == "stmt" and isinstance(a, ast.Assign) and any(dotted(t) == "self.time_next_action" for t in a.targets):
                n_sites += 1
                v = resolve_expr(gg, n, a.value)
                good = isinstance(v, ast.Call) and dotted(v.func) == "min" and len(v.args) == 1 and not v.keywords and dotted(v.args[0]) == "self.tracker_action_times"
                if allow_inf and dotted(v) in ("math.inf", "np.inf", "numpy.inf"):
                    good = True
                if not rep.oblige(f"{fi.qualname}/next-action-is-min#{n_sites}", good, ast.unparse(a)):
                    rep.violation("C08.next-action-is-min", f"{fi.ref}::time_next_action", f"`{ast.unparse(a)}`: the next action time must be min(self.tracker_action_times)", line=n.lineno)
        rep.floor(f"{fi.ref}: stores to time_next_action", n_sites, 1)
        rets = [n for n in gg.nodes if n.kind == "return" and gg.is_reachable(n)]
        for k, r in enumerate(rets):
            v = resolve_expr(gg, r, r.ast.value) if r.ast.value is not None else None
            good = v is not None and (dotted(v) == "self.time_next_action" or (isinstance(v, ast.Call) and dotted(v.func) == "min" and len(v.args) == 1 and dotted(v.args[0]) == "self.tracker_action_times"))
            if not rep.oblige(f"{fi.qualname}/returns-next-action#{k}", good, ast.unparse(r.ast)):
                rep.violation("C08.next-action-is-min", f"{fi.ref}::return", f"`{ast.unparse(r.ast)}` does not return the next action time", line=r.lineno)
        rep.floor(f"{fi.ref}: returns", len(rets), 1)

    check_next_action(f, allow_inf=False)
    fi_init = ix.func(BASE, "TrackerCollection.initialize")
    rep.saw("functions", fi_init.ref)
    check_next_action(fi_init, allow_inf=True)

    # ---- initialize: slots in tracker order ---------------------------------------------------
    gi = build_cfg(fi_init.node)
    pi = params(fi_init.node)
    sites = 0
    for n in gi.nodes:
        a = n.ast
        if n.kind == "stmt" and isinstance(a, ast.Assign) and any(dotted(t) == "self.tracker_action_times" for t in a.targets):
            sites += 1
            v = a.value
            if not isinstance(v, ast.ListComp):
                raise AnalysisError(f"{fi_init.ref}: slot list is not built by a list comprehension")
            gen = v.generators[0]
            good = (
                len(v.generators) == 1
                and not gen.ifs
                and dotted(gen.iter) == "self.trackers"
                and isinstance(gen.target, ast.Name)
                and isinstance(v.elt, ast.Call)
                and isinstance(v.elt.func, ast.Attribute)
                and v.elt.func.attr == "initialize"
                and is_name(v.elt.func.value, gen.target.id)
                and len(pi) >= 3
                and [dotted(x) for x in v.elt.args] + [dotted(k.value) for k in v.elt.keywords] == pi[1:3]
            )
            if not rep.oblige("collection.initialize/slots-aligned", good, ast.unparse(a)):
                rep.violation("C08.slots-aligned", f"{fi_init.ref}::slots", f"`{ast.unparse(a)}` does not initialise one slot per tracker in tracker order", line=n.lineno)
    rep.floor(f"{fi_init.ref}: slot list construction", sites, 1)

    # ---- finalize: every tracker ------------------------------------------------------------------
    ff = ix.func(BASE, "TrackerCollection.finalize")
    rep.saw("functions", ff.ref)
    gf = build_cfg(ff.node)
    fl = [h for h in gf.nodes if h.kind == "for" and dotted(resolve_expr(gf, h, h.ast.iter)) == "self.trackers" and isinstance(h.ast.target, ast.Name)]
    if len(fl) != 1:
        raise AnalysisError(f"{ff.ref}: expected one loop over self.trackers, found {len(fl)}")
    h = fl[0]
    var = h.ast.target.id
    fin = lambda n: any(isinstance(c.func, ast.Attribute) and c.func.attr == "finalize" and is_name(resolve_expr(gf, n, c.func.value), var) for c in n.calls())  # noqa: E731
    cnt: set[int] = set()
    for s in h.succs("true"):
        cnt |= once(gf, s, fin, stop_edges=[(x, h) for x, _ in gf.back_edges(h)])
    body = gf.loop_nodes(h)
    leaves = any(x not in body for x in gf.reachable(h.succs("true"), avoid=[h], include_srcs=True))
    always = gf.can_reach_exit(gf.entry) and gf.post_dominates(h, gf.entry)
    if not rep.oblige("collection.finalize/all-trackers", cnt == {1} and not leaves and always, {"per-iteration": sorted(cnt), "leaves": leaves, "always": always}):
        rep.violation("C08.finalize-all", f"{ff.ref}::loop", f"not every tracker is finalised exactly once (per iteration {sorted(cnt)}, loop can be left early: {leaves}, loop unconditional: {always})", line=h.lineno)


# ---------------------------------------------------------------------------- Controller
def atol_sites(rep: Report, g: CFG, ref: str, var: str, role: str, factor: Fraction, other_var: str | None = None) -> None:
    """every definition of the tolerance variable is factor*dt, or a positive constant
    inside the `dt is None` branch"""
    n_dt = 0
    n_const = 0
    for n in g.all_defs(var):
        if not g.is_reachable(n):
            continue
        val = def_value(n, var)
        if val[0] != "expr":
            raise AnalysisError(f"{ref}: definition of `{var}` at line {n.lineno} is not a plain assignment")
        e = val[1]
        c = const_number(e)
        if c is not None:
            in_none = any(
                isinstance(p, ast.If)
                and fld == "body"
                and isinstance(p.test, ast.Compare)
                and len(p.test.ops) == 1
                and isinstance(p.test.ops[0], ast.Is)
                and isinstance(p.test.comparators[0], ast.Constant)
                and p.test.comparators[0].value is None
                for p, fld in g.enclosing(n)
            )
            okc = c > 0 and in_none
            n_const += 1
            rep.sample({"construct": ref, "role": role, "value": ast.unparse(e), "kind": "constant (dt unknown)"})
            if not rep.oblige(f"controller/{role}-constant-site#{n_const}", okc, ast.unparse(e)):
                rep.violation("C08.atol-sites", f"{ref}::{role}", f"`{var} = {ast.unparse(e)}`: a constant tolerance is only allowed (positive) where dt is unknown", line=n.lineno)
            elif in_none:
                # "unknown" means unknown to the solver as well: the tested name must (also) be defined from the
                # solver's published `dt` before the test -- a caller who leaves dt to the solver still gets steps of
                # that size, and a constant tolerance serves every tracker one step late
                tested = [
                    p.test.left.id
                    for p, fld in g.enclosing(n)
                    if isinstance(p, ast.If) and fld == "body" and isinstance(p.test, ast.Compare) and isinstance(p.test.left, ast.Name) and isinstance(p.test.ops[0], ast.Is)
                ]
                for nm in tested[-1:]:
                    from_solver = False
                    for d in g.defs_reaching(n, nm):
                        v = def_value(d, nm)
                        if v[0] == "expr" and isinstance(v[1], ast.Call) and isinstance(v[1].func, ast.Attribute) and v[1].func.attr == "get" and v[1].args and isinstance(v[1].args[0], ast.Constant) and v[1].args[0].value == "dt":
                            from_solver = True
                    if not rep.oblige(f"controller/{role}-constant-site#{n_const}: `{nm}` falls back to the solver's own dt first", from_solver, nm):
                        rep.violation(
                            "C08.atol-sites",
                            f"{ref}::{role}::dt-fallback",
                            f"`{var} = {ast.unparse(e)}` is used whenever the caller passed no `{nm}`: no definition of `{nm}` from the solver's published step (`<info>.get('dt')`) reaches this branch, "
                            "so a solver stepping with its default dt gets a constant tolerance and every scheduled time between two steps is served a full step late (not within dt/2)",
                            line=n.lineno,
                        )
            continue
        # adaptivity guard: ('adaptive' | 'fixed' | None) from the enclosing `if <adaptive flag>:` branches
        guard = adaptivity_guard(g, n)
        if role == "tracker_atol" and guard == "adaptive":
            # an adaptive stepper stops exactly at the next interrupt: the tracker tolerance must be of the
            # size of the loop-termination tolerance (the stepper tolerance variable or <= 1e-6 * dt)
            lf_a = linform(e)
            small = False
            if isinstance(e, ast.Name) and other_var is not None and e.id == other_var:
                small = True
            elif lf_a is not None and len(lf_a) == 1:
                (nm_a, co_a), = lf_a.items()
                small = nm_a != "1" and co_a <= STEPPER_FACTOR
            n_dt += 1
            rep.sample({"construct": ref, "role": role, "value": ast.unparse(e), "branch": "adaptive stepping"})
            if not rep.oblige(f"controller/{role}-adaptive-site#{n_dt}", small, ast.unparse(e)):
                rep.violation(
                    "C08.adaptive-tolerance",
                    f"{ref}::{role}::adaptive-branch",
                    f"`{var} = {ast.unparse(e)}` on the adaptive-stepping branch: adaptive steppers reach scheduled times exactly, so the tolerance must be the small loop tolerance (<= {float(STEPPER_FACTOR):g} * dt)",
                    line=n.lineno,
                )
            continue
        lf = linform(e)
        good = False
        got = ast.unparse(e)
        if lf is not None and len(lf) == 1:
            (nm, co), = lf.items()
            # the atom must be the solver's dt: parameter or <...>.get('dt')
            srcs = []
            if nm != "1" and "." not in nm:
                ds = set(g.defs_reaching(n, nm))
                ds |= {n} if nm in g.defs_at(n) else set()
                for d in ds:
                    v = def_value(d, nm)
                    srcs.append(v[0] == "param" or (v[0] == "expr" and isinstance(v[1], ast.Call) and isinstance(v[1].func, ast.Attribute) and v[1].func.attr == "get" and v[1].args and isinstance(v[1].args[0], ast.Constant) and v[1].args[0].value == "dt"))
            is_dt = bool(srcs) and all(srcs)
            good = is_dt and co == factor
            got = f"{co} * {nm}" + ("" if is_dt else " (not the solver's dt)")
        n_dt += 1
        rep.sample({"construct": ref, "role": role, "value": ast.unparse(e), "normal-form": got})
        if not rep.oblige(f"controller/{role}-dt-site#{n_dt}", good, got):
            rep.violation("C08.atol-sites", f"{ref}::{role}", f"`{var} = {ast.unparse(e)}` (the variable in the role of {role}) is {got}, expected {float(factor):g} * dt at every site", line=n.lineno)
        elif role == "tracker_atol" and guard != "fixed":
            # half a step is the right tolerance for fixed steps only; an adaptive step can be arbitrarily large,
            # and trackers with a coarser schedule are then served early (0.9, 1.8, 2.7 instead of 1, 2, 3)
            rep.oblige(f"controller/{role}-dt-site#{n_dt}: half-step tolerance only for fixed steps", False, "no branch on the solver's adaptivity encloses the assignment")
            rep.violation(
                "C08.adaptive-tolerance",
                f"{ref}::{role}::unguarded-half-step",
                f"`{var} = {ast.unparse(e)}` is used for every solver: with adaptive stepping `dt` is the current (possibly large) adaptive step, so a tracker is served up to dt/2 "
                "before its scheduled time although the stepper could reach it exactly (property: 'exactly at it for adaptive steppers')",
                line=n.lineno,
            )
    rep.floor(f"{ref}: dt-proportional definitions of {role}", n_dt, 2)


def adaptivity_guard(g: CFG, n) -> str | None:
    """'adaptive' / 'fixed' if the node lies in the body / orelse of an `if <flag>:` whose flag is the
    solver's adaptivity (a name defined from `<info>.get("dt_adaptive"...)` / `<solver>.adaptive`, or such
    an expression itself; `not flag` swaps the branches)"""

    def is_flag_expr(e: ast.AST) -> bool:
        if isinstance(e, ast.Call) and isinstance(e.func, ast.Attribute) and e.func.attr == "get" and e.args and isinstance(e.args[0], ast.Constant) and e.args[0].value == "dt_adaptive":
            return True
        if isinstance(e, ast.Subscript) and isinstance(e.slice, ast.Constant) and e.slice.value == "dt_adaptive":
            return True
        if isinstance(e, ast.Attribute) and e.attr == "adaptive":
            return True
        if isinstance(e, ast.Call) and dotted(e.func) == "getattr" and len(e.args) >= 2 and isinstance(e.args[1], ast.Constant) and e.args[1].value == "adaptive":
            return True
        return False

    def flag_polarity(test: ast.AST):
        neg = False
        while isinstance(test, ast.UnaryOp) and isinstance(test.op, ast.Not):
            neg = not neg
            test = test.operand
        if is_flag_expr(test):
            return not neg
        if isinstance(test, ast.Name):
            ds = list(g.defs_reaching(n, test.id))
            vals = [def_value(d, test.id) for d in ds]
            if vals and all(v[0] == "expr" and is_flag_expr(v[1]) for v in vals):
                return not neg
        return None

    for p, fld in g.enclosing(n):
        if isinstance(p, ast.If) and fld in ("body", "orelse"):
            pol = flag_polarity(p.test)
            if pol is None:
                continue
            in_true = (fld == "body") == pol
            return "adaptive" if in_true else "fixed"
    return None


def check_controller(rep: Report, ix) -> None:
    f = ix.func(CTRL, "Controller._run_main_process")
    ref = f.ref
    rep.saw("functions", ref)
    g = build_cfg(f.node)
    ps = params(f.node)
    if len(ps) < 2:
        raise AnalysisError(f"{ref}: signature (self, state, dt) expected")
    P_STATE = ps[1]

    # roles -------------------------------------------------------------------------------
    stepper_vars = set()
    stop_handler_vars = set()
    for n in g.nodes:
        a = n.ast
        if n.kind == "stmt" and isinstance(a, ast.Assign) and isinstance(a.value, ast.Call) and len(a.targets) == 1 and isinstance(a.targets[0], ast.Name):
            fn = dotted(a.value.func)
            if fn.endswith(".make_stepper"):
                stepper_vars.add(a.targets[0].id)
            if fn == "self._get_stop_handler":
                stop_handler_vars.add(a.targets[0].id)
    if len(stepper_vars) != 1:
        raise AnalysisError(f"{ref}: expected one variable bound to make_stepper(...), found {sorted(stepper_vars)}")
    (STEP,) = stepper_vars
    steps = calls_where(g, lambda n, c: is_name(c.func, STEP))
    handles = calls_where(g, lambda n, c: isinstance(c.func, ast.Attribute) and c.func.attr == "handle" and rchain(g, n, c.func.value) == "self.trackers")
    finals = calls_where(g, lambda n, c: isinstance(c.func, ast.Attribute) and c.func.attr == "finalize" and rchain(g, n, c.func.value) == "self.trackers")
    rep.floor(f"{ref}: stepper calls", len(steps), 1)
    rep.floor(f"{ref}: trackers.handle calls", len(handles), 1)
    step_nodes = {n for n, _ in steps}
    W = innermost_loop(g, steps[0][0])
    if W is None or any(innermost_loop(g, n) is not W for n in step_nodes):
        raise AnalysisError(f"{ref}: the stepper is not called inside one main loop")
    loop = g.loop_nodes(W)
    back = [(s, W) for s, _ in g.back_edges(W)]
    in_loop = [(n, c) for n, c in handles if n in loop]
    out_loop = [(n, c) for n, c in handles if n not in loop]
    is_handle = lambda n: any(n is m for m, _ in handles)  # noqa: E731
    is_step = lambda n: n in step_nodes  # noqa: E731
    rep.sample({"construct": ref, "main-loop": W.text, "stepper-var": STEP, "handle calls in loop": len(in_loop), "outside": len(out_loop)})

    # ---- C08.handle-before-step ----------------------------------------------------------
    hc: set[int] = set()
    sc: set[int] = set()
    for s in W.succs("true"):
        hc |= once(g, s, is_handle, stop_edges=back)
        sc |= once(g, s, is_step, stop_edges=back)
    before = g.must_pass(W.succs("true"), step_nodes, is_handle) and all(g.dominates(W, n) for n in step_nodes)
    okh = hc == {1} and sc == {1} and before
    rep.sample({"construct": ref, "per-iteration handle calls": sorted(hc), "per-iteration stepper calls": sorted(sc), "handle precedes stepper": before})
    if not rep.oblige("controller/handle-before-step", okh, {"handle": sorted(hc), "step": sorted(sc), "before": before}):
        rep.violation(
            "C08.handle-before-step",
            f"{ref}::main-loop",
            f"per loop iteration trackers.handle is called {sorted(hc)} times and the stepper {sorted(sc)} times; handle precedes stepper on every path: {before} (expected exactly once each, handle first)",
            line=W.lineno,
        )
    atol_vars: dict[str, str] = {}
    for k, (n, c) in enumerate(in_loop):
        a0, a1, a2 = call_arg(c, 0, "state"), call_arg(c, 1, "t"), call_arg(c, 2, "atol")
        good = a0 is not None and is_name(a0, P_STATE) and isinstance(a1, ast.Name) and isinstance(a2, ast.Name)
        if good:
            atol_vars.setdefault("tracker_atol", a2.id)
            good = atol_vars["tracker_atol"] == a2.id
        if not rep.oblige(f"controller/loop-handle-args#{k}", good, ast.unparse(c)):
            rep.violation("C08.handle-before-step", f"{ref}::loop-handle-args", f"`{ast.unparse(c)}`: expected handle({P_STATE}, <t>, atol=<tracker tolerance variable>)", line=n.lineno)

    # ---- the try around the loop and its exits ------------------------------------------------
    mts = [p for p, fld in g.enclosing(W) if isinstance(p, ast.Try) and fld == "body"]
    if not mts:
        raise AnalysisError(f"{ref}: the main loop is not inside a try statement")
    MT = mts[0]
    hs = [x for h in MT.handlers if "StopIteration" in handler_types(h) for x in g.nodes_of(h)]
    hk = [x for h in MT.handlers if "KeyboardInterrupt" in handler_types(h) for x in g.nodes_of(h)]
    other = [x for h in MT.handlers if not set(handler_types(h)) & {"StopIteration", "KeyboardInterrupt"} for x in g.nodes_of(h)]
    if not rep.oblige("controller/stop-handler-present", len(hs) == 1, len(hs)):
        rep.violation("C08.stop-exit-no-step", f"{ref}::stop-handler", "the main loop has no `except StopIteration` handler: a stop request aborts the run without finalising", line=MT.lineno)
        return
    HS = hs[0]
    normal = W.succs("false")
    if not normal:
        raise AnalysisError(f"{ref}: main loop has no normal exit")
    exits: dict[str, list[Node]] = {"stop": [HS], "normal": normal}
    if hk:
        exits["interrupt"] = hk
    rep.floor(f"{ref}: non-raising exits of the main try", len(exits), 3)

    # ---- C08.final-handle ------------------------------------------------------------------------
    okf = len(out_loop) == 1
    detail: dict = {"handle calls outside the loop": len(out_loop)}
    if okf:
        HF, cf_ = out_loop[0]
        handlers_all = hs + hk + other
        from_handlers = not g.no_path(handlers_all, HF)
        dom = g.dominates(W, HF)
        uncond = g.must_pass(normal, g.exit, lambda n: n is HF)
        a0, a1, a2 = call_arg(cf_, 0, "state"), call_arg(cf_, 1, "t"), call_arg(cf_, 2, "atol")
        args_ok = a0 is not None and is_name(a0, P_STATE) and isinstance(a1, ast.Name) and isinstance(a2, ast.Name)
        if args_ok:
            atol_vars["stepper_atol"] = a2.id
        inner = [s for s, l in HF.succ if l == "exc" and s.kind == "except" and set(handler_types(s.ast)) & {"StopIteration"}]
        inner_ok = bool(inner) and all(g.can_reach_exit(s) and g.raise_exit not in g.reachable([s]) for s in inner)
        detail.update({"reachable from a handler": from_handlers, "after the loop": dom, "unconditional on the normal exit": uncond, "args": ast.unparse(cf_), "own StopIteration handler that does not raise": inner_ok})
        okf = (not from_handlers) and dom and uncond and args_ok and inner_ok
        if inner_ok:
            exits["stop-at-final-handle"] = inner
    rep.sample({"construct": ref, "final-handle": detail})
    if not rep.oblige("controller/final-handle", okf, detail):
        rep.violation(
            "C08.final-handle",
            f"{ref}::final-handle",
            f"the final trackers.handle must be called exactly once after the loop, only on the no-exception exit, with its own non-raising StopIteration handler: {detail}",
            line=(out_loop[0][0].lineno if out_loop else W.lineno),
        )

    # ---- stop exit: nothing more is stepped or handled -----------------------------------------------
    no_step = g.no_path(HS, step_nodes)
    no_handle = g.no_path(HS, [n for n, _ in handles])
    if not rep.oblige("controller/stop-exit-no-step", no_step and no_handle, {"stepper unreachable": no_step, "handle unreachable": no_handle}):
        rep.violation(
            "C08.stop-exit-no-step",
            f"{ref}::stop-exit",
            f"after a stop request the stepper is {'un' if no_step else ''}reachable and trackers.handle is {'un' if no_handle else ''}reachable (both must be unreachable: the run ends at that time with the state of that time)",
            line=HS.lineno,
        )

    # ---- finalize / t_final / stop_reason on every non-raising exit ---------------------------------------
    fin_nodes = [n for n, _ in finals]
    if not rep.oblige("controller/finalize-present", len(fin_nodes) >= 1, len(fin_nodes)):
        rep.violation("C08.finalize-postdominates", f"{ref}::finalize", "self.trackers.finalize(...) is never called", line=f.node.lineno)
    # the closure that classifies the stop request assigns stop_reason on every path
    fh = ix.func(CTRL, "Controller._get_stop_handler._handle_stop_iteration")
    rep.saw("functions", fh.ref)
    gh = build_cfg(fh.node)
    closure_sets_reason = gh.must_pass(gh.entry, gh.exit, lambda n: info_store(n, gh, "stop_reason") is not None)
    rep.note(f"the stop-handler closure assigns info['stop_reason'] on every path: {closure_sets_reason}")

    def sets_reason(n: Node) -> bool:
        if info_store(n, g, "stop_reason") is not None:
            return True
        return closure_sets_reason and any(isinstance(c.func, ast.Name) and c.func.id in stop_handler_vars for c in n.calls())

    def sets_t_final(n: Node) -> bool:
        return info_store(n, g, "t_final") is not None

    for role, xs in exits.items():
        for x in xs:
            if not g.can_reach_exit(x):
                if not rep.oblige(f"controller/exit-{role}-returns", False):
                    rep.violation("C08.finalize-postdominates", f"{ref}::{role}-exit", f"the {role} exit never returns normally", line=x.lineno)
                continue
            pdok = bool(fin_nodes) and any(g.post_dominates(fn, x) for fn in fin_nodes)
            if not rep.oblige(f"controller/finalize-postdominates-{role}", pdok):
                rep.violation("C08.finalize-postdominates", f"{ref}::{role}-exit", f"trackers.finalize does not post-dominate the {role} exit: trackers stay un-finalised on some path", line=x.lineno)
            tf = g.must_pass(x, g.exit, sets_t_final)
            if not rep.oblige(f"controller/t-final-assigned-{role}", tf):
                rep.violation("C08.t-final-assigned", f"{ref}::{role}-exit", f"info['t_final'] is not assigned on every path from the {role} exit", line=x.lineno)
            # (also for a stop raised in the final handle: "Reached final time", set before that handle, is not the
            # reason of a stop request -- the statement requires the stop reason to be reported)
            sr = g.must_pass(x, g.exit, sets_reason)
            if not rep.oblige(f"controller/stop-reason-assigned-{role}", sr):
                rep.violation("C08.stop-reason-assigned", f"{ref}::{role}-exit", f"info['stop_reason'] is not assigned on every path from the {role} exit", line=x.lineno)
    if fin_nodes:
        cnt = once(g, g.entry, lambda n: n in fin_nodes, stop_nodes=[g.exit])
        if not rep.oblige("controller/finalize-exactly-once", cnt == {1}, sorted(cnt)):
            rep.violation("C08.finalize-postdominates", f"{ref}::finalize-once", f"trackers.finalize is called {sorted(cnt)} times on the non-raising paths, expected exactly once", line=fin_nodes[0].lineno)

    # ---- tolerances ---------------------------------------------------------------------------------------
    if "tracker_atol" in atol_vars:
        atol_sites(rep, g, ref, atol_vars["tracker_atol"], "tracker_atol", TRACKER_FACTOR, atol_vars.get("stepper_atol"))
    if "stepper_atol" in atol_vars:
        atol_sites(rep, g, ref, atol_vars["stepper_atol"], "stepper_atol", STEPPER_FACTOR)
    rep.floor(f"{ref}: tolerance roles identified", len(atol_vars), 1)


# ---------------------------------------------------------------------------- StorageTracker
def check_storage_tracker(rep: Report, ix) -> None:
    ix.cls(STOR, "StorageTracker")

    def storage_calls(g: CFG, meth: str):
        return calls_where(g, lambda n, c: isinstance(c.func, ast.Attribute) and c.func.attr == meth and rchain(g, n, c.func.value) == "self.storage")

    # initialize -> start_writing, returns the first time of the base class
    fi = ix.func(STOR, "StorageTracker.initialize")
    rep.saw("functions", fi.ref)
    g = build_cfg(fi.node)
    sw = {n for n, _ in storage_calls(g, "start_writing")}
    cnt = once(g, g.entry, lambda n: n in sw, stop_nodes=[g.exit])
    rets = [n for n in g.nodes if n.kind == "return" and g.is_reachable(n)]
    ret_ok = bool(rets)
    for r in rets:
        v = resolve_expr(g, r, r.ast.value) if r.ast.value is not None else None
        ret_ok = ret_ok and isinstance(v, ast.Call) and dotted(v.func) == "super().initialize"
    if not rep.oblige("storage-tracker/initialize", cnt == {1} and ret_ok, {"start_writing": sorted(cnt), "returns super().initialize": ret_ok}):
        rep.violation("C08.storage-pairing", f"{fi.ref}::start_writing", f"initialize must call self.storage.start_writing exactly once (found {sorted(cnt)}) and return super().initialize(...) ({ret_ok})", line=fi.node.lineno)

    fh = ix.func(STOR, "StorageTracker.handle")
    rep.saw("functions", fh.ref)
    g = build_cfg(fh.node)
    ps = params(fh.node)
    if len(ps) < 3:
        raise AnalysisError(f"{fh.ref}: signature (self, field, t) expected")
    ap = storage_calls(g, "append")
    apn = {n for n, _ in ap}
    cnt = once(g, g.entry, lambda n: n in apn, stop_nodes=[g.exit])
    args_ok = bool(ap)
    for n, c in ap:
        tm = call_arg(c, 1, "time")
        fld = call_arg(c, 0, "field")
        fld_r = resolve_expr(g, n, fld) if fld is not None else None
        fld_ok = fld_r is not None and (
            is_name(fld_r, ps[1])
            or (isinstance(fld_r, ast.Call) and dotted(fld_r.func) == "self._transform" and len(fld_r.args) == 2 and is_name(fld_r.args[0], ps[1]) and is_name(fld_r.args[1], ps[2]))
        )
        args_ok = args_ok and tm is not None and is_name(resolve_expr(g, n, tm), ps[2]) and fld_ok
        rep.sample({"construct": fh.ref, "append": ast.unparse(c)})
    if not rep.oblige("storage-tracker/handle", cnt == {1} and args_ok, {"append": sorted(cnt), "args": args_ok}):
        rep.violation("C08.storage-pairing", f"{fh.ref}::append", f"handle must call self.storage.append(<field>, time={ps[2]}) exactly once (found {sorted(cnt)}, arguments ok: {args_ok})", line=fh.node.lineno)

    ff = ix.func(STOR, "StorageTracker.finalize")
    rep.saw("functions", ff.ref)
    g = build_cfg(ff.node)
    ew = {n for n, _ in storage_calls(g, "end_writing")}
    cnt = once(g, g.entry, lambda n: n in ew, stop_nodes=[g.exit])
    if not rep.oblige("storage-tracker/finalize", cnt == {1}, sorted(cnt)):
        rep.violation("C08.storage-pairing", f"{ff.ref}::end_writing", f"finalize must call self.storage.end_writing exactly once on every path (found {sorted(cnt)})", line=ff.node.lineno)


def thorough_selftest(rep: Report, minimum: int = 9) -> None:
    """thorough tier: run the checker's own mutation corpus (mutants/<pid>.json) on scratch
    copies of the analysed tree; a mutant that does not behave as recorded makes the checker
    unreliable -> analysis error (exit 2), never a pass.  Skipped inside the self-test itself
    and when the analysed tree has unlisted findings (twins could not exit 0 then)."""
    import os

    if rep.tier != "thorough" or os.environ.get("PDELINT_SELFTEST"):
        return
    from ..core import load_known
    from ..selftest import run_selftest

    known = {k["key"] for k in load_known() if k.get("property") == rep.pid and k.get("status") == "known"}
    if any(f.key not in known for f in rep.findings):
        rep.note("mutation self-test skipped: the analysed tree has findings that are not listed as known")
        return
    res = run_selftest(rep.pid, jobs=max(1, (os.cpu_count() or 2) // 2))
    bad = [r for r in res if not r["ok"]]
    for r in res:
        rep.oblige(f"selftest:{r['name']}", r["ok"], r.get("why") or r.get("expect"))
    rep.extra["selftest"] = {
        "mutants": len(res),
        "as_expected": len(res) - len(bad),
        "fire": sum(1 for r in res if r.get("expect") == "fire"),
        "silent": sum(1 for r in res if r.get("expect") == "silent"),
    }
    rep.floor("mutants in the self-test corpus", len(res), minimum)
    if bad:
        raise AnalysisError("mutation self-test failed: " + "; ".join(f"{r['name']}: {r.get('why')}" for r in bad[:5]))


def check_stepper_rounding(rep: Report, ix) -> None:
    """"served by a call within dt/2": the controller asks the stepper to advance to the next scheduled time; the interpreted
    fixed stepper must land on the step nearest to it (max(1, round((t_end - t_start)/dt)) steps, returning the time actually
    reached).  Decided by the control-skeleton witness search shared with C07 (the compiled steppers' step formula is C07's)."""
    from .c07 import FIXED_STEPPERS, skeleton_witness

    rel, qn = FIXED_STEPPERS[0][:2]
    fi = ix.func(rel, qn)
    rep.saw("functions", fi.ref)
    w = skeleton_witness(fi)
    rep.oblige("interpreted fixed stepper lands on the step nearest to the requested time", w is None, w)
    if w is not None:
        rep.violation("C08.stepper-rounding", f"{fi.ref}::nearest-step", f"the stepper does not stop at the step nearest to the requested (scheduled) time: {w}", line=fi.node.lineno)


def check_adaptive_flag_declared(rep: Report, ix) -> None:
    """the controller chooses the tracker tolerance from info['dt'] and info['dt_adaptive'] of the solver: half a step is right
    only for steppers that advance in whole steps of dt.  Rule: every solver `make_stepper` that publishes info['dt'] also
    assigns info['dt_adaptive'] (directly or through super().make_stepper), and a make_stepper that does not build its stepper
    from the fixed-step machinery (_make_inner_stepper / back-end make_stepper) -- e.g. the scipy integrator, which stops
    exactly at the requested time -- declares it True."""
    n = 0
    for rel, m in sorted(ix.modules.items()):
        if not rel.startswith("pde/solvers/"):
            continue
        for fi in m.functions.values():
            if fi.node.name != "make_stepper" or fi.cls is None:
                continue
            writes = {}
            for st in ast.walk(fi.node):
                if isinstance(st, ast.Assign):
                    for t in st.targets:
                        if isinstance(t, ast.Subscript) and ast.unparse(t.value) == "self.info" and isinstance(t.slice, ast.Constant):
                            writes[t.slice.value] = st.value
            delegates = any(isinstance(c, ast.Call) and isinstance(c.func, ast.Attribute) and c.func.attr == "make_stepper" and isinstance(c.func.value, ast.Call) and dotted(c.func.value.func) == "super" for c in ast.walk(fi.node))
            if "dt" not in writes and delegates:
                continue
            n += 1
            rep.saw("functions", fi.ref)
            fixed_machinery = any(isinstance(c, ast.Call) and isinstance(c.func, ast.Attribute) and c.func.attr in ("_make_inner_stepper", "make_stepper") and not (isinstance(c.func.value, ast.Call) and dotted(c.func.value.func) == "super") for c in ast.walk(fi.node))
            declared = "dt_adaptive" in writes or delegates
            ok = declared
            why = ""
            if not declared:
                why = "info['dt'] is published without info['dt_adaptive']"
            elif not fixed_machinery and not delegates:
                v = writes.get("dt_adaptive")
                if not (isinstance(v, ast.Constant) and v.value is True):
                    ok = False
                    why = f"the stepper is not built from the fixed-step machinery, yet info['dt_adaptive'] = {ast.unparse(v) if v is not None else None}"
            rep.oblige(f"{fi.qualname}: adaptivity of the stepper is declared to the controller", ok, why or {k: ast.unparse(v)[:40] for k, v in writes.items()})
            if not ok:
                rep.violation(
                    "C08.adaptive-tolerance",
                    f"{fi.ref}::dt_adaptive",
                    f"{why}: the controller then treats info['dt'] as a fixed step and lets trackers fire up to dt/2 before their scheduled time although this stepper stops exactly at the requested time",
                    line=fi.node.lineno,
                )
    rep.floor("solver make_stepper methods publishing a time step", n, 2)


INTERRUPTS = "pde/trackers/interrupts.py"


def check_interrupt_copies(rep: Report, ix) -> None:
    """TrackerCollection.from_data hands every tracker after the first a `.copy()` of an interrupt object it has
    already seen, so the copy decides when those trackers fire.  For every interrupt class the resolved `copy` is
    either a generic copy of the whole object (copy.copy / copy.deepcopy of self: every attribute is carried) or a
    reconstruction `self.__class__(...)` that passes *every* parameter of the resolved constructor, each from the
    attribute of the same name (or a copy of it) -- a parameter that is left out silently falls back to its default
    (a shared `ConstantInterrupts(dt, t_start)` would fire from the start of the simulation for the second tracker)."""
    base = ix.cls(INTERRUPTS, "InterruptsBase")
    classes = [c for c in ix.subclasses(base) if c.module.rel == INTERRUPTS]
    rep.floor("interrupt classes", len(classes), 5)
    # the cooperating site: shared interrupt objects are copied
    fd = ix.func(BASE, "TrackerCollection.from_data")
    copies = [x for x in ast.walk(fd.node) if isinstance(x, ast.Call) and isinstance(x.func, ast.Attribute) and x.func.attr == "copy" and "interrupt" in ast.unparse(x.func.value)]
    rep.saw("functions", fd.ref)
    rep.note(f"{fd.ref}: {len(copies)} site(s) copying a shared interrupt object")
    for c in classes:
        T = c.find_method("copy")
        I = c.find_method("__init__")
        if T is None:
            raise AnalysisError(f"{c.ref}: copy not resolvable")
        rep.saw("interrupt copies", f"{c.name} -> {T.qualname}")
        rets = [x for x in ast.walk(T.node) if isinstance(x, ast.Return) and x.value is not None]
        if not rets:
            raise AnalysisError(f"{T.ref}: no return value")
        problems = []
        for r in rets:
            v = r.value
            if isinstance(v, ast.Call) and dotted(v.func) in ("copy.copy", "copy.deepcopy") and len(v.args) == 1 and is_name(v.args[0], "self"):
                continue  # whole object
            is_ctor = isinstance(v, ast.Call) and (
                (isinstance(v.func, ast.Attribute) and v.func.attr == "__class__" and is_name(v.func.value, "self"))
                or (isinstance(v.func, ast.Call) and dotted(v.func.func) == "type" and len(v.func.args) == 1 and is_name(v.func.args[0], "self"))
            )
            if not is_ctor:
                raise AnalysisError(f"{T.ref}: `return {ast.unparse(v)}` is neither a generic copy of self nor `self.__class__(...)`")
            if I is None:
                raise AnalysisError(f"{c.ref}: constructor not resolvable")
            a = I.node.args
            if a.vararg or a.kwarg or any(isinstance(x, ast.Starred) for x in v.args) or any(k.arg is None for k in v.keywords):
                raise AnalysisError(f"{T.ref}/{I.ref}: star arguments are outside the grammar of the rule")
            pos = [p.arg for p in a.posonlyargs + a.args][1:]
            allp = pos + [p.arg for p in a.kwonlyargs]
            passed = dict(zip(pos, v.args))
            passed.update({k.arg: k.value for k in v.keywords})
            for p_ in allp:
                if p_ not in passed:
                    problems.append((p_, f"constructor parameter `{p_}` of {I.qualname} is not passed by `{ast.unparse(v)}`: the copy falls back to the default", r.lineno))
                    continue
                reads = {x.attr for x in ast.walk(passed[p_]) if isinstance(x, ast.Attribute) and is_name(x.value, "self")}
                if not reads:
                    problems.append((p_, f"constructor parameter `{p_}` is filled with `{ast.unparse(passed[p_])}`, which does not read the object being copied", r.lineno))
        rep.oblige(f"interrupt-copy:{c.name}: the copy carries every constructor parameter", not problems, [p[1] for p in problems])
        for p_, msg, line in problems:
            rep.violation("C08.interrupt-copy", f"{T.ref}::{c.name}::{p_}", f"{c.name}.copy ({T.qualname}): {msg}; trackers sharing this interrupt object (TrackerCollection.from_data copies it for every tracker after the first) are served on a different schedule", line=line)



def check(tier: str) -> Report:
    rep = Report("C08", tier, "other", "static: control-flow graph queries (dominance, post-dominance, path counting, reachability) + reaching definitions")
    rep.explanation = (
        "Statement-level CFGs with StopIteration exception edges are built for TrackerCollection.handle/initialize/"
        "finalize, Controller._run_main_process (and its stop-handler closure) and StorageTracker.initialize/handle/"
        "finalize.  Rules: due test is t > t_next - atol; the StopIteration handler cannot leave the tracker loop and "
        "the error is re-raised after it; each due tracker's slot is advanced by interrupt.next(t) exactly once on every "
        "path and never when not due; the main loop calls handle exactly once before the single stepper call; exactly one "
        "final handle on the normal exit with its own handler; after a stop request neither stepper nor handle is "
        "reachable; finalize post-dominates every non-raising exit (exactly once) and t_final/stop_reason are assigned; "
        "tracker_atol = 0.5*dt and stepper_atol = 1e-6*dt at every dt-proportional site; storage start/append(time=t)/end pairing."
    )
    rep.trusted = ["CPython ast", "pdelint.cfg (hand-built CFG; implicit exceptions only from calls inside try bodies)"]
    ix = get_index()
    check_collection(rep, ix)
    check_controller(rep, ix)
    check_storage_tracker(rep, ix)
    check_stepper_rounding(rep, ix)
    check_adaptive_flag_declared(rep, ix)
    check_interrupt_copies(rep, ix)
    rep.assumptions += [
        "exceptions other than those raised by calls inside a try body / explicit raise are not modelled",
        "tracker.handle raises only StopIteration (or subclasses) to request a stop; other exceptions abort the run",
        "the number of frames floor(T/D)+1 for arbitrary D/dt is a floating-point question and is not decided",
    ]
    rep.note("not decided: frame counts for incommensurate D/dt (float arithmetic of the interrupt schedule and of the per-segment step rounding)")
    thorough_selftest(rep)
    return rep

"""C05 -- discrete conservation: with periodic / zero-flux ghost cells the volume-weighted
sum of the discrete Laplacian (all grids) and of the central divergence (Cartesian,
conservative spherical) vanishes identically.

Decided as *column-sum identities* on the stencil tables extracted from the operator
kernels (same extraction as C01), with cell volumes extracted from ``cell_volume_data``
of the grid classes and ghost cells folded through the boundary formulas extracted
from the boundary-condition classes (as in C02)."""

from __future__ import annotations

import itertools
import multiprocessing as mp
import os

import sympy as sp

from ..core import AnalysisError, Report
from ..fx import IdxArr, Interp, Model, RaisedInCode, Unsupported, Vec, make_grid_model
from ..index import get_index
from ..kernels import apply_kernel, read_config_defaults, registrations, run_factory, std_overrides
from ..stencil import kernel_table, linear_stencil
from .c02 import LOCAL, bc_model, decide as decide_sizes

# (grid class, n_axes, allowed boundary kinds per axis)
LAPLACE_ROWS = [
    ("CartesianGrid", 1, [("neumann", "periodic")]),
    ("CartesianGrid", 2, [("neumann", "periodic")] * 2),
    ("CartesianGrid", 3, [("neumann", "periodic")] * 3),
    ("PolarSymGrid", 1, [("neumann",)]),
    ("SphericalSymGrid", 1, [("neumann",)]),
    ("CylindricalSymGrid", 2, [("neumann",), ("neumann", "periodic")]),
]
DIVERGENCE_ROWS = [
    ("CartesianGrid", 1, [("normal0", "periodic")]),
    ("CartesianGrid", 2, [("normal0", "periodic")] * 2),
    ("CartesianGrid", 3, [("normal0", "periodic")] * 3),
    ("SphericalSymGrid", 1, [("normal0",)]),
]


def ghost_rule(ix, kind: str, grid: Model, axis: int, upper: bool):
    """(factor, which) with ghost = factor * u[which], which in {'adjacent','opposite'},
    read off the boundary-condition classes (value 0)"""
    clsname = {"neumann": "NeumannBC", "periodic": "_PeriodicBC", "normal0": "NormalDirichletBC"}[kind]
    attrs = {"flip_sign": False} if kind == "periodic" else {"value": sp.Integer(0)}
    bc = bc_model(ix, clsname, grid, axis, upper, 1 if kind == "normal0" else 0, **attrs)
    it = Interp(ix, decide=decide_sizes)
    const, factor, index = it.call(it.getattr(bc, "get_virtual_point_data"), (), {})[:3]
    const, factor, index = (it.as_expr(x) for x in (const, factor, index))
    if sp.simplify(const) != 0:
        raise AnalysisError(f"homogeneous {clsname} has non-zero constant {const}")
    N = grid._attrs["shape"][axis]
    adj = N - 1 if upper else 0
    opp = 0 if upper else N - 1
    if sp.simplify(index - adj) == 0:
        return sp.simplify(factor), "adjacent"
    if sp.simplify(index - opp) == 0:
        return sp.simplify(factor), "opposite"
    raise AnalysisError(f"{clsname}: virtual point reads index {index}, neither adjacent nor opposite")


def cell_volume(ix, grid: Model, idx: tuple):
    """V(cell) = prod_k cell_volume_data[k][idx_k] (valid indices), read from the grid class"""
    it = Interp(ix, decide=decide_sizes)
    data = it.getattr(grid, "cell_volume_data")
    vol = sp.Integer(1)
    for k, d in enumerate(list(data.items) if isinstance(data, Vec) else list(data)):
        if isinstance(d, IdxArr):
            vol *= d.at(idx[k])
        else:
            vol *= it.as_expr(d)
    return vol


def column_sums(ix, grid, table, op_kind, kinds, rank_in):
    """yield (label, coefficient) for every position type combination and component"""
    n = table.n_axes
    syms = table.loop_syms
    Ns = grid._attrs["shape"]
    (term,) = [table.comps[()]]
    st = linear_stencil(term, syms)
    if st is None:
        raise Unsupported("operator is not linear in the cells")
    if ("const",) in st:
        raise Unsupported("operator has a constant term")
    # only axis-aligned offsets are supported (5/7-point stencils)
    for comp, offs in st:
        if sum(1 for o in offs if o != 0) > 1:
            raise Unsupported(f"stencil offset {offs} is not axis aligned")
    comps = sorted({c for c, _ in st})
    m_syms = [sp.Symbol(f"m{k}", integer=True) for k in range(n)]  # padded index of the column cell
    results = []
    types = ["first", "interior", "last"]
    rules = {}
    for k in range(n):
        for upper in (False, True):
            rules[(k, upper)] = ghost_rule(ix, kinds[k], grid, k, upper)
    for comp in comps:
        for tcombo in itertools.product(types, repeat=n):
            m = []
            for k, t in enumerate(tcombo):
                m.append({"first": sp.Integer(1), "interior": m_syms[k], "last": Ns[k]}[t])
            total = sp.Integer(0)
            for (c2, offs), coef in st.items():
                if c2 != comp:
                    continue
                # cell c = m - o reads u[m] directly
                c = [mm - o for mm, o in zip(m, offs)]
                valid = True
                for k, (t, o) in enumerate(zip(tcombo, offs)):
                    if (t == "first" and o > 0) or (t == "last" and o < 0):
                        valid = False  # c_k would be 0 or N+1
                if valid:
                    sub = dict(zip(syms, c))
                    V = cell_volume(ix, grid, tuple(ci - 1 for ci in c))
                    total += V * coef.subs(sub, simultaneous=True)
                # ghost folding: a cell c' reads a ghost along axis k which equals f*u[m]
                nz = [k for k, o in enumerate(offs) if o != 0]
                if len(nz) != 1:
                    continue
                k = nz[0]
                o = offs[k]
                upper = o > 0
                f, which = rules[(k, upper)]
                # the normal-component rule applies to the component along this axis only
                if kinds[k] == "normal0" and comp != (k,):
                    continue
                if which == "adjacent":
                    # reading cell c' is the boundary cell itself: c'_k = 1 (lower) / N (upper), and the
                    # ghost equals f*u[c'], so the column cell must be of that type
                    need = "last" if upper else "first"
                    if tcombo[k] != need:
                        continue
                    cprime = list(m)
                else:  # opposite: ghost beyond the upper face equals u at the first cell, and vice versa
                    need = "first" if upper else "last"
                    if tcombo[k] != need:
                        continue
                    cprime = list(m)
                    cprime[k] = Ns[k] if upper else sp.Integer(1)
                sub = dict(zip(syms, cprime))
                V = cell_volume(ix, grid, tuple(ci - 1 for ci in cprime))
                total += f * V * coef.subs(sub, simultaneous=True)
            results.append((f"comp={list(comp)}:" + ",".join(tcombo), sp.simplify(total)))
    return results


def _row_job(job):
    opname, gcls, n_axes, kinds, options, expect_fail = job
    ix = get_index()
    cfg = read_config_defaults(ix)
    reg = [r for r in registrations(ix, "NumbaBackend", "pde/backends/numba/operators/") if r.grid_cls == gcls and r.name == opname]
    if not reg:
        return {"job": job, "error": f"registration {gcls}.{opname} vanished"}
    r = reg[0]
    grid = make_grid_model(ix, gcls, n_axes)
    try:
        it, closure = run_factory(ix, r.factory, grid, options, cfg)
        k = apply_kernel(it, closure, grid, factory=r.factory.ref, options=options)
        table = kernel_table(k, n_axes)
        res = column_sums(ix, grid, table, opname, kinds, r.rank_in)
    except RaisedInCode as e:
        return {"job": job, "error": f"raised {e.exc_name}"}
    except Unsupported as e:
        return {"job": job, "error": str(e)}
    return {
        "job": job,
        "factory": r.factory.ref,
        "kernel_funcs": sorted({s.func for s in k.stores if s.base == "out"}),
        "sums": [(lab, str(v)) for lab, v in res],
        "stencil": str(table.comps[()])[:300],
    }


def _default_is_conservative(ix, cfg, opname):
    """the default option row of a spherical factory equals its conservative=True row"""
    reg = [r for r in registrations(ix, "NumbaBackend", "pde/backends/numba/operators/") if r.grid_cls == "SphericalSymGrid" and r.name == opname][0]
    tabs = []
    for opts in ({}, {"conservative": True}):
        grid = make_grid_model(ix, "SphericalSymGrid", 1)
        it, closure = run_factory(ix, reg.factory, grid, opts, cfg)
        k = apply_kernel(it, closure, grid, factory=reg.factory.ref, options=opts)
        tabs.append(kernel_table(k, 1).comps)
    same = set(tabs[0]) == set(tabs[1]) and all(sp.simplify(tabs[0][c] - tabs[1][c]) == 0 for c in tabs[0])
    return same, reg.factory


def stepping_keeps_increment_form(rep: Report, ix) -> None:
    """"Consequently ... simulations keep the integral constant at every step, for any step size and solver": with
    sum_cells V*L(u) = 0 (rows above) a step conserves iff it has the increment form  u_new = u + dt * (combination of
    right-hand-side evaluations)  -- weight of the old state exactly 1.  The one-step maps are extracted by the C06 engine
    (uninterpreted rhs); the stability-function / fixed-point / recursion obligations of every fixed-step scheme, for every
    explicit_fraction, are re-used here: a scheme whose converged step is not the textbook scheme (e.g. state weights
    summing to 1 + alpha) multiplies the integral at every step."""
    from . import c06

    sub = Report("C05", rep.tier, "proof", "sub-report")
    for name, (rel, clsname, order, stab) in c06.SOLVERS.items():
        c06.check_explicit(sub, ix, name, rel, clsname, order, stab)
    c06.check_implicit(sub, ix, "implicit-euler", "pde/solvers/implicit.py", "ImplicitSolver", "_make_single_step_fixed_dt_deterministic", 1 / (1 - c06.Z))
    c06.check_implicit(sub, ix, "crank-nicolson", "pde/solvers/crank_nicolson.py", "CrankNicolsonSolver", "_make_single_step_fixed_dt", (1 + c06.Z / 2) / (1 - c06.Z / 2))
    c06.check_adams_bashforth(sub, ix)
    for st in sub.analysed.get("steppers", []):
        rep.saw("steppers (increment form)", st)
    n = 0
    for o in sub.obligations:
        n += 1
    bad = sub.findings
    rep.oblige(f"one-step maps of euler / implicit / crank-nicolson / adams-bashforth have the conservative increment form ({n} obligations of the C06 extraction)", not bad, [f.key for f in bad[:3]])
    for f in bad:
        rep.violation(
            "C05.step-not-increment-form",
            f.construct,
            f"the extracted one-step map is not the scheme's increment form u + dt*(...): {f.message[:300]} -- the integral of a conserved field changes at every step",
            line=f.line,
        )
    rep.floor("obligations on one-step maps (C06 extraction)", n, 6)


def check(tier: str) -> Report:
    rep = Report("C05", tier, "proof", "column-sum identities on extracted stencil tables with extracted cell volumes and boundary formulas")
    rep.explanation = (
        "For each grid class the Laplace (and central divergence) kernel is extracted as a linear stencil with coefficients "
        "c_o(cell); the coefficient of every input cell u[m] in sum_cells V(cell)*(L u)(cell) is assembled for each position type "
        "(first / interior / last cell per axis), folding virtual points through the formulas extracted from NeumannBC(0), "
        "NormalDirichletBC(0) and the periodic condition, with V taken from the grid classes' cell_volume_data. Each coefficient "
        "must simplify to 0 identically in shape, spacing, position and inner radius. The non-conservative spherical Laplacian is "
        "a built-in positive control that must fail."
    )
    ix = get_index()
    cfg = read_config_defaults(ix)
    if cfg.get("operators.conservative_stencil") is not True:
        rep.violation(
            "C05.config-default",
            "pde/tools/config.py::config::operators.conservative_stencil",
            f"default of `operators.conservative_stencil` is {cfg.get('operators.conservative_stencil')!r}; conservation on spherical grids relies on True",
        )
    rep.oblige("config:operators.conservative_stencil default True", cfg.get("operators.conservative_stencil") is True, str(cfg.get("operators.conservative_stencil")))
    for opname in ("laplace", "divergence"):
        same, fac = _default_is_conservative(ix, cfg, opname)
        rep.oblige(f"spherical {opname}: default options select the conservative stencil", same)
        if not same:
            rep.violation("C05.default-not-conservative", f"{fac.ref}::default-options", f"spherical `{opname}` built with default options differs from its conservative=True variant")
    jobs = []
    for gcls, n_axes, kinds_per_axis in LAPLACE_ROWS:
        for kinds in itertools.product(*kinds_per_axis):
            jobs.append(("laplace", gcls, n_axes, kinds, {}, False))
    for gcls, n_axes, kinds_per_axis in DIVERGENCE_ROWS:
        for kinds in itertools.product(*kinds_per_axis):
            jobs.append(("divergence", gcls, n_axes, kinds, {}, False))
    # positive control
    jobs.append(("laplace", "SphericalSymGrid", 1, ("neumann",), {"conservative": False}, True))
    with mp.get_context("fork").Pool(min(16, os.cpu_count() or 1)) as pool:
        results = pool.map(_row_job, jobs, chunksize=1)
    for res in results:
        opname, gcls, n_axes, kinds, options, expect_fail = res["job"]
        tag = f"{gcls}/{n_axes}:{opname}:{'/'.join(kinds)}" + (":conservative=False(control)" if expect_fail else "")
        if "error" in res:
            raise AnalysisError(f"{tag}: {res['error']}")
        rep.saw("rows", tag)
        bad = [(lab, v) for lab, v in res["sums"] if v != "0"]
        if expect_fail:
            rep.oblige(f"{tag}:control-fails", bool(bad), {"non-zero": bad[:3]})
            if not bad:
                raise AnalysisError("positive control passed: the non-conservative spherical Laplacian satisfies the column-sum identity, the rule is vacuous")
            continue
        kf = "+".join(res["kernel_funcs"]) or res["factory"]
        for lab, v in res["sums"]:
            ok = v == "0"
            rep.oblige(f"{tag}:{lab}", ok, v)
            if not ok:
                rep.violation(
                    "C05.column-sum",
                    f"{kf}::{opname}::{'/'.join(kinds)}::{lab}",
                    f"{gcls} ({n_axes} axes) `{opname}` with {kinds} boundaries: coefficient of the input cell [{lab}] in the volume-weighted "
                    f"sum is `{v}`, not 0 -- the operator does not conserve; stencil: {res['stencil']}",
                )
        if len(rep.samples) < 10:
            rep.sample({"row": tag, "stencil": res["stencil"], "column_sums": res["sums"][:4]})
    nine_point_rows(rep, ix)
    rep.floor("conservation rows", len(rep.analysed.get("rows", [])), 25)
    stepping_keeps_increment_form(rep, ix)
    rep.assumptions += [
        "cell volume = product over axes of cell_volume_data (GridBase.cell_volumes uses reduce(np.outer, ...); exactness of the factors is C12)",
        "divergence is checked for the default central method only (one-sided variants are not conservative with v_n=0 ghost cells and are not claimed)",
        "consequence for whole simulations relies on explicit updates being u + dt*L(...) (C06) and converged implicit iterations; round-off ignored",
        "every axis has at least two cells",
    ]
    return rep


# =============================================================================
# 9-point Laplacian (non-default corner weight): small-model column sums
# =============================================================================
def nine_point_rows(rep: Report, ix):
    """The 2d Cartesian 9-point stencil reads corner virtual points, which the kernel fills
    itself (make_corner_point_setter_2d).  Its coefficients do not depend on the cell, so a
    4x4 grid realises every combination of first/interior/last cells: the kernel is
    interpreted on that concrete shape (loops unrolled), virtual points are eliminated
    through the extracted boundary formulas, and every column sum must vanish."""
    from ..fx import SymArray
    from ..kernels import backend_model

    cfg = read_config_defaults(ix)
    reg = [r for r in registrations(ix, "NumbaBackend", "pde/backends/numba/operators/") if r.grid_cls == "CartesianGrid" and r.name == "laplace"][0]
    n = 4
    for w in (sp.Rational(1, 3), sp.Rational(1, 2)):
        for kinds in itertools.product(("neumann", "periodic"), repeat=2):
            tag = f"CartesianGrid/2:laplace-9-point(w={w}):{'/'.join(kinds)}"
            grid = make_grid_model(ix, "CartesianGrid", 2, periodic=[k == "periodic" for k in kinds])
            grid._attrs["shape"] = (n, n)
            grid._attrs["_shape_full"] = (n + 2, n + 2)
            cfg2 = dict(cfg)
            cfg2["operators.cartesian.laplacian_2d_corner_weight"] = w
            try:
                it, closure = run_factory(ix, reg.factory, grid, {}, cfg2)
                arr = SymArray("arr", shape=(n + 2, n + 2))
                out = SymArray("out", shape=(n, n))
                it.call(closure, (arr, out), {})
            except (Unsupported, RaisedInCode) as e:
                raise AnalysisError(f"{tag}: {e}") from e
            outs = it.final_stores("out")
            if len(outs) != n * n:
                raise AnalysisError(f"{tag}: {len(outs)} output stores, expected {n * n}")
            # eliminate the (non-corner) virtual points through the boundary formulas
            sub = {}
            A = sp.Function("arr")
            for axis in range(2):
                for upper in (False, True):
                    f, which = ghost_rule(ix, kinds[axis], make_grid_model(ix, "CartesianGrid", 2), axis, upper)
                    g_idx = n + 1 if upper else 0
                    src = (n if upper else 1) if which == "adjacent" else (1 if upper else n)
                    for t in range(1, n + 1):
                        gi = (g_idx, t) if axis == 0 else (t, g_idx)
                        si = (src, t) if axis == 0 else (t, src)
                        sub[A(*gi)] = f * A(*si)
            hs = grid._attrs["discretization"].items
            V = hs[0] * hs[1]
            total = sp.Integer(0)
            for idx, term in outs.items():
                total += V * sp.sympify(term)
            total = sp.expand(total.xreplace(sub).xreplace(sub))
            left = [c for c in total.atoms(sp.core.function.AppliedUndef) if c.func.__name__ == "arr"]
            bad = []
            for c in left:
                i, j = (int(a) for a in c.args)
                co = sp.simplify(total.coeff(c))
                if not (1 <= i <= n and 1 <= j <= n):
                    bad.append((str(c), "virtual point not eliminated"))
                elif co != 0:
                    bad.append((str(c), str(co)))
            rep.saw("rows", tag)
            rep.oblige(f"{tag}: all {n * n} column sums vanish", not bad, bad[:4])
            if bad:
                funcs = sorted({s.func for s in it.stores if s.base in ("out", "arr")})
                rep.violation(
                    "C05.column-sum",
                    f"{'+'.join(funcs)}::laplace-9-point::{'/'.join(kinds)}",
                    f"{tag}: the volume-weighted sum of the 9-point Laplacian keeps the contributions {bad[:4]} (4x4 model grid, corner virtual points as filled by "
                    "the kernel's own corner-point setter): not conservative",
                )

"""C09 -- interrupt schedules increase and stay on their lattice.

Everything is decided on the syntax tree / CFG (E4) of ``pde/trackers/interrupts.py`` with
the small abstract domains of E8 (linear forms, integer-valuedness, ordering facts that
flow along the CFG).  Cursor variables are the attribute chains ``self._t_next`` /
``self._index``; the query time is the second parameter of ``next``.  Local temporaries
are resolved through their unique reaching definition.

Rules (ids):
  C09.const-lattice             every store to the cursor in ConstantInterrupts.next is ``+= dt`` or
                                ``+= dt*n`` with ``n`` integer-valued (never a plain assignment)
  C09.const-catchup-forward     ``n = ceil((t - cursor)/dt)`` is computed where ``cursor <= t`` is known (n >= 0)
  C09.const-first-advance       one ``+= dt`` lies on every path (strictly later than the previous answer)
  C09.const-answer-not-earlier  every return hands out the cursor where a comparison established
                                ``cursor > t`` / ``not cursor < t`` since the last store, or on the float-repair path
  C09.const-initialize          initialize (re)sets the cursor to ``t`` or ``max(t, t_start)`` and returns it
  C09.fixed-index-monotone      ``_index`` is only ever incremented by 1 in ``next``
  C09.fixed-returns             returns are ``interrupts[_index]`` (read at the current cursor) or ``math.inf``
  C09.fixed-advances            every element answer is preceded by an increment on every path
  C09.fixed-not-earlier         an element is returned only where ``not t_next < t`` was established
  C09.fixed-exhausted-inf       IndexError handler: covers every element read, returns inf, never touches ``_index``
  C09.fixed-initialize          initialize sets ``_index = -1`` and returns ``self.next(t)``
  C09.geo-lattice               the cursor is ``scale * factor ** E`` with E integer-valued
  C09.geo-exponent              ``E = ceil(log(lower/scale)/log(factor))``
  C09.geo-not-earlier           ``lower = max(t, .)``: the query time reaches the answer through max
  C09.geo-strictly-later        the other lower bound is ``previous * factor**c`` with 0 < c < 1
                                (or ``scale * factor**c``, c < 0, before the first answer)
  C09.geo-returns-cursor        every return hands out the freshly stored cursor
  C09.log-scale-precedes-step   LogarithmicInterrupts.next: ``dt *= factor`` exactly once before ``super().next(t)``
  C09.log-initial-gap           LogarithmicInterrupts starts the base class with ``dt_initial / factor``
  C09.parse-exhaustive          parse_interrupt: no fall-through, every return builds an interrupt
                                class (numbers -> ConstantInterrupts, iterables -> FixedInterrupts)
"""

from __future__ import annotations

import ast
from fractions import Fraction

from ..absdom import FactFlow, const_number, integer_valued, lin_ratio, linform
from ..cfg import CFG, Node, build_cfg, def_value, dotted_name, handler_types, resolve_expr
from ..core import AnalysisError, Report
from ..index import ClassInfo, dotted, get_index, strip_doc

INTERRUPTS = "pde/trackers/interrupts.py"

INT = "pde/trackers/interrupts.py"
KNOWN_CLASSES = {"FixedInterrupts", "ConstantInterrupts", "LogarithmicInterrupts", "GeometricInterrupts", "RealtimeInterrupts"}
INF = {"math.inf", "np.inf", "numpy.inf"}


def params(fn: ast.FunctionDef) -> list[str]:
    return [a.arg for a in fn.args.posonlyargs + fn.args.args]


def is_name(e, name: str) -> bool:
    return isinstance(e, ast.Name) and e.id == name


def live(g: CFG, nodes):
    return [n for n in nodes if g.is_reachable(n)]


def returns(g: CFG) -> list[Node]:
    return [n for n in g.nodes if n.kind == "return" and g.is_reachable(n)]


def lookup_for(g: CFG, at: Node):
    def lookup(name: str):
        out = []
        for d in g.defs_reaching(at, name):
            v = def_value(d, name)
            if v[0] != "expr":
                return None
            out.append(v[1])
        return out or None

    return lookup


def is_inf(e) -> bool:
    if dotted_name(e) in INF:
        return True
    return isinstance(e, ast.Call) and dotted(e.func) == "float" and len(e.args) == 1 and isinstance(e.args[0], ast.Constant) and e.args[0].value in ("inf", "infinity")


# ---------------------------------------------------------------------------- ConstantInterrupts
def check_constant(rep: Report, ix) -> None:
    f = ix.func(INT, "ConstantInterrupts.next")
    ref = f.ref
    rep.saw("functions", ref)
    g = build_cfg(f.node)
    ps = params(f.node)
    if len(ps) != 2:
        raise AnalysisError(f"{ref}: signature (self, t) expected")
    T, CUR, DT = ps[1], "self._t_next", "self.dt"

    stores = live(g, g.all_defs(CUR))
    rep.floor(f"{ref}: stores to {CUR}", len(stores), 1)
    kinds: dict[Node, str] = {}
    for k, n in enumerate(stores):
        val = def_value(n, CUR)
        kind = "off-lattice"
        shown = ast.unparse(n.ast)
        catch_ok = True
        if val[0] == "aug" and val[1] == "Add":
            v = resolve_expr(g, n, val[2])
            if dotted_name(v) == DT:
                kind = "dt"
            elif isinstance(v, ast.BinOp) and isinstance(v.op, ast.Mult):
                for a, b in ((v.left, v.right), (v.right, v.left)):
                    if dotted_name(a) == DT and integer_valued(b, lookup_for(g, n)):
                        kind = "dt*n"
                        # n = ceil((t - cursor)/dt) must be evaluated where cursor <= t
                        catch_ok = False
                        if isinstance(b, ast.Call) and len(b.args) == 1 and isinstance(b.args[0], ast.BinOp) and isinstance(b.args[0].op, ast.Div) and dotted_name(b.args[0].right) == DT:
                            lf = linform(b.args[0].left)
                            c = lin_ratio(lf, {T: Fraction(1), CUR: Fraction(-1)}) if lf else None
                            if c is None:
                                raise AnalysisError(f"{ref}: catch-up count `{ast.unparse(b)}` is not ceil((t - cursor)/dt)")
                            facts = FactFlow(g, CUR, T).facts_at(n)
                            catch_ok = (c > 0 and facts <= {"<", "<="}) or (c < 0 and facts <= {">", ">="})
                            rep.sample({"construct": ref, "catch-up": ast.unparse(b), "cursor facts at the store": sorted(facts)})
                        else:
                            raise AnalysisError(f"{ref}: catch-up count `{ast.unparse(b)}` has an unknown shape")
        kinds[n] = kind
        rep.sample({"construct": ref, "store": shown, "class": kind})
        if not rep.oblige(f"constant.next/lattice#{k}", kind != "off-lattice", shown):
            rep.violation("C09.const-lattice", f"{ref}::_t_next-store", f"`{shown}` is not `{CUR} += {DT}` or `{CUR} += {DT} * <integer>`: the cursor leaves the lattice t_start + k*dt", line=n.lineno)
        if kind == "dt*n" and not rep.oblige(f"constant.next/catchup-forward#{k}", catch_ok, shown):
            rep.violation("C09.const-catchup-forward", f"{ref}::catch-up", f"`{shown}`: the number of skipped periods is not known to be >= 0 here (cursor <= t not established, or numerator reversed)", line=n.lineno)

    firsts = [n for n, k in kinds.items() if k == "dt" and g.can_reach_exit(g.entry) and g.post_dominates(n, g.entry)]
    if not rep.oblige("constant.next/first-advance-unconditional", bool(firsts), [ast.unparse(n.ast) for n in firsts]):
        rep.violation("C09.const-first-advance", f"{ref}::first-advance", f"no unconditional `{CUR} += {DT}`: an answer can equal the previous one", line=f.node.lineno)

    def store_fact(n: Node, before: str) -> str:
        return "repaired" if kinds.get(n) == "dt" and before == "<" else "?"

    flow = FactFlow(g, CUR, T, store_fact=store_fact)
    rets = returns(g)
    rep.floor(f"{ref}: returns", len(rets), 1)
    for k, r in enumerate(rets):
        cur_ok = r.ast.value is not None and dotted_name(r.ast.value) == CUR
        facts = flow.facts_at(r)
        rep.sample({"construct": ref, "return": ast.unparse(r.ast), "facts": sorted(facts)})
        if not rep.oblige(f"constant.next/returns-cursor#{k}", cur_ok, ast.unparse(r.ast)):
            rep.violation("C09.const-lattice", f"{ref}::return", f"`{ast.unparse(r.ast)}` does not return the cursor {CUR}", line=r.lineno)
        if not rep.oblige(f"constant.next/answer-not-earlier#{k}", bool(facts) and facts <= {">", ">=", "repaired"}, sorted(facts)):
            rep.violation(
                "C09.const-answer-not-earlier",
                f"{ref}::return",
                f"the cursor is returned on a path where, since its last store, no comparison established `{CUR} > {T}` / `not {CUR} < {T}` (facts {sorted(facts)})",
                line=r.lineno,
            )

    # initialize ---------------------------------------------------------------------------------
    fi = ix.func(INT, "ConstantInterrupts.initialize")
    rep.saw("functions", fi.ref)
    gi = build_cfg(fi.node)
    pi = params(fi.node)
    Ti = pi[1]
    always = gi.must_pass(gi.entry, gi.exit, lambda n: CUR in gi.defs_at(n))
    vals_ok = True
    shown = []
    for n in live(gi, gi.all_defs(CUR)):
        v = def_value(n, CUR)
        e = resolve_expr(gi, n, v[1]) if v[0] == "expr" else None
        good = e is not None and (is_name(e, Ti) or (isinstance(e, ast.Call) and dotted(e.func) == "max" and not e.keywords and sorted(dotted(a) for a in e.args) == sorted([Ti, "self.t_start"])))
        shown.append(ast.unparse(n.ast))
        vals_ok = vals_ok and good
    ret_ok = all(r.ast.value is not None and dotted_name(r.ast.value) == CUR for r in returns(gi)) and bool(returns(gi))
    rep.sample({"construct": fi.ref, "stores": shown})
    if not rep.oblige("constant.initialize", always and vals_ok and ret_ok, {"cursor set on every path": always, "values": shown, "returns cursor": ret_ok}):
        rep.violation("C09.const-initialize", f"{fi.ref}::_t_next", f"initialize must set {CUR} to `{Ti}` or `max({Ti}, self.t_start)` on every path and return it (found {shown})", line=fi.node.lineno)


# ---------------------------------------------------------------------------- FixedInterrupts
def check_fixed(rep: Report, ix) -> None:
    f = ix.func(INT, "FixedInterrupts.next")
    ref = f.ref
    rep.saw("functions", ref)
    g = build_cfg(f.node, raisers=(ast.Call, ast.Subscript))
    ps = params(f.node)
    if len(ps) != 2:
        raise AnalysisError(f"{ref}: signature (self, t) expected")
    T, IDX, SEQ = ps[1], "self._index", "self.interrupts"

    def element_read(e) -> bool:
        return isinstance(e, ast.Subscript) and dotted_name(e.value) == SEQ and dotted_name(e.slice) == IDX

    incs = []
    for k, n in enumerate(live(g, g.all_defs(IDX))):
        v = def_value(n, IDX)
        good = v[0] == "aug" and v[1] == "Add" and const_number(v[2]) == 1
        if good:
            incs.append(n)
        elif v[0] == "expr" and isinstance(v[1], ast.Call) and dotted_name(v[1].func) == "max" and any(
            isinstance(a, ast.BinOp) and isinstance(a.op, ast.Add) and dotted_name(a.left) == IDX and const_number(a.right) == 1 for a in v[1].args
        ):
            # `_index = max(_index + 1, <search>)` still advances strictly, but whether the searched position is the
            # first not-yet-passed element depends on the search routine: a different algorithm, not decided here
            raise AnalysisError(f"{ref}: `{ast.unparse(n.ast)}` advances the cursor through a search routine; this idiom is outside the rules of C09.fixed-*")
        rep.sample({"construct": ref, "index store": ast.unparse(n.ast)})
        if not rep.oblige(f"fixed.next/index-monotone#{k}", good, ast.unparse(n.ast)):
            rep.violation("C09.fixed-index-monotone", f"{ref}::_index-store", f"`{ast.unparse(n.ast)}`: in next() the cursor {IDX} may only be incremented by 1 (a reset or jump re-serves or skips interrupts)", line=n.lineno)
    rep.floor(f"{ref}: increments of {IDX}", len(incs), 1)

    handlers = [n for n in g.nodes if n.kind == "except" and "IndexError" in handler_types(n.ast)]
    reads = [n for n in g.nodes if g.is_reachable(n) and any(isinstance(x, ast.Subscript) and isinstance(x.ctx, ast.Load) and dotted_name(x.value) == SEQ for x in n.walk())]
    rep.floor(f"{ref}: element reads", len(reads), 1)
    if not rep.oblige("fixed.next/index-error-handler", len(handlers) == 1, len(handlers)):
        rep.violation("C09.fixed-exhausted-inf", f"{ref}::IndexError-handler", "no `except IndexError` handler: an exhausted schedule raises instead of answering infinity", line=f.node.lineno)
        return
    H = handlers[0]
    uncovered = [n for n in reads if H not in n.succs("exc")]
    if not rep.oblige("fixed.next/reads-covered", not uncovered, [ast.unparse(n.ast) for n in uncovered]):
        rep.violation("C09.fixed-exhausted-inf", f"{ref}::IndexError-handler", f"element read(s) outside the try body: {[ast.unparse(n.ast) for n in uncovered]}", line=uncovered[0].lineno)

    rets = returns(g)
    rep.floor(f"{ref}: returns", len(rets), 2)
    elem_rets = []
    for k, r in enumerate(rets):
        v = r.ast.value
        kind = "other"
        if v is not None and is_inf(v):
            kind = "inf"
        elif isinstance(v, ast.Name):
            ds = g.defs_reaching(r, v.id)
            vals = [def_value(d, v.id) for d in ds]
            if ds and all(x[0] == "expr" and element_read(x[1]) for x in vals):
                xdefs = g.all_defs(v.id)
                idx_stores = [s for s in g.all_defs(IDX)]
                # no cursor store between the read that defines the answer and the return
                same = all(
                    IDX not in g.defs_at(d) and not any(s in g.reachable([d], avoid=xdefs) and r in g.reachable([s], avoid=xdefs) for s in idx_stores)
                    for d in ds
                )
                kind = "element" if same else "stale-element"
        elif v is not None and element_read(v):
            kind = "element-direct"
        rep.sample({"construct": ref, "return": ast.unparse(r.ast), "class": kind})
        if kind == "inf":
            if not g.dominates(H, r):
                raise AnalysisError(f"{ref}: `return inf` outside the IndexError handler is an idiom this rule does not know")
            continue
        if not rep.oblige(f"fixed.next/returns#{k}", kind in ("element", "element-direct"), kind):
            rep.violation("C09.fixed-returns", f"{ref}::return", f"`{ast.unparse(r.ast)}` is not `{SEQ}[{IDX}]` read at the current cursor, nor infinity ({kind})", line=r.lineno)
            continue
        elem_rets.append(r)
        adv = g.must_pass(g.entry, r, lambda n: n in incs)
        if not rep.oblige(f"fixed.next/advances#{k}", adv):
            rep.violation("C09.fixed-advances", f"{ref}::return", f"an element can be returned without {IDX} having been incremented in this call: the answer is not later than the previous one", line=r.lineno)
        if kind == "element":
            facts = FactFlow(g, v.id, T).facts_at(r)
            rep.sample({"construct": ref, "facts about the answer vs t at the return": sorted(facts)})
            if not rep.oblige(f"fixed.next/not-earlier#{k}", bool(facts) and facts <= {">", ">="}, sorted(facts)):
                rep.violation("C09.fixed-not-earlier", f"{ref}::return", f"`{v.id}` is returned where `not {v.id} < {T}` has not been established since its last store (facts {sorted(facts)})", line=r.lineno)
        else:
            raise AnalysisError(f"{ref}: direct return of an element read is an idiom this rule does not know")
    rep.floor(f"{ref}: element returns", len(elem_rets), 1)

    after = g.reachable([H])
    bad_rets = [r for r in rets if r in after and g.dominates(H, r) and not (r.ast.value is not None and is_inf(r.ast.value))]
    resets = [n for n in after if IDX in g.defs_at(n) and g.dominates(H, n)]
    falls = g.exit in {s for n in after | {H} for s, l in n.succ if l == "fall" and g.dominates(H, n)}
    okx = not bad_rets and not resets and not falls and any(g.dominates(H, r) for r in rets)
    if not rep.oblige("fixed.next/exhausted-inf", okx, {"non-inf returns": len(bad_rets), "index stores": len(resets), "falls off": falls}):
        rep.violation("C09.fixed-exhausted-inf", f"{ref}::IndexError-handler", f"the exhausted branch must return infinity and leave {IDX} alone (non-inf returns {len(bad_rets)}, stores to the cursor {len(resets)}, falls through {falls})", line=H.lineno)

    fi = ix.func(INT, "FixedInterrupts.initialize")
    rep.saw("functions", fi.ref)
    gi = build_cfg(fi.node)
    Ti = params(fi.node)[1]
    sets = live(gi, gi.all_defs(IDX))
    set_ok = bool(sets) and all(def_value(n, IDX)[0] == "expr" and const_number(def_value(n, IDX)[1]) == -1 for n in sets) and gi.must_pass(gi.entry, gi.exit, lambda n: n in sets)
    ret_ok = bool(returns(gi)) and all(
        isinstance(r.ast.value, ast.Call) and dotted(r.ast.value.func) == "self.next" and len(r.ast.value.args) == 1 and is_name(r.ast.value.args[0], Ti) and gi.must_pass(gi.entry, r, lambda n: n in sets)
        for r in returns(gi)
    )
    if not rep.oblige("fixed.initialize", set_ok and ret_ok, {"index reset to -1": set_ok, "returns self.next(t)": ret_ok}):
        rep.violation("C09.fixed-initialize", f"{fi.ref}::_index", f"initialize must set {IDX} = -1 (next() pre-increments) and then return self.next({Ti})", line=fi.node.lineno)


# ---------------------------------------------------------------------------- GeometricInterrupts
def _scaled_power(e, base: str):
    """e == <base> * self.factor ** X  (either order) -> X, else None"""
    if isinstance(e, ast.BinOp) and isinstance(e.op, ast.Mult):
        for a, b in ((e.left, e.right), (e.right, e.left)):
            if dotted_name(a) == base and isinstance(b, ast.BinOp) and isinstance(b.op, ast.Pow) and dotted_name(b.left) == "self.factor":
                return b.right
    return None


def check_geometric(rep: Report, ix) -> None:
    f = ix.func(INT, "GeometricInterrupts.next")
    ref = f.ref
    rep.saw("functions", ref)
    g = build_cfg(f.node)
    ps = params(f.node)
    if len(ps) != 2:
        raise AnalysisError(f"{ref}: signature (self, t) expected")
    T, CUR = ps[1], "self._t_next"
    stores = live(g, g.all_defs(CUR))
    rep.floor(f"{ref}: stores to {CUR}", len(stores), 1)
    for k, n in enumerate(stores):
        v = def_value(n, CUR)
        shown = ast.unparse(n.ast)
        E = _scaled_power(resolve_expr(g, n, v[1]), "self.scale") if v[0] == "expr" else None
        lat = E is not None and integer_valued(E, lookup_for(g, n))
        rep.sample({"construct": ref, "store": shown, "resolved exponent": ast.unparse(E) if E is not None else None, "integer-valued": lat})
        if not rep.oblige(f"geometric.next/lattice#{k}", lat, shown):
            rep.violation("C09.geo-lattice", f"{ref}::_t_next-store", f"`{shown}`: the cursor is not `self.scale * self.factor ** <integer-valued>` (resolved exponent: {ast.unparse(E) if E is not None else 'n/a'})", line=n.lineno)
            continue
        # exponent = ceil(log(lower / scale) / log(factor))
        arg = E.args[0] if isinstance(E, ast.Call) and len(E.args) == 1 else None
        lower = None
        if (
            isinstance(arg, ast.BinOp)
            and isinstance(arg.op, ast.Div)
            and all(isinstance(x, ast.Call) and dotted(x.func) in ("np.log", "math.log", "numpy.log") and len(x.args) == 1 for x in (arg.left, arg.right))
            and dotted_name(arg.right.args[0]) == "self.factor"
            and isinstance(arg.left.args[0], ast.BinOp)
            and isinstance(arg.left.args[0].op, ast.Div)
            and dotted_name(arg.left.args[0].right) == "self.scale"
        ):
            lower = arg.left.args[0].left
        up = isinstance(E, ast.Call) and dotted(E.func) in ("np.ceil", "math.ceil", "numpy.ceil")
        if not rep.oblige(f"geometric.next/exponent#{k}", lower is not None and up, ast.unparse(E)):
            rep.violation("C09.geo-exponent", f"{ref}::exponent", f"exponent `{ast.unparse(E)}` is not ceil(log(<lower bound> / self.scale) / log(self.factor))", line=n.lineno)
            continue
        # lower = max(t, other)
        other = None
        if isinstance(lower, ast.Call) and dotted(lower.func) == "max" and len(lower.args) == 2 and not lower.keywords:
            if is_name(lower.args[0], T):
                other = lower.args[1]
            elif is_name(lower.args[1], T):
                other = lower.args[0]
        elif isinstance(lower, ast.Name):
            ds = g.defs_reaching(n, lower.id)
            vals = [def_value(d, lower.id) for d in ds]
            if len(vals) == 1 and vals[0][0] == "expr":
                e = vals[0][1]
                (dnode,) = ds
                if isinstance(e, ast.Call) and dotted(e.func) == "max" and len(e.args) == 2 and not e.keywords:
                    if is_name(e.args[0], T):
                        other = (dnode, e.args[1])
                    elif is_name(e.args[1], T):
                        other = (dnode, e.args[0])
        rep.sample({"construct": ref, "lower bound": ast.unparse(lower)})
        if not rep.oblige(f"geometric.next/not-earlier#{k}", other is not None, ast.unparse(lower)):
            rep.violation("C09.geo-not-earlier", f"{ref}::lower-bound", f"the lower bound `{ast.unparse(lower)}` of the answer is not `max({T}, .)`: the query time does not reach the answer", line=n.lineno)
            continue
        # the other bound: previous * factor**c (0<c<1)  or  scale * factor**c (c<0)
        cands: list[ast.AST] = []
        if isinstance(other, tuple):
            dnode, oe = other
            if isinstance(oe, ast.Name):
                for d in g.defs_reaching(dnode, oe.id):
                    dv = def_value(d, oe.id)
                    if dv[0] != "expr":
                        raise AnalysisError(f"{ref}: lower bound `{oe.id}` is not defined by plain assignments")
                    cands.append(resolve_expr(g, d, dv[1]))
            else:
                cands.append(resolve_expr(g, dnode, oe))
        else:
            cands.append(other)
        good = bool(cands)
        shown_c = []
        n_prev = 0
        for c in cands:
            shown_c.append(ast.unparse(c))
            x = _scaled_power(c, CUR)
            if x is not None:
                cv = const_number(x)
                good = good and cv is not None and 0 < cv < 1
                n_prev += 1
                continue
            x = _scaled_power(c, "self.scale")
            cv = const_number(x) if x is not None else None
            good = good and cv is not None and -1 < cv < 0
        good = good and n_prev >= 1
        rep.sample({"construct": ref, "other lower bounds": shown_c})
        if not rep.oblige(f"geometric.next/strictly-later#{k}", good, shown_c):
            rep.violation("C09.geo-strictly-later", f"{ref}::previous-bound", f"lower bounds {shown_c}: expected `{CUR} * self.factor ** c` with 0 < c < 1 (strictly between the previous answer and the next lattice point) and `self.scale * self.factor ** c`, -1 < c < 0, before the first answer", line=n.lineno)

    rets = returns(g)
    rep.floor(f"{ref}: returns", len(rets), 1)
    for k, r in enumerate(rets):
        ok = r.ast.value is not None and dotted_name(r.ast.value) == CUR and g.must_pass(g.entry, r, lambda n: n in stores)
        if not rep.oblige(f"geometric.next/returns-cursor#{k}", ok, ast.unparse(r.ast)):
            rep.violation("C09.geo-returns-cursor", f"{ref}::return", f"`{ast.unparse(r.ast)}` does not return a cursor stored in this call", line=r.lineno)

    fi = ix.func(INT, "GeometricInterrupts.initialize")
    rep.saw("functions", fi.ref)
    Ti = params(fi.node)[1]
    gi = build_cfg(fi.node)

    def _is_next_call(r):
        v = resolve_expr(gi, r, r.ast.value) if r.ast.value is not None else None  # a local bound to the call is looked through
        return isinstance(v, ast.Call) and dotted(v.func) == "self.next" and len(v.args) == 1 and is_name(v.args[0], Ti)

    ok = bool(returns(gi)) and all(_is_next_call(r) for r in returns(gi))
    if not rep.oblige("geometric.initialize", ok):
        rep.violation("C09.geo-not-earlier", f"{fi.ref}::return", f"initialize must return self.next({Ti})", line=fi.node.lineno)
    if not any(CUR in gi.defs_at(n) for n in gi.nodes):
        # observation only (outside the property: one initialisation, non-decreasing queries)
        rep.note(
            f"observation: {fi.ref} does not reset {CUR} (ConstantInterrupts/FixedInterrupts.initialize do reset their cursor): "
            "a geometric schedule that is initialised again (second run with the same tracker, PlotTracker.initialize calling "
            "super().initialize twice) continues after its last answer instead of starting at the first lattice point >= t"
        )


# ---------------------------------------------------------------------------- LogarithmicInterrupts
def check_logarithmic(rep: Report, ix) -> None:
    f = ix.func(INT, "LogarithmicInterrupts.next")
    ref = f.ref
    rep.saw("functions", ref)
    cls = ix.cls(INT, "LogarithmicInterrupts")
    if not cls.is_subclass_of("ConstantInterrupts"):
        raise AnalysisError(f"{cls.ref} no longer derives from ConstantInterrupts")
    g = build_cfg(f.node)
    T = params(f.node)[1]

    def is_scale(n: Node) -> bool:
        a = n.ast
        return n.kind == "stmt" and isinstance(a, ast.AugAssign) and isinstance(a.op, ast.Mult) and dotted_name(a.target) == "self.dt" and dotted_name(resolve_expr(g, n, a.value)) == "self.factor"

    def is_super(n: Node) -> bool:
        return any(dotted(c.func) == "super().next" and len(c.args) == 1 and is_name(c.args[0], T) for c in n.calls())

    supers = [n for n in g.nodes if g.is_reachable(n) and is_super(n)]
    rep.floor(f"{ref}: super().next(t) calls", len(supers), 1)
    cnt = g.path_counts(g.entry, is_scale, stop_nodes=supers)
    other_dt = [n for n in live(g, g.all_defs("self.dt")) if not is_scale(n)]
    rets_ok = all(r.ast.value is not None and (is_super(r) or any(is_super(d) for d in g.defs_reaching(r, r.ast.value.id))) if isinstance(r.ast.value, (ast.Name, ast.Call)) else False for r in returns(g))
    scale_after = not g.no_path(supers, [n for n in g.nodes if is_scale(n)])
    ok = cnt == {1} and not other_dt and rets_ok and not scale_after
    rep.sample({"construct": ref, "dt *= factor before the inherited step": sorted(cnt), "after it": scale_after})
    if not rep.oblige("logarithmic.next/scale-precedes-step", ok, {"count": sorted(cnt), "other dt stores": len(other_dt), "returns inherited answer": rets_ok, "scaled after": scale_after}):
        rep.violation("C09.log-scale-precedes-step", f"{ref}::dt-scaling", f"`self.dt *= self.factor` must happen exactly once before `super().next({T})` whose answer is returned (before: {sorted(cnt)}, after: {scale_after}, other dt stores: {len(other_dt)}, returns ok: {rets_ok})", line=f.node.lineno)

    fi = ix.func(INT, "LogarithmicInterrupts.__init__")
    rep.saw("functions", fi.ref)
    gi = build_cfg(fi.node)
    inits = [(n, c) for n in gi.nodes for c in n.calls() if dotted(c.func) == "super().__init__"]
    rep.floor(f"{fi.ref}: super().__init__ calls", len(inits), 1)
    for n, c in inits:
        dt = next((k.value for k in c.keywords if k.arg == "dt"), c.args[0] if c.args else None)
        e = resolve_expr(gi, n, dt) if dt is not None else None

        def strip_float(x):
            return x.args[0] if isinstance(x, ast.Call) and dotted(x.func) == "float" and len(x.args) == 1 else x

        good = isinstance(e, ast.BinOp) and isinstance(e.op, ast.Div) and dotted_name(strip_float(e.left)) in ("self.dt_initial", "dt_initial") and dotted_name(strip_float(e.right)) in ("self.factor", "factor")
        rep.sample({"construct": fi.ref, "base dt": ast.unparse(e) if e is not None else None})
        if not rep.oblige("logarithmic.init/initial-gap", good, ast.unparse(c)):
            rep.violation("C09.log-initial-gap", f"{fi.ref}::base-dt", f"`{ast.unparse(c)}`: the base class must start with dt_initial / factor because next() scales dt before the first step", line=n.lineno)


# ---------------------------------------------------------------------------- parse_interrupt
def check_parse(rep: Report, ix) -> None:
    f = ix.func(INT, "parse_interrupt")
    ref = f.ref
    rep.saw("functions", ref)
    g = build_cfg(f.node)
    P = params(f.node)[0]
    base = ix.cls(INT, "InterruptsBase")
    falls = [n for n, l in g.exit.pred if l != "return"]
    if not rep.oblige("parse/no-fall-through", not falls, [n.text for n in falls]):
        rep.violation("C09.parse-exhaustive", f"{ref}::fall-through", "parse_interrupt can fall off its end (returns None for some input)", line=falls[0].lineno)
    built: dict[str, Node] = {}
    rets = returns(g)
    rep.floor(f"{ref}: returns", len(rets), 4)
    for k, r in enumerate(rets):
        v = r.ast.value
        good = False
        if isinstance(v, ast.Call):
            tgt = ix.resolve_name(f.module, dotted(v.func))
            good = isinstance(tgt, ClassInfo) and tgt.is_subclass_of(base)
            if good:
                built[tgt.name] = r
        elif is_name(v, P):
            guards = [d for d in g.nodes if d.kind == "if" and g.dominates(d, r) and _isinstance_of(d.ast.test, P) == ["InterruptsBase"] and r in g.reachable(d.succs("true"), include_srcs=True) and r not in g.reachable(d.succs("false"), include_srcs=True)]
            good = bool(guards)
        if not rep.oblige(f"parse/return-is-interrupt#{k}", good, ast.unparse(r.ast)):
            rep.violation("C09.parse-exhaustive", f"{ref}::return", f"`{ast.unparse(r.ast)}` does not return an interrupt object", line=r.lineno)

    def guarded(cls_name: str, test) -> bool:
        r = built.get(cls_name)
        if r is None:
            return False
        v = r.ast.value
        if not (len(v.args) == 1 and is_name(v.args[0], P) and not v.keywords):
            return False
        return any(d.kind == "if" and g.dominates(d, r) and test(d.ast.test) and r in g.reachable(d.succs("true"), include_srcs=True) and r not in g.reachable(d.succs("false"), include_srcs=True) for d in g.nodes)

    num = guarded("ConstantInterrupts", lambda t: sorted(_isinstance_of(t, P) or []) == ["float", "int"])
    seq = guarded("FixedInterrupts", lambda t: isinstance(t, ast.Call) and dotted(t.func) == "hasattr" and len(t.args) == 2 and is_name(t.args[0], P) and isinstance(t.args[1], ast.Constant) and t.args[1].value == "__iter__")
    rep.sample({"construct": ref, "constructors returned": sorted(built), "numbers->Constant": num, "iterables->Fixed": seq})
    if not rep.oblige("parse/dispatch", num and seq and "GeometricInterrupts" in built, sorted(built)):
        rep.violation("C09.parse-exhaustive", f"{ref}::dispatch", f"dispatch changed: numbers -> ConstantInterrupts({P}): {num}; iterables -> FixedInterrupts({P}): {seq}; geometric string handled: {'GeometricInterrupts' in built}", line=f.node.lineno)


def _isinstance_of(test, var: str) -> list[str] | None:
    if isinstance(test, ast.Call) and dotted(test.func) == "isinstance" and len(test.args) == 2 and is_name(test.args[0], var):
        t = test.args[1]
        ts = t.elts if isinstance(t, ast.Tuple) else [t]
        return [dotted(x) for x in ts]
    return None



def check_double_precision_state(rep: Report, ix) -> None:
    """the cursor `_t_next` is advanced in place by `dt` (`+= self.dt`): with a NumPy scalar narrower than double (np.float32)
    as `dt` or `t_start` the in-place arithmetic stays in that type under NumPy 2, answers repeat or lie before the time asked and
    leave the lattice.  Rule: the constructors of the lattice-based interrupt classes store `dt`, `t_start`, `scale`, `factor`
    converted with float(...) (None passed through), so that all cursor arithmetic is double precision python floats."""
    n = 0
    for qn, attrs in (("ConstantInterrupts.__init__", ("dt", "t_start")), ("GeometricInterrupts.__init__", ("scale", "factor"))):
        f = ix.func(INT, qn)
        rep.saw("functions", f.ref)
        for a in attrs:
            stores = [st for st in ast.walk(f.node) if isinstance(st, (ast.Assign, ast.AnnAssign)) and any(isinstance(t, ast.Attribute) and t.attr == a and isinstance(t.value, ast.Name) and t.value.id == "self" for t in ([st.target] if isinstance(st, ast.AnnAssign) else st.targets))]
            if not stores:
                continue
            n += 1
            v = stores[-1].value

            def is_float_cast(e) -> bool:
                if isinstance(e, ast.Call) and dotted(e.func) == "float" and len(e.args) == 1:
                    return True
                if isinstance(e, ast.IfExp):
                    branches = [e.body, e.orelse]
                    return all(is_float_cast(b) or (isinstance(b, ast.Constant) and b.value is None) for b in branches) and any(is_float_cast(b) for b in branches)
                return False

            ok = is_float_cast(v)
            rep.oblige(f"{qn}: self.{a} is stored as a python float", ok, ast.unparse(v))
            if not ok:
                rep.violation(
                    "C09.double-precision",
                    f"{f.ref}::{a}",
                    f"`self.{a} = {ast.unparse(v)}` keeps whatever number type the caller passed: a single-precision NumPy scalar drags the cursor arithmetic (`_t_next += self.dt`) into float32, "
                    "so answers are repeated, lie before the time asked about and drift off the lattice t_start + k*dt",
                    line=stores[-1].lineno,
                )
    rep.floor("schedule parameters stored by the interrupt constructors", n, 3)


def check_initialize_resets_cursor(rep: Report, ix) -> None:
    """"whatever ... sequence it is asked about": a schedule starts with `initialize(t)`.  Every attribute that `next`
    (resolved through super().next) re-binds is the cursor state of the schedule; `initialize` (resolved through
    super().initialize) must assign each of them before it is read -- a call of `self.next(...)` reads them all --
    otherwise an interrupt object that served an earlier run answers from the old cursor (a re-used geometric schedule
    starts after the last interrupt of the previous run, a logarithmic one with the grown gap)."""
    base = ix.cls(INTERRUPTS, "InterruptsBase")
    for c in ix.subclasses(base, strict=True):
        if c.module.rel != INTERRUPTS or c.name not in KNOWN_CLASSES - {"RealtimeInterrupts"}:
            continue
        mro = c.mro()

        def chain(name):
            out = []
            for k in mro:
                if name in k.methods:
                    f = k.methods[name][0]
                    out.append(f)
                    if not any(isinstance(x, ast.Call) and isinstance(x.func, ast.Attribute) and x.func.attr == name and isinstance(x.func.value, ast.Call) and dotted(x.func.value.func) == "super" for x in ast.walk(f.node)):
                        break
            return out

        nexts = chain("next")
        inits = chain("initialize")
        if not nexts or not inits:
            raise AnalysisError(f"{c.ref}: next/initialize not resolvable")
        cursor = set()
        for f in nexts:
            for x in ast.walk(f.node):
                tg = x.targets if isinstance(x, ast.Assign) else ([x.target] if isinstance(x, (ast.AugAssign, ast.AnnAssign)) else [])
                for t in tg:
                    if isinstance(t, ast.Attribute) and is_name(t.value, "self"):
                        cursor.add(t.attr)
        # only state that feeds back: attributes `next` also reads (an attribute it merely publishes, like the current gap
        # `dt` of a fixed list, is output, not cursor)
        loaded = set()
        for f in nexts:
            for x in ast.walk(f.node):
                if isinstance(x, ast.Attribute) and is_name(x.value, "self") and isinstance(x.ctx, ast.Load):
                    loaded.add(x.attr)
                if isinstance(x, ast.AugAssign) and isinstance(x.target, ast.Attribute) and is_name(x.target.value, "self"):
                    loaded.add(x.target.attr)
        cursor &= loaded
        problems: list[tuple[str, str, int]] = []

        def reads(node, defined):
            for x in ast.walk(node):
                if isinstance(x, ast.Attribute) and isinstance(x.ctx, ast.Load) and is_name(x.value, "self") and x.attr in cursor and x.attr not in defined:
                    problems.append((x.attr, f"`self.{x.attr}` is read (`{ast.unparse(node)[:60]}`) before `initialize` has assigned it", getattr(node, "lineno", 0)))
                if isinstance(x, ast.Call) and isinstance(x.func, ast.Attribute) and x.func.attr == "next" and is_name(x.func.value, "self"):
                    for a in sorted(cursor - defined):
                        problems.append((a, f"`{ast.unparse(x)}` is called while `self.{a}` still holds the value of the previous run", getattr(node, "lineno", 0)))

        def run(stmts, defined, depth):
            for st in stmts:
                if isinstance(st, ast.Expr) and isinstance(st.value, ast.Constant):
                    continue
                if isinstance(st, ast.If):
                    reads(st.test, defined)
                    d1 = run(st.body, set(defined), depth)
                    d2 = run(st.orelse, set(defined), depth)
                    defined |= d1 & d2
                    continue
                sup = [x for x in ast.walk(st) if isinstance(x, ast.Call) and isinstance(x.func, ast.Attribute) and x.func.attr == "initialize" and isinstance(x.func.value, ast.Call) and dotted(x.func.value.func) == "super"]
                if sup:
                    if depth + 1 >= len(inits):
                        raise AnalysisError(f"{c.ref}: super().initialize not resolvable")
                    defined |= run(strip_doc(inits[depth + 1].node.body), set(defined), depth + 1)
                    continue
                if isinstance(st, (ast.Assign, ast.AnnAssign)) and getattr(st, "value", None) is not None:
                    reads(st.value, defined)
                    for t in st.targets if isinstance(st, ast.Assign) else [st.target]:
                        if isinstance(t, ast.Attribute) and is_name(t.value, "self"):
                            defined.add(t.attr)
                    continue
                reads(st, defined)
            return defined

        defined = run(strip_doc(inits[0].node.body), set(), 0)
        for a in sorted(cursor - defined):
            if not any(p[0] == a for p in problems):
                problems.append((a, f"`self.{a}` is re-bound by `next` but never assigned by `initialize`", inits[0].node.lineno))
        rep.saw("initialize chains", f"{c.name}: cursor {sorted(cursor)}; initialize via {[f.qualname for f in inits]}")
        rep.oblige(f"initialize-resets-cursor:{c.name}", not problems, [p[1] for p in problems])
        seen = set()
        for a, msg, line in problems:
            if a in seen:
                continue
            seen.add(a)
            rep.violation("C09.initialize-resets-cursor", f"{inits[0].ref}::{c.name}::{a}", f"{c.name}: {msg}: an interrupt object that was used before does not restart its schedule (the answers of a second run continue from the cursor of the first)", line=line)


def check(tier: str) -> Report:
    rep = Report("C09", tier, "other", "static: CFG + reaching definitions + sign/integer-valued/ordering-fact domains over the cursor updates")
    rep.explanation = (
        "For every deterministic interrupt class the stores to the schedule cursor (_t_next / _index) are classified "
        "(augmented add of dt or dt*integer; increment by one; scale*factor**integer-valued), ordering facts between the "
        "cursor and the query time are propagated along the CFG to every return, the IndexError idiom of FixedInterrupts "
        "is followed through exception edges from subscripts, and the parse_interrupt dispatch is checked for exhaustiveness."
    )
    rep.trusted = ["CPython ast", "pdelint.cfg", "math.ceil/np.ceil return integer values; round-half-even irrelevant here"]
    ix = get_index()
    base = ix.cls(INT, "InterruptsBase")
    subs = {c.name for c in ix.subclasses(base, strict=True)}
    for c in sorted(subs):
        rep.saw("classes", c)
    unknown = subs - KNOWN_CLASSES
    if unknown:
        raise AnalysisError(f"interrupt classes without a rule: {sorted(unknown)}")
    rep.floor("deterministic interrupt classes", len(subs & (KNOWN_CLASSES - {"RealtimeInterrupts"})), 4)
    check_constant(rep, ix)
    check_fixed(rep, ix)
    check_geometric(rep, ix)
    check_logarithmic(rep, ix)
    check_parse(rep, ix)
    check_double_precision_state(rep, ix)
    check_initialize_resets_cursor(rep, ix)
    rep.assumptions += [
        "dt > 0, factor > 1 (geometric) resp. factor >= 1 (logarithmic), the fixed list is increasing (documented preconditions)",
        "queries are non-decreasing and initialize() precedes next()",
        "RealtimeInterrupts is not deterministic and is outside the property",
    ]
    rep.note("not decided: float round-off of ceil/log near exact hits; the code's repair branches are recognised, their numeric sufficiency is not proved")
    from .c08 import thorough_selftest

    thorough_selftest(rep)
    return rep

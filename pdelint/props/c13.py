"""C13 -- stochastic steps add exactly the documented noise.

The Euler-Maruyama, Milstein and semi-implicit stepping closures are interpreted from
source with ``rhs``, ``noise_var`` and ``gaussian_noise`` uninterpreted; the increment is
compared symbolically with

    dt*f + sqrt(var*dt/V)*xi + 1/2*alpha*dt*var'/V  [+ 1/4*var'/V*((sqrt(dt) xi)^2 - dt)]

and the number/placement of random draws, the generator handed to the backend, the
interpretation table and the per-component / per-field broadcast of the variance are
checked on the extracted facts."""

from __future__ import annotations

import ast

import sympy as sp

from ..core import AnalysisError, Report
from ..fx import Closure, Interp, Model, Opaque, RaisedInCode, UFunc, Unsupported, Vec, WholeArr
from ..index import const_value, get_index
from .c06 import DT, T, U, RhsLog, make_solver

V = sp.Symbol("V", positive=True)
VAR = sp.Symbol("var", positive=True)
DVAR = sp.Symbol("dvar", real=True)
RNG = Model("pde.rng", {})

DOCUMENTED_ALPHA = {"ito": 0, "stratonovich": sp.Rational(1, 2), "anti-ito": 1}


class Noise:
    def __init__(self, it_getter):
        self.var_calls = []
        self.draws = []
        self.rng_args = []
        self.order = []  # sequence of events: 'rhs', 'var', 'draw', 'store'
        self.it_getter = it_getter

    def make_noise_variance(self, state, backend=None, ret_diff=False):
        def noise_var(state_data, t):
            it = self.it_getter()
            self.var_calls.append((it.as_expr(state_data), it.as_expr(t), bool(ret_diff)))
            self.order.append("var")
            if ret_diff:
                return (WholeArr("var", VAR), WholeArr("dvar", DVAR))
            return WholeArr("var", VAR)

        return noise_var

    def make_gaussian_noise(self, state, rng=None):
        self.rng_args.append(rng)

        def gaussian_noise():
            xi = sp.Symbol(f"xi{len(self.draws)}", real=True)
            self.draws.append(xi)
            self.order.append("draw")
            return WholeArr("xi", xi)

        return gaussian_noise


def run_stochastic(ix, rel, clsname, method, alpha, use_var=True, implicit=False):
    rhs = RhsLog()
    holder = {}
    noise = Noise(lambda: holder["it"])
    solver, it = make_solver(ix, rel, clsname, rhs)
    holder["it"] = it
    pde = solver._attrs["pde"]
    pde._attrs.update(
        {
            "is_sde": True,
            "use_noise_variance": use_var,
            "use_noise_realization": False,
            "_noise_drift_factor": alpha,
            "make_noise_variance": noise.make_noise_variance,
            "rng": RNG,
        }
    )
    solver._attrs["backend"]._attrs["make_gaussian_noise"] = noise.make_gaussian_noise
    orig = rhs.ufunc.on_call

    def on_call(it_, args, kwargs, node):
        noise.order.append("rhs")
        return orig(it_, args, kwargs, node)

    rhs.ufunc.on_call = on_call
    state = Model("state", {"data": Opaque("state.data"), "grid": Model("grid", {"cell_volumes": V})})
    maker = it.getattr(solver, method)
    step = it.call(maker, (state, DT), {})
    u = WholeArr("u", U)
    X = sp.Symbol("X")
    seen = {"n": 0, "before": None}
    if implicit:
        def loop_cases(var, lo, hi, node):
            if seen["n"] == 0 and isinstance(hi, sp.Basic) and hi.has(sp.Symbol("maxiter", integer=True, positive=True)):
                seen["n"] += 1
                seen["before"] = u.val  # predictor (not needed), state_t captured in FX
                u.val = X
                return [("iterate", sp.Symbol(var, integer=True, nonnegative=True))]
            return None

        it.loop_cases = loop_cases
        it.decide = lambda cond, node: True
    ret = it.call(step, (u, T), {})
    return rhs, noise, it, u, ret, X, seen


def check_explicit_step(rep: Report, ix, name, rel, clsname, method, milstein: bool):
    ref = f"{rel}::{clsname}.{method}"
    rep.saw("steppers", ref)
    for alpha_name, alpha in (("ito(alpha=0)", sp.Integer(0)), ("alpha!=0", sp.Symbol("alpha", positive=True))):
        if milstein and False:
            continue
        try:
            rhs, noise, it, u, ret, X, seen = run_stochastic(ix, rel, clsname, method, alpha)
        except (Unsupported, RaisedInCode) as e:
            raise AnalysisError(f"{ref} [{alpha_name}]: {e}") from e
        tag = f"{name}:{alpha_name}"
        result = it.as_expr(ret) if ret is not None else u.val
        ok = sp.simplify(result - u.val) == 0
        rep.oblige(f"{tag}:returns the updated state", ok)
        if not ok:
            rep.violation("C13.return-vs-state", f"{ref}::single_step::return", f"{tag}: returned `{result}` differs from the in-place updated state `{u.val}`")
        n_draws = len(noise.draws)
        rep.oblige(f"{tag}:exactly one gaussian draw per step", n_draws == 1, n_draws)
        if n_draws != 1:
            rep.violation("C13.draw-count", f"{ref}::single_step::gaussian_noise", f"{tag}: {n_draws} calls of gaussian_noise() in one step, documented: exactly one (reproducibility with a seeded generator)")
            continue
        xi = noise.draws[0]
        F = rhs.calls[0][2] if rhs.calls else None
        if len(rhs.calls) != 1 or F is None:
            rep.violation("C13.rhs-count", f"{ref}::single_step::rhs", f"{tag}: {len(rhs.calls)} evaluations of the deterministic rate")
            continue
        want = U + DT * F + sp.sqrt(VAR * DT / V) * xi + sp.Rational(1, 2) * alpha * DT * DVAR / V
        if milstein:
            want += sp.Rational(1, 4) * DVAR / V * ((sp.sqrt(DT) * xi) ** 2 - DT)
        res = sp.simplify(sp.expand(result - want))
        ok = res == 0
        rep.oblige(f"{tag}:increment identity", ok, str(result))
        if len(rep.samples) < 8:
            rep.sample({"step": tag, "extracted": str(result)})
        if not ok:
            rep.violation("C13.increment", f"{ref}::single_step::{alpha_name}", f"{tag}: one step gives `{result}`; documented `{want}` (difference {res})")
        # all field-dependent terms are evaluated at the pre-step state and time t, before the draw
        bad = [(str(s), str(t)) for s, t, f in rhs.calls if sp.simplify(s - U) != 0 or sp.simplify(t - T) != 0]
        bad += [(str(s), str(t)) for s, t, rd in noise.var_calls if sp.simplify(s - U) != 0 or sp.simplify(t - T) != 0]
        rep.oblige(f"{tag}:rate and variance evaluated at the pre-step state", not bad, bad)
        if bad:
            rep.violation("C13.evaluation-state", f"{ref}::single_step::evaluation", f"{tag}: rate/variance evaluated at {bad}, must be the pre-step state at time t")
        order = noise.order
        ok = "draw" in order and all(e != "draw" for e in order[: order.index("draw")]) and all(e not in ("rhs", "var") for e in order[order.index("draw") :])
        rep.oblige(f"{tag}:draw after all field-dependent evaluations", ok, order)
        if not ok:
            rep.violation("C13.draw-order", f"{ref}::single_step::order", f"{tag}: event order {order}; the random draw must come after the field-dependent evaluations")
        rng_ok = len(noise.rng_args) == 1 and noise.rng_args[0] is RNG
        rep.oblige(f"{tag}:generator handed to the backend is pde.rng", rng_ok)
        if not rng_ok:
            rep.violation("C13.rng", f"{ref}::make_gaussian_noise::rng", f"{tag}: make_gaussian_noise is given {noise.rng_args!r} instead of the equation's generator `pde.rng`")
    # vanishing variance switch: use_noise_variance False -> no draw, no noise term
    if milstein:
        # MilsteinSolver.__init__ rejects equations without noise variance; the closure asserts it
        return
    try:
        rhs, noise, it, u, ret, X, seen = run_stochastic(ix, rel, clsname, method, sp.Integer(0), use_var=False)
        result = u.val
        ok = len(rhs.calls) == 1 and sp.simplify(result - (U + DT * rhs.calls[0][2])) == 0 and not any(result.has(x) for x in (VAR, DVAR))
        rep.oblige(f"{name}:without noise variance the step is the deterministic update", ok, str(result))
        if not ok:
            rep.violation("C13.deterministic-limit", f"{ref}::single_step::no-variance", f"{name}: with use_noise_variance False one step gives `{result}`")
    except RaisedInCode:
        rep.note(f"{name}: rejects use_noise_variance=False by raising (documented for Milstein)")
    except Unsupported as e:
        raise AnalysisError(f"{ref} [no variance]: {e}") from e


def check_semi_implicit(rep: Report, ix):
    rel, clsname, method = "pde/solvers/implicit.py", "ImplicitSolver", "_make_single_step_fixed_dt_stochastic"
    ref = f"{rel}::{clsname}.{method}"
    rep.saw("steppers", ref)
    try:
        rhs, noise, it, u, ret, X, seen = run_stochastic(ix, rel, clsname, method, sp.Integer(0), implicit=True)
    except (Unsupported, RaisedInCode) as e:
        raise AnalysisError(f"{ref}: {e}") from e
    if seen["n"] != 1:
        raise AnalysisError(f"{ref}: fixed-point loop not found")
    FX = sp.sympify(u.val)
    n_draws = len(noise.draws)
    rep.oblige("semi-implicit:exactly one gaussian draw per step", n_draws == 1, n_draws)
    if n_draws != 1:
        rep.violation("C13.draw-count", f"{ref}::implicit_step::gaussian_noise", f"semi-implicit step draws {n_draws} random fields per step")
        return
    xi = noise.draws[0]
    # the iteration map must be X -> (u + sqrt(dt var / V) xi) + dt rhs(X, t + dt)
    fnew = [f for s, t, f in rhs.calls if sp.sympify(s).has(X)]
    ok = False
    if len(fnew) == 1:
        want = U + sp.sqrt(DT * VAR / V) * xi + DT * fnew[0]
        ok = sp.simplify(sp.expand(FX - want)) == 0
        st, tt = [(s, t) for s, t, f in rhs.calls if f == fnew[0]][0]
        ok = ok and sp.simplify(tt - (T + DT)) == 0 and sp.simplify(st - X) == 0
    rep.oblige("semi-implicit:iteration map adds the noise increment to the state it iterates from", ok, str(FX))
    rep.sample({"step": "semi-implicit", "iteration map X ->": str(FX)})
    if not ok:
        rep.violation("C13.increment", f"{ref}::implicit_step::iteration", f"semi-implicit iteration map is X -> `{FX}`; documented: (u + sqrt(var*dt/V)*xi) + dt*rhs(X, t+dt)")
    rng_ok = len(noise.rng_args) == 1 and noise.rng_args[0] is RNG
    rep.oblige("semi-implicit:generator is pde.rng", rng_ok)
    if not rng_ok:
        rep.violation("C13.rng", f"{ref}::make_gaussian_noise::rng", "semi-implicit solver does not pass pde.rng to make_gaussian_noise")
    first_draw = noise.order.index("draw")
    ok = all(e != "var" for e in noise.order[first_draw:])
    rep.oblige("semi-implicit:variance evaluated before the draw", ok, noise.order)
    if not ok:
        rep.violation("C13.draw-order", f"{ref}::implicit_step::order", f"semi-implicit: event order {noise.order}")


def check_interpretations(rep: Report, ix):
    m = ix.module("pde/pdes/base.py")
    if "NOISE_INTERPRETATIONS" not in m.assigns:
        raise AnalysisError("anchor vanished: pde/pdes/base.py::NOISE_INTERPRETATIONS")
    try:
        table = const_value(m.assigns["NOISE_INTERPRETATIONS"])
    except ValueError:
        raise AnalysisError("NOISE_INTERPRETATIONS is not a literal table")
    rep.sample({"NOISE_INTERPRETATIONS": table})
    for k, v in DOCUMENTED_ALPHA.items():
        ok = k in table and sp.nsimplify(table[k]) == v
        rep.oblige(f"interpretation:{k}", ok, table.get(k))
        if not ok:
            rep.violation("C13.interpretation-table", f"pde/pdes/base.py::NOISE_INTERPRETATIONS::{k}", f"interpretation `{k}` maps to alpha = {table.get(k)!r}, documented {v}")
    # aliases with diacritics must agree with their plain spelling
    import unicodedata

    for k, v in table.items():
        plain = "".join(c for c in unicodedata.normalize("NFD", k) if unicodedata.category(c) != "Mn")
        if plain != k and plain in table and table[plain] != v:
            rep.violation("C13.interpretation-table", f"pde/pdes/base.py::NOISE_INTERPRETATIONS::{k}", f"alias `{k}` = {v} differs from `{plain}` = {table[plain]}")
    # the property reading it
    f = ix.func("pde/pdes/base.py", "PDEBase._noise_drift_factor")
    rep.saw("functions", f.ref)
    it = Interp(ix)
    for k, v in DOCUMENTED_ALPHA.items():
        obj = Model("pde", {"noise_interpretation": k}, cls=ix.cls("pde/pdes/base.py", "PDEBase"))
        try:
            got = it.getattr(obj, "_noise_drift_factor")
        except (Unsupported, RaisedInCode) as e:
            raise AnalysisError(f"{f.ref}: {e}") from e
        ok = sp.nsimplify(got) == v
        rep.oblige(f"_noise_drift_factor({k})", ok, str(got))
        if not ok:
            rep.violation("C13.interpretation-table", f"{f.ref}::lookup::{k}", f"_noise_drift_factor for `{k}` evaluates to {got}, documented {v}")


def check_gaussian_noise(rep: Report, ix):
    """"the normal numbers are exactly the successive draws of the generator given to the equation": the noise closure
    of the numpy back-end is interpreted (pdelint/npsem.py) with a recording generator for fields of two shapes and
    called several times: call k must return exactly the numbers of the k-th request, every request must be for one
    array of the shape of the field data, and after k calls the generator has been advanced by k * data.size numbers
    (drawing ahead in blocks leaves the generator of the equation past the numbers actually used)."""
    import numpy as np

    from .. import npsem as ns

    f = ix.func("pde/backends/numpy/backend.py", "NumpyBackend.make_gaussian_noise")
    rep.saw("functions", f.ref)
    # module-level constants the function may refer to
    mod_consts = {}
    for st in f.module.tree.body if hasattr(f.module, "tree") else []:
        if isinstance(st, ast.Assign) and len(st.targets) == 1 and isinstance(st.targets[0], ast.Name) and isinstance(st.value, ast.Constant):
            mod_consts[st.targets[0].id] = st.value.value
    bad: dict[str, str] = {}
    for shape in ((2, 3), (5,)):
        log: list = []
        drawn = [0]

        def standard_normal(size=None, **kw):
            shp = () if size is None else (tuple(size) if isinstance(size, (tuple, list)) else (int(size),))
            n = int(np.prod(shp)) if shp else 1
            out = np.empty(n, dtype=object)
            for q in range(n):
                out[q] = sp.Symbol(f"xi_{drawn[0] + q}")
            drawn[0] += n
            log.append(shp)
            return out.reshape(shp) if shp else out[0]

        rng = ns.Stub("rng", standard_normal=standard_normal)
        data = ns.sym_array("d", shape)
        field = ns.Stub("field", data=data, grid=ns.Stub("grid", shape=shape[-1:], num_axes=1))
        sem = ns.NpSem(where=f.ref)
        scope = dict(mod_consts)
        scope["np"] = ns.NP
        try:
            fn = sem.run_function(f.node, scope, args=(ns.Stub("backend"), field), kwargs={"rng": rng})
            results = [fn() for _ in range(3)]
        except ns.Raised as e:
            bad.setdefault("raises", f"data shape {shape}: ends in `{e}`")
            continue
        size = int(np.prod(shape))
        for k, r in enumerate(results):
            want = np.array([sp.Symbol(f"xi_{k * size + q}") for q in range(size)], dtype=object).reshape(shape)
            if not isinstance(r, np.ndarray) or r.shape != tuple(shape) or ns.arrays_equal(r, want):
                bad.setdefault("numbers", f"data shape {shape}: call {k} does not return the numbers {k * size}..{(k + 1) * size - 1} of the generator's stream")
        if drawn[0] != 3 * size:
            bad.setdefault("advanced", f"data shape {shape}: after 3 calls the generator has been advanced by {drawn[0]} numbers instead of {3 * size} (requests {log}): numbers drawn ahead are lost when the run ends, so a continued run / a second run with the same generator does not continue the stream")
    rep.oblige("numpy gaussian_noise: call k returns the k-th block of the generator's stream, nothing is drawn ahead", not bad, bad)
    for role, msg in bad.items():
        rep.violation("C13.gaussian-noise", f"{f.ref}::gaussian_noise::{role}", f"numpy gaussian noise: {msg}", line=f.node.lineno)


def check_noise_variance(rep: Report, ix):
    cands = [g for g in ix.funcs("pde/pdes/base.py", "SDEBase.make_noise_variance") if g.node.name == "make_noise_variance" and not any(d.endswith("overload") for d in g.decorator_names)]
    if len(cands) != 1:
        raise AnalysisError("SDEBase.make_noise_variance: implementation not found among overloads")
    f = cands[0]
    rep.saw("functions", f.ref)
    it = Interp(ix)
    stores = []
    n = 3
    noise = Vec([sp.Symbol(f"s{k}", positive=True) for k in range(n)])
    slices = [sp.Symbol(f"slice{k}") for k in range(n)]

    class Rec:
        pass

    arr = Model(
        "noise_vars",
        {
            "__setitem__": lambda key, v, aug, st: stores.append((key[0], v)),
            "reshape": lambda *a: arr,
            "copy": lambda: arr,
        },
    )
    it.np["empty"] = lambda *a, **k: arr
    it.np["broadcast_to"] = lambda x, shape: x
    it.np["zeros_like"] = lambda x: Opaque("zeros")
    coll_cls = ix.cls("pde/fields/collection.py", "FieldCollection")
    state = Model(
        "state",
        {
            "grid": Model("grid", {"num_axes": 2}),
            "_slices": slices,
            "__len__": n,
            "data": Model("data", {"shape": (sp.Symbol("ncomp"), sp.Symbol("N0"), sp.Symbol("N1"))}),
            "data_shape": (sp.Symbol("ncomp"),),
        },
        cls=coll_cls,
    )
    pde = Model("pde", {"noise": noise, "_logger": Model("logger", {"warning": lambda *a, **k: None})}, cls=ix.cls("pde/pdes/base.py", "SDEBase"))
    backend = Model("backend", {"numpy_to_native": lambda x: x})
    try:
        fn = it.call(it.make_closure(f, it.module_env(f.module), bound_self=pde), (state,), {"backend": backend})
    except (Unsupported, RaisedInCode) as e:
        raise AnalysisError(f"{f.ref}: {e}") from e
    ok = len(stores) == n and all(sp.sympify(k) == slices[i] and sp.sympify(v) == noise.items[i] for i, (k, v) in enumerate(stores))
    rep.oblige("noise variance of field i is written to the slice of field i", ok, [(str(k), str(v)) for k, v in stores])
    rep.sample({"make_noise_variance(collection)": [(str(k), str(v)) for k, v in stores]})
    if not ok:
        rep.violation("C13.variance-broadcast", f"{f.ref}::collection-branch::slices", f"per-field variances are distributed as {[(str(k), str(v)) for k, v in stores]}; field i must get variance i on its own slice")
    ret = it.call(fn, (Opaque("state_data"), T), {})
    ok = ret is arr
    rep.oblige("noise_variance closure returns the broadcast variance array", ok)
    if not ok:
        rep.violation("C13.variance-broadcast", f"{f.ref}::noise_variance::return", "noise_variance does not return the prepared per-component variance array")


def check_dispatch(rep: Report, ix):
    """vanishing variance => is_sde False => deterministic closure"""
    cands = [g for g in ix.module("pde/pdes/base.py").functions.values() if g.node.name == "is_sde" and g.cls and g.cls.name == "SDEBase"]
    if not cands:
        raise AnalysisError("anchor vanished: SDEBase.is_sde")
    f = cands[0]
    rep.saw("functions", f.ref)
    it = Interp(ix)
    for noise, use_var, use_real, want in ((sp.Integer(0), True, False, False), (sp.Symbol("s", positive=True), True, False, True), (sp.Symbol("s", positive=True), False, False, False), (sp.Integer(0), False, True, True)):
        obj = Model("pde", {"noise": noise, "use_noise_variance": use_var, "use_noise_realization": use_real}, cls=f.cls)
        it.np["allclose"] = lambda a, b, **k: sp.simplify(it.as_expr(a) - it.as_expr(b)) == 0
        try:
            got = it.getattr(obj, "is_sde")
        except (Unsupported, RaisedInCode) as e:
            raise AnalysisError(f"{f.ref}: {e}") from e
        ok = bool(got) == want
        rep.oblige(f"is_sde(noise={noise}, variance={use_var}, realization={use_real}) == {want}", ok, str(got))
        if not ok:
            rep.violation("C13.sde-dispatch", f"{f.ref}::is_sde::noise={noise}", f"is_sde evaluates to {got} for noise={noise}, use_noise_variance={use_var}, use_noise_realization={use_real}; documented {want}")
    # solvers dispatch on pde.is_sde: with is_sde False the deterministic closure is returned
    from .c06 import run_single_step

    for rel, clsname in (("pde/solvers/euler.py", "EulerSolver"), ("pde/solvers/implicit.py", "ImplicitSolver")):
        rhs2 = RhsLog()
        solver2, it2 = make_solver(ix, rel, clsname, rhs2)
        step = it2.call(it2.getattr(solver2, "_make_single_step_fixed_dt"), (Model("state", {"data": Opaque("d"), "grid": Model("grid", {"cell_volumes": V})}), DT), {})
        ok = isinstance(step, Closure) and "stochastic" not in (step.qualname or "")
        rep.oblige(f"{clsname}: is_sde False selects the deterministic step", ok, step.qualname)
        if not ok:
            rep.violation("C13.sde-dispatch", f"{rel}::{clsname}._make_single_step_fixed_dt::dispatch", f"{clsname} returns `{step.qualname}` for a deterministic equation")



def check_rng_binding(rep: Report, ix):
    """`pde.rng` is the generator *given to the equation*: PDEBase.__init__ must bind self.rng to
    np.random.default_rng(<parameter rng>) with the parameter untouched (default_rng returns a Generator it is
    handed unaltered, and seeds a new one from None / int).  A copy of the generator replays numbers the caller
    already consumed and leaves the caller's generator unadvanced."""
    import ast

    f = ix.func("pde/pdes/base.py", "PDEBase.__init__")
    rep.saw("functions", f.ref)
    names = [a.arg for a in f.node.args.args + f.node.args.kwonlyargs]
    if "rng" not in names:
        raise AnalysisError(f"{f.ref}: parameter `rng` vanished")
    stores = [st for st in ast.walk(f.node) if isinstance(st, ast.Assign) and any(isinstance(t, ast.Attribute) and t.attr == "rng" and isinstance(t.value, ast.Name) and t.value.id == "self" for t in st.targets)]
    if len(stores) != 1:
        raise AnalysisError(f"{f.ref}: expected exactly one assignment to self.rng, found {len(stores)}")
    v = stores[0].value
    ok_call = isinstance(v, ast.Call) and ast.unparse(v.func).endswith("random.default_rng") and len(v.args) == 1 and not v.keywords and isinstance(v.args[0], ast.Name) and v.args[0].id == "rng"
    # the parameter must reach the call unmodified: no other binding of the name `rng` in the constructor
    rebinds = [st for st in ast.walk(f.node) if isinstance(st, (ast.Assign, ast.AugAssign, ast.AnnAssign, ast.NamedExpr)) and any(isinstance(t, ast.Name) and t.id == "rng" and isinstance(t.ctx, ast.Store) for t in ast.walk(st))]
    ok = ok_call and not rebinds
    rep.oblige("PDEBase.__init__: self.rng = np.random.default_rng(<the generator given>)", ok, {"value": ast.unparse(v), "rebinds of rng": [ast.unparse(r)[:60] for r in rebinds]})
    if not ok_call:
        rep.violation("C13.rng", f"{f.ref}::self.rng", f"self.rng is bound to `{ast.unparse(v)}`, not to np.random.default_rng(rng): the noise is not drawn from the generator given to the equation", line=stores[0].lineno)
    for r in rebinds:
        rep.violation(
            "C13.rng",
            f"{f.ref}::rng-rebound",
            f"`{ast.unparse(r)[:70]}` replaces the generator given by the caller before it is stored: the noise is drawn from another generator object (e.g. a copy), so the numbers are not "
            "the successive draws of the caller's generator -- a generator used before/after or shared by two equations replays the same numbers",
            line=r.lineno,
        )


def check_variance_evaluated_per_step(rep: Report, ix):
    """the noise variance may depend on the field and on time: every stochastic stepper evaluates `noise_var(state, t)` inside
    the step closure (with the step's own state and time), never once in the factory -- a variance frozen at the state the
    stepper was built from makes every step after the first one add the wrong noise"""
    import ast

    sites = [
        ("pde/solvers/euler.py", "EulerSolver._make_single_step_fixed_dt_stochastic"),
        ("pde/solvers/milstein.py", "MilsteinSolver._make_single_step_fixed_dt_stochastic"),
        ("pde/solvers/implicit.py", "ImplicitSolver._make_single_step_fixed_dt_stochastic"),
    ]
    n = 0
    for rel, qn in sites:
        f = ix.func(rel, qn)
        rep.saw("functions", f.ref)
        var_names = set()
        for st in ast.walk(f.node):
            if isinstance(st, ast.Assign) and isinstance(st.value, ast.Call) and ast.unparse(st.value.func).split(".")[-1] in ("make_noise_variance", "compile_function") and len(st.targets) == 1:
                t = st.targets[0]
                if isinstance(t, ast.Name) and "noise_var" in t.id:
                    var_names.add(t.id)
        if not var_names:
            raise AnalysisError(f"{f.ref}: the noise-variance function was not found")
        nested = {id(x) for g in f.nested() for x in ast.walk(g.node)}
        outside = [c for c in ast.walk(f.node) if isinstance(c, ast.Call) and isinstance(c.func, ast.Name) and c.func.id in var_names and id(c) not in nested]
        inside = [c for c in ast.walk(f.node) if isinstance(c, ast.Call) and isinstance(c.func, ast.Name) and c.func.id in var_names and id(c) in nested]
        n += 1
        ok = not outside and bool(inside)
        rep.oblige(f"{qn}: the noise variance is evaluated inside the step closure only", ok, {"in the factory": [ast.unparse(c)[:50] for c in outside], "in the step": len(inside)})
        if not ok:
            c = (outside or [f.node])[0]
            rep.violation(
                "C13.increment",
                f"{f.ref}::variance-frozen",
                f"`{ast.unparse(c)[:60]}` evaluates the noise variance when the stepper is built, not in each step: from the second step on the increment uses the variance of the initial state "
                "and time instead of sqrt(variance(state, t)*dt/V)" if outside else "the step closure never evaluates the noise variance",
                line=getattr(c, "lineno", f.node.lineno),
            )
    rep.floor("stochastic stepper factories inspected for frozen variances", n, 3)


def check_noise_variance_layout(rep: Report, ix):
    """make_noise_variance interpreted (pdelint/npsem.py) on a collection [scalar, 2-vector, scalar] and on single fields:
    the variance array handed to the steppers has one entry per *data component*, every component of field i carrying the
    variance of field i (per-component variances for a single tensor field), shaped to broadcast over the grid axes"""
    import numpy as _np

    from .. import npsem as ns

    cands = [g for g in ix.funcs("pde/pdes/base.py", "SDEBase.make_noise_variance") if g.node.name == "make_noise_variance" and not any(d.endswith("overload") for d in g.decorator_names)]
    if len(cands) != 1:
        raise AnalysisError("SDEBase.make_noise_variance: implementation not found among overloads")
    f = cands[0]
    m = f.module
    base_vars = {n: ns.Opaque(n) for n in list(m.imports) + list(m.functions) + list(m.classes) + list(m.assigns) if "." not in n}
    base_vars.update({"np": ns.NP, "DataFieldBase": ns.KindRef("DataFieldBase"), "FieldCollection": ns.KindRef("FieldCollection")})
    backend = ns.Stub("backend", numpy_to_native=lambda x: x)
    cases = []
    # collection: fields of 1, 2, 1 data components on a 2 x 3 grid
    s3 = ns.sym_array("s", (3,), positive=True)
    coll = ns.Stub("state", grid=ns.Stub("grid", num_axes=2), _slices=[slice(0, 1), slice(1, 3), slice(3, 4)], data=ns.sym_array("u", (4, 2, 3)), data_shape=(4,), __len__=lambda: 3, __kind__=("FieldCollection", "FieldBase"))
    cases.append(("collection [scalar, vector, scalar], per-field variances", coll, s3, _np.array([s3[0], s3[1], s3[1], s3[2]], dtype=object).reshape(4, 1, 1)))
    s1 = sp.Symbol("s", positive=True)
    cases.append(("collection, one variance for all", coll, s1, _np.array([s1] * 4, dtype=object).reshape(4, 1, 1)))
    vec = ns.Stub("state", grid=ns.Stub("grid", num_axes=2), data=ns.sym_array("u", (2, 2, 3)), data_shape=(2,), __kind__=("VectorField", "DataFieldBase", "FieldBase"))
    s2 = ns.sym_array("s", (2,), positive=True)
    cases.append(("vector field, per-component variances", vec, s2, s2.reshape(2, 1, 1)))
    sca = ns.Stub("state", grid=ns.Stub("grid", num_axes=1), data=ns.sym_array("u", (3,)), data_shape=(), __kind__=("ScalarField", "DataFieldBase", "FieldBase"))
    cases.append(("scalar field", sca, s1, _np.array(s1, dtype=object).reshape(1)))
    for tag, state, noise, want in cases:
        for ret_diff in (False, True):
            pde = ns.Stub("pde", noise=noise, _logger=ns.Opaque("logger"))
            sem = ns.NpSem(where=f.ref)
            scope = ns.Scope(base_vars)
            # len(state) for the collection stand-in
            if "__len__" in state._attrs:
                scope.set("len", lambda x, _s=state: 3 if x is _s else len(x))
            try:
                fn = sem.run_function(f.node, {}, (pde, state), {"backend": backend, "ret_diff": ret_diff}, outer=scope)
                res = fn(state._attrs["data"], sp.Symbol("t"))
            except ns.Raised as e:
                rep.oblige(f"noise-variance layout: {tag}", False, e.what)
                rep.violation("C13.variance-layout", f"{f.ref}::raises", f"{tag}: make_noise_variance raises `{e.what}`")
                continue
            except ns.Unsupported as e:
                raise AnalysisError(f"{f.ref} [{tag}]: {e}") from e
            var = res[0] if ret_diff else res
            diff = ns.arrays_equal(var, want) if _np.shape(var) == _np.shape(want) else [("shape", _np.shape(var), _np.shape(want))]
            bad_un = ns.has_uninit(var)
            ok = not diff and not bad_un
            rep.oblige(f"noise-variance layout: {tag}: ret_diff={ret_diff}", ok, None if ok else str((diff or ["uninitialised entries"])[0])[:160])
            if not ok:
                what = "some data components never receive a variance (uninitialised memory)" if bad_un and not diff else (f"shape {diff[0][1]} instead of {diff[0][2]}" if diff[0][0] == "shape" else f"component {tuple(diff[0][0])[0]} gets `{diff[0][1]}`, expected `{diff[0][2]}`")
                rep.violation(
                    "C13.variance-layout",
                    f"{f.ref}::{tag.split(',')[0].split(' ')[0]}",
                    f"{tag}: {what} (s_i = variance given for field/component i): not every data component of a field evolves with that field's noise",
                    line=f.node.lineno,
                )


def check(tier: str) -> Report:
    rep = Report("C13", tier, "proof", "abstract interpretation of the stochastic stepping closures with uninterpreted rate/variance/noise; symbolic increment identity; event-order and generator rules")
    rep.explanation = (
        "EulerSolver._make_single_step_fixed_dt_stochastic, MilsteinSolver._make_single_step_fixed_dt_stochastic and "
        "ImplicitSolver._make_single_step_fixed_dt_stochastic are interpreted from source with the deterministic rate, the noise variance "
        "(and its derivative) and the standard normal draw as fresh symbols, cell volume V, alpha = 0 and alpha != 0. The extracted update "
        "must equal the documented increment identically; exactly one draw per step, after all field-dependent evaluations, from the "
        "generator pde.rng; numpy gaussian noise is rng.standard_normal(shape); interpretation table and is_sde dispatch are evaluated "
        "from source; per-field variances go to the field's own slice."
    )
    ix = get_index()
    check_variance_evaluated_per_step(rep, ix)
    def section(fn, *a):
        """a construct already in violation may be outside the grammar of the finer rules: that is a note, not an analysis error"""
        try:
            fn(rep, ix, *a)
        except AnalysisError as e:
            hit = [f_ for f_ in rep.findings if f_.construct.split("::")[0] + "::" + f_.construct.split("::")[1] in str(e)]
            if not hit:
                raise
            rep.note(f"finer rules skipped for a construct already in violation: {str(e)[:200]}")

    section(check_explicit_step, "euler-maruyama", "pde/solvers/euler.py", "EulerSolver", "_make_single_step_fixed_dt_stochastic", False)
    section(check_explicit_step, "milstein", "pde/solvers/milstein.py", "MilsteinSolver", "_make_single_step_fixed_dt_stochastic", True)
    section(check_semi_implicit)
    section(check_interpretations)
    section(check_gaussian_noise)
    section(check_noise_variance_layout)
    section(check_noise_variance)
    section(check_dispatch)
    check_rng_binding(rep, ix)
    if not rep.findings:
        rep.floor("stochastic stepping closures analysed", len(rep.analysed.get("steppers", [])), 3)
    rep.assumptions += [
        "numpy's Generator.standard_normal is trusted; bit-for-bit reproducibility follows from: same generator, one draw of the state's shape per step",
        "the numba backend uses numba's own generator (np.random.randn) and is outside the reproducibility clause",
        "noise realisations supplied by make_noise_realization are not analysed",
    ]
    return rep

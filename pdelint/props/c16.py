"""C16 -- interpolation exact where it must be; insertion conserves the amount.

Everything is decided on formulas extracted with the fx interpreter from the syntax
trees of

* ``make_interpolation_axis_data.get_axis_data`` (branch table: one path per decision
  sequence, explored with the ``decide`` callback, path conditions kept as linear
  constraints over the cell coordinate ``s = k + d``),
* ``make_single_interpolator.interpolate_single`` (1/2/3 axes) and
  ``NumbaBackend.make_inserter.insert`` (1/2/3 axes), interpreted on *slot symbols*
  (the k-th entry of the tuple returned for axis a), so that weight<->cell pairing is
  by tuple position, not by variable name,
* ``DataFieldBase.insert`` (interpreted python route, generic in the number of axes),
* the flag plumbing ``DataFieldBase.interpolate -> make_interpolator ->
  NumbaBackend.make_interpolator -> make_single_interpolator``.

Identities (weights sum to one, affine exactness, sum(V*delta) == amount, agreement of
the two inserters cell by cell) are discharged with sympy; statements about ranges
(partition of [-1/2, N-1/2], index bounds, nearest cell in the boundary strips) with a
small Fourier-Motzkin prover for linear integer/real constraints defined below.
"""

from __future__ import annotations

import ast
import itertools
import math
from dataclasses import dataclass, field
from fractions import Fraction

import sympy as sp
from sympy.core.function import AppliedUndef
from sympy.core.relational import Relational

from ..core import AnalysisError, Report
from ..fx import ALL, Closure, IdxArr, Interp, Model, RaisedInCode, SymArray, Unsupported, Vec, make_grid_model, to_py
from ..index import dotted, get_index
from ..kernels import backend_model, read_config_defaults, std_overrides

GRIDS = "pde/backends/numba/grids.py"
NB = "pde/backends/numba/backend.py"
DFB = "pde/fields/datafield_base.py"

HALF = sp.Rational(1, 2)
GUARD_MAX = sp.Rational(1, 10**12)  # a round-off guard may only touch weights below this
AX = "xyz"


# =============================================================================
# linear arithmetic: Fourier-Motzkin with integer tightening (sound for infeasibility)
# =============================================================================
class NonLinear(AnalysisError):
    pass


_MODS: dict = {}  # abstraction symbol -> modulus (abstracted, linear)
_MOD_BY_EXPR: dict = {}


def abstract_mods(expr):
    """replace every ``Mod(e, m)`` by an integer symbol known to lie in [0, m-1]"""
    if isinstance(expr, (bool, int)):
        return expr
    expr = sp.sympify(expr)
    if not expr.has(sp.Mod):
        return expr

    def sym_for(e):
        if e not in _MOD_BY_EXPR:
            s = sp.Symbol(f"mod{len(_MOD_BY_EXPR)}", integer=True)
            _MOD_BY_EXPR[e] = s
            _MODS[s] = e.args[1]
        return _MOD_BY_EXPR[e]

    return expr.replace(lambda e: isinstance(e, sp.Mod), sym_for)


def strip_mods(expr):
    """a representative of the residue class: every ``Mod(e, m)`` replaced by ``e``"""
    expr = sp.sympify(expr)
    while expr.has(sp.Mod):
        expr = expr.replace(lambda e: isinstance(e, sp.Mod), lambda e: e.args[0])
    return expr


def _frac(x) -> Fraction:
    if isinstance(x, sp.Rational):
        return Fraction(int(x.p), int(x.q))
    if isinstance(x, sp.Float):
        return Fraction(str(x))
    raise NonLinear(f"non-rational coefficient {x}")


def linform(expr):
    """expr -> ({symbol: Fraction}, Fraction); raises NonLinear"""
    expr = sp.expand(sp.sympify(expr))
    coefs: dict = {}
    const = Fraction(0)
    for mon, c in expr.as_coefficients_dict().items():
        if mon == 1:
            const += _frac(c)
        elif mon.is_Symbol:
            coefs[mon] = coefs.get(mon, Fraction(0)) + _frac(c)
        else:
            raise NonLinear(f"`{expr}` is not linear")
    return coefs, const


class Con:
    """sum(coefs[s]*s) + const  >  0   (strict)   or   >= 0"""

    __slots__ = ("coefs", "const", "strict")

    def __init__(self, coefs, const, strict):
        self.coefs = {s: c for s, c in coefs.items() if c != 0}
        self.const = const
        self.strict = strict

    def key(self):
        return (tuple(sorted((s.name, c) for s, c in self.coefs.items())), self.const, self.strict)

    def __repr__(self):
        body = " + ".join(f"{c}*{s}" for s, c in self.coefs.items()) or "0"
        return f"{body} + {self.const} {'>' if self.strict else '>='} 0"


def _tighten(c: Con) -> Con:
    if not c.coefs or not all(s.is_integer for s in c.coefs):
        return c
    l = 1
    for v in c.coefs.values():
        l = l * v.denominator // math.gcd(l, v.denominator)
    ints = {s: int(v * l) for s, v in c.coefs.items()}
    g = 0
    for v in ints.values():
        g = math.gcd(g, abs(v))
    c0 = c.const * l / g
    bound = math.floor(-c0) + 1 if c.strict else math.ceil(-c0)
    return Con({s: Fraction(v // g) for s, v in ints.items()}, Fraction(-bound), False)


def _typing(sym) -> list[Con]:
    out = []
    if sym in _MODS:
        co, c0 = linform(_MODS[sym])
        out.append(Con({sym: Fraction(1)}, Fraction(0), False))
        co = dict(co)
        co[sym] = co.get(sym, Fraction(0)) - 1
        out.append(Con(co, c0 - 1, False))
    if sym.is_positive:
        out.append(Con({sym: Fraction(1)}, Fraction(0), True))
    elif sym.is_nonnegative:
        out.append(Con({sym: Fraction(1)}, Fraction(0), False))
    return out


def infeasible(cons: list[Con]) -> bool:
    cons = list(cons)
    seen_syms: set = set()
    todo = {s for c in cons for s in c.coefs}
    while todo:
        s = todo.pop()
        if s in seen_syms:
            continue
        seen_syms.add(s)
        for t in _typing(s):
            cons.append(t)
            todo |= set(t.coefs) - seen_syms
    cons = [_tighten(c) for c in cons]
    order = sorted(seen_syms, key=lambda s: (bool(s.is_integer), s.name))
    for v in order:
        lower, upper, rest = [], [], []
        for c in cons:
            a = c.coefs.get(v, 0)
            (lower if a > 0 else upper if a < 0 else rest).append(c)
        new = list(rest)
        for lo in lower:
            for up in upper:
                a, b = lo.coefs[v], -up.coefs[v]
                co: dict = {}
                for s, x in lo.coefs.items():
                    co[s] = co.get(s, 0) + b * x
                for s, x in up.coefs.items():
                    co[s] = co.get(s, 0) + a * x
                new.append(_tighten(Con(co, b * lo.const + a * up.const, lo.strict or up.strict)))
        seen, cons = set(), []
        for c in new:
            if not c.coefs:
                if c.const < 0 or (c.const == 0 and c.strict):
                    return True
                continue
            k = c.key()
            if k not in seen:
                seen.add(k)
                cons.append(c)
        if len(cons) > 5000:
            raise NonLinear("constraint system too large")
    return False


def negate(cond):
    if cond is True or cond is sp.true:
        return sp.false
    if cond is False or cond is sp.false:
        return sp.true
    if isinstance(cond, sp.And):
        return sp.Or(*[negate(a) for a in cond.args])
    if isinstance(cond, sp.Or):
        return sp.And(*[negate(a) for a in cond.args])
    if isinstance(cond, sp.Not):
        return cond.args[0]
    if isinstance(cond, Relational):
        return cond.negated
    raise NonLinear(f"condition {cond!r} outside the fragment")


def _rel_dnf(cond) -> list[list[Con]]:
    d = sp.expand(cond.lhs - cond.rhs)
    try:
        co, c0 = linform(d)
    except NonLinear:
        # products: p*q == 0  <=>  p == 0 or q == 0   (the only non-linear tests in the anchors)
        if isinstance(cond, (sp.Eq, sp.Ne)):
            fac = sp.factor(d)
            factors = [f for f in sp.Mul.make_args(fac) if not f.is_number]
            factors = [f.base if f.is_Pow and f.exp.is_positive else f for f in factors]
            if len(factors) > 1 or (factors and factors[0] != d):
                if isinstance(cond, sp.Eq):
                    return dnf(sp.Or(*[sp.Eq(f, 0) for f in factors]))
                return dnf(sp.And(*[sp.Ne(f, 0) for f in factors]))
        raise
    neg = ({s: -v for s, v in co.items()}, -c0)
    if isinstance(cond, sp.Ge):
        return [[Con(co, c0, False)]]
    if isinstance(cond, sp.Gt):
        return [[Con(co, c0, True)]]
    if isinstance(cond, sp.Le):
        return [[Con(*neg, False)]]
    if isinstance(cond, sp.Lt):
        return [[Con(*neg, True)]]
    if isinstance(cond, sp.Eq):
        return [[Con(co, c0, False), Con(*neg, False)]]
    if isinstance(cond, sp.Ne):
        return [[Con(co, c0, True)], [Con(*neg, True)]]
    raise NonLinear(f"relation {cond!r} outside the fragment")


def dnf(cond) -> list[list[Con]]:
    if cond is True or cond is sp.true:
        return [[]]
    if cond is False or cond is sp.false:
        return []
    if isinstance(cond, sp.And):
        out: list[list[Con]] = [[]]
        for a in cond.args:
            da = dnf(a)
            out = [x + y for x in out for y in da]
        return out
    if isinstance(cond, sp.Or):
        return [c for a in cond.args for c in dnf(a)]
    if isinstance(cond, sp.Not):
        return dnf(negate(cond.args[0]))
    if isinstance(cond, Relational):
        return _rel_dnf(cond)
    raise NonLinear(f"condition {cond!r} outside the fragment")


class Facts:
    """a disjunction of conjunctions of linear constraints; infeasible disjuncts pruned"""

    def __init__(self, alts=None):
        self.alts = [[]] if alts is None else alts

    def also(self, cond) -> "Facts":
        d = dnf(abstract_mods(cond))
        return Facts([a for a in (x + y for x in self.alts for y in d) if not infeasible(a)])

    def meet(self, other: "Facts") -> "Facts":
        return Facts([a for a in (x + y for x in self.alts for y in other.alts) if not infeasible(a)])

    def rename(self, mapping: dict) -> "Facts":
        return Facts([[Con({mapping.get(s, s): v for s, v in c.coefs.items()}, c.const, c.strict) for c in a] for a in self.alts])

    @property
    def consistent(self) -> bool:
        return bool(self.alts)

    def entails(self, cond) -> bool:
        return not self.also(negate(abstract_mods(cond))).alts

    def equal(self, a, b) -> bool:
        a, b = sp.sympify(a), sp.sympify(b)
        if a == b:
            return True
        try:
            return self.entails(sp.Eq(a, b))
        except NonLinear:
            return False


def is_zero(expr) -> bool:
    """identity test: decision procedure on rational functions (generators: symbols and
    applications of uninterpreted functions); sympy.simplify only for Mod/floor terms"""
    expr = sp.sympify(expr)
    if expr == 0:
        return True
    e = sp.expand(expr)
    if e == 0:
        return True
    if not e.has(sp.Mod, sp.floor, sp.ceiling, sp.Abs, sp.Piecewise):
        return sp.expand(sp.together(e).as_numer_denom()[0]) == 0
    return sp.simplify(e) == 0


# =============================================================================
# path exploration through the decide callback of fx
# =============================================================================
@dataclass
class Path:
    decisions: list  # [(condition, choice, node)]
    facts: Facts
    outcome: tuple  # ("return", value) | ("raise", exception name)
    aux: dict = field(default_factory=dict)

    def describe(self) -> str:
        return " and ".join(f"{'' if ch else 'not '}({c})" for c, ch, _ in self.decisions) or "always"


def explore(run, base: Facts, limit: int = 400) -> list[Path]:
    """``run(decide, aux)`` interprets the code once; every undetermined branch condition
    is followed both ways (depth first); conditions implied or refuted by the path
    facts are not branched on, so infeasible paths are never produced."""
    paths: list[Path] = []
    stack: list[list[bool]] = [[]]
    while stack:
        prefix = stack.pop()
        st = {"facts": base, "taken": [], "log": []}

        def decide(cond, node, st=st, prefix=prefix):
            if isinstance(cond, bool):
                return cond
            if not isinstance(cond, sp.Basic):
                return None
            try:
                f = st["facts"]
                if f.entails(cond):
                    return True
                if f.entails(negate(cond)):
                    return False
                n = len(st["taken"])
                if n < len(prefix):
                    choice = prefix[n]
                else:
                    choice = True
                    stack.append(st["taken"] + [False])
                st["taken"].append(choice)
                st["facts"] = f.also(cond if choice else negate(cond))
                st["log"].append((cond, choice, node))
                return choice
            except NonLinear as e:
                where = f" at line {node.lineno}: `{ast.unparse(node)[:80]}`" if node is not None and hasattr(node, "lineno") else ""
                raise Unsupported(f"branch condition outside the linear fragment ({e}){where}") from e

        aux: dict = {}
        try:
            out = ("return", run(decide, aux))
        except RaisedInCode as e:
            out = ("raise", e.exc_name)
        paths.append(Path(st["log"], st["facts"], out, aux))
        if len(paths) > limit:
            raise AnalysisError(f"more than {limit} paths")
    return paths


# =============================================================================
# fx work-arounds (see the final report: things fx does not model)
# =============================================================================
class Interp16(Interp):
    """fx interpreter plus the numpy idioms of ``DataFieldBase.insert``: column
    indexing of a nested vector, ``Vec.astype``, ``vec[..., i] %= n``, element-wise
    comparison of vectors, ``np.divmod/flatnonzero/ndindex/choose/all``."""

    def __init__(self, index, **kw):
        super().__init__(index, **kw)
        I = self

        def _all(x, **k):
            items = list(x.items) if isinstance(x, Vec) else [x]
            r = sp.And(*[sp.true if v is True else sp.false if v is False else v for v in items])
            return True if r is sp.true else False if r is sp.false else r

        def _choose(i, choices):
            return Vec([choices[to_py(i[a])].items[a] for a in range(len(i))])

        self.np.update(
            {
                "all": _all,
                "flatnonzero": lambda x: [i for i, v in enumerate(I._iterate(x, None)) if I.truth(v, None)],
                "ndindex": lambda *s: list(itertools.product(*[range(to_py(v)) for v in s])),
                "choose": _choose,
            }
        )

    def getitem(self, base, key, node=None):
        if isinstance(base, Vec):
            k2 = tuple(k for k in key if k is not Ellipsis)
            if len(k2) == 2 and k2[0] is ALL and base.items and all(isinstance(v, Vec) for v in base.items):
                return Vec([self.getitem(v, (k2[1],), node) for v in base.items])
            if len(k2) != len(key):
                return super().getitem(base, k2, node)
        return super().getitem(base, key, node)

    def getattr(self, obj, attr, node=None):
        if isinstance(obj, Vec) and attr == "astype":

            def astype(t=None, **k):
                if t is self.builtins["int"] or t is int:
                    for v in obj.items:
                        if not sp.sympify(v).is_integer:
                            self.fail(node, f"astype(int) of the non-integer term {v}")
                return Vec(list(obj.items))

            return astype
        if isinstance(obj, sp.Basic) and attr == "astype":
            return lambda *a, **k: obj
        if isinstance(obj, SymArray) and attr == "dtype":
            return Model("dtype", {"type": lambda x: x}, strict=False)
        return super().getattr(obj, attr, node)

    def exec_AugAssign(self, st, env):
        t = st.target
        if isinstance(t, ast.Subscript):
            base = self.eval(t.value, env)
            if isinstance(base, Vec):
                key = [k for k in self.eval_index(t.slice, env) if k is not Ellipsis]
                if len(key) != 1 or not isinstance(to_py(key[0]), int):
                    self.fail(st, "augmented store into a vector with a non-constant index")
                i = to_py(key[0])
                base.items[i] = self.binop(st.op, base.items[i], self.eval(st.value, env), st)
                return
        return super().exec_AugAssign(st, env)

    def compare(self, op, a, b, node):
        if isinstance(a, Vec) or isinstance(b, Vec):
            n = len(a) if isinstance(a, Vec) else len(b)
            aa = list(a.items) if isinstance(a, Vec) else (list(a) if isinstance(a, (tuple, list)) else [a] * n)
            bb = list(b.items) if isinstance(b, Vec) else (list(b) if isinstance(b, (tuple, list)) else [b] * n)
            if len(aa) != n or len(bb) != n:
                self.fail(node, "length mismatch in an element-wise comparison")
            return Vec([Interp.compare(self, op, x, y, node) for x, y in zip(aa, bb)])
        return super().compare(op, a, b, node)


def _int(x=0):
    """``int`` of an integer-valued term is the term itself (``divmod(., 1.0)[0]``)"""
    x = to_py(x)
    if isinstance(x, (int, str)):
        return int(x)
    x = sp.sympify(x)
    if x.is_integer:
        return x
    if x.is_number:
        return int(x)
    return sp.Function("int")(x)


# =============================================================================
# models
# =============================================================================
VOL = sp.Function("V")  # V(i, j, ...): volume of the *valid* cell (i, j, ...)
VFLAT = sp.Function("Vflat")
DATA = sp.Function("data")
AMOUNT = sp.Symbol("amount")
FILL = sp.Symbol("fill")
NCOMP = sp.Symbol("ncomp", integer=True, positive=True)


def grid_model(ix, n: int, periodic: list) -> Model:
    g = make_grid_model(ix, "CartesianGrid", n, periodic=list(periodic))
    K_ = IdxArr.K
    # generic (non-uniform) cell volumes: the code must go through cell_volumes[...]
    g._attrs["cell_volume_data"] = tuple(IdxArr(sp.Function(f"vol{a}")(K_), g._attrs["shape"][a]) for a in range(n))
    flat = Model("cell_volumes.flat", {"__getitem__": lambda key: VFLAT(*key)})
    g._attrs["cell_volumes"] = Model("cell_volumes", {"__getitem__": lambda key: VOL(*key), "flat": flat})
    g._attrs["axes"] = list(AX[:n])
    return g


def kds(a: int):
    """(k, d, s): integer part, fractional part and value of the cell coordinate of axis a"""
    return sp.Symbol(f"k{a}", integer=True), sp.Symbol(f"d{a}", real=True), sp.Symbol(f"s{a}", real=True)


def coordinate_facts(ks, ds, ss) -> Facts:
    f = Facts()
    for k, d, s in zip(ks, ds, ss):
        f = f.also(sp.And(sp.Eq(s, k + d), d >= 0, d < 1))
    return f


def slot_symbols(a: int):
    """entries 0..3 of the tuple returned by the axis-data getter of axis a.  Their
    non-negativity on non-sentinel paths is an obligation on get_axis_data."""
    x = AX[a]
    return (
        sp.Symbol(f"c_{x}l", integer=True, nonnegative=True),
        sp.Symbol(f"c_{x}h", integer=True, nonnegative=True),
        sp.Symbol(f"w_{x}l", nonnegative=True),
        sp.Symbol(f"w_{x}h", nonnegative=True),
    )


# =============================================================================
# A.  get_axis_data: branch table of one axis
# =============================================================================
K, D, S = sp.Symbol("k", integer=True), sp.Symbol("d", real=True), sp.Symbol("s", real=True)


@dataclass
class AxisTable:
    axis: int
    periodic: bool
    wg: bool
    cc: bool
    N: object
    paths: list
    divmod_args: list
    ref: str

    @property
    def tag(self) -> str:
        return f"axis{self.axis}:{'periodic' if self.periodic else 'bounded'}:{'ghost' if self.wg else 'valid'}:{'cell' if self.cc else 'grid'}-coords"

    @property
    def g(self) -> int:
        return 1 if self.wg else 0


def axis_table(ix, cfg, axis: int, periodic: bool, wg: bool, cc: bool) -> AxisTable:
    f = ix.func(GRIDS, "make_interpolation_axis_data")
    inner = ix.func(GRIDS, "make_interpolation_axis_data.get_axis_data")
    n = 3
    # the other axes get the opposite periodicity so that a wrong axis index shows
    grid = grid_model(ix, n, [periodic if a == axis else not periodic for a in range(n)])
    N = grid._attrs["shape"][axis]
    h = grid._attrs["discretization"].items[axis]
    lo = grid._attrs["axes_bounds"][axis][0]
    all_args: list = []

    def run(decide, aux):
        def _divmod(a, b):
            all_args.append((sp.simplify(a), sp.sympify(b)))
            return (K, D)

        ov = std_overrides(ix, cfg)
        ov.update({"divmod": _divmod, "int": _int})
        it = Interp16(ix, decide=decide, overrides=ov)
        getter = it.call(it.make_closure(f, it.module_env(f.module)), (), dict(grid=grid, axis=axis, with_ghost_cells=wg, cell_coords=cc))
        if not isinstance(getter, Closure) or getter.node is not inner.node:
            raise AnalysisError(f"{f.ref} no longer returns its nested get_axis_data")
        x = S if cc else lo + h * (S + HALF)
        return it.call(getter, (x,), {})

    base = coordinate_facts([K], [D], [S])
    paths = explore(run, base)
    return AxisTable(axis, periodic, wg, cc, N, paths, all_args, inner.ref)


def _classify_axis_paths(t: AxisTable):
    """kind in {'valid', 'sentinel', 'raise'}; round-off guards are decisions on d alone that
    can only be true within GUARD_MAX of a cell centre"""
    base = coordinate_facts([K], [D], [S])
    for p in t.paths:
        kind, val = p.outcome
        if kind == "raise":
            p.aux["kind"] = "raise"
            continue
        if not (isinstance(val, tuple) and len(val) == 4):
            raise AnalysisError(f"{t.ref}: returns {val!r}, not a 4-tuple (cell, cell, weight, weight)")
        val = tuple(sp.sympify(v) for v in val)
        p.aux["value"] = val
        p.aux["kind"] = "sentinel" if all(not v.free_symbols for v in val) else "valid"
        guards, region = [], []
        for cond, choice, _node in p.decisions:
            is_guard = False
            if cond.free_symbols <= {D}:
                try:
                    is_guard = base.also(cond).entails(sp.Or(D < GUARD_MAX, D > 1 - GUARD_MAX))
                except NonLinear:
                    is_guard = False
            (guards if is_guard else region).append((cond, choice))
        p.aux["guards"] = guards
        p.aux["region"] = tuple((str(c), ch) for c, ch in region)
        # facts of the region *without* the guard decisions: obligations on cells and weights
        # must hold on the whole region, in particular at cell centres (d = 0), which the
        # un-clipped path excludes
        rf = base
        for c, ch in region:
            rf = rf.also(c if ch else negate(c))
        p.aux["region_facts"] = rf
        p.aux["clipped"] = any(ch for _, ch in guards)


def check_axis(rep: Report, t: AxisTable) -> None:
    ref, tag, N, g = t.ref, t.tag, t.N, t.g
    _classify_axis_paths(t)
    rep.saw("axis-data configurations", f"{ref}[{tag}]")

    def bad(rule, role, msg, **kw):
        rep.violation(f"C16.{rule}", f"{ref}::{role}", f"[{tag}] {msg}", **kw)

    # -- the quantity split by divmod is the cell coordinate: centre i -> i, unit 1
    ok = len(t.divmod_args) > 0 and all(is_zero(a - S) and is_zero(b - 1) for a, b in t.divmod_args)
    rep.oblige(f"{tag}:cell-coordinate", ok, [(str(a), str(b)) for a, b in t.divmod_args[:2]])
    if not ok:
        what = f"splits `{t.divmod_args[0][0]}` modulo `{t.divmod_args[0][1]}`" if t.divmod_args else "never calls divmod"
        bad("axis-coordinate", "cell-coordinate", f"{what}; with x = lo + (s+1/2)*dx the split quantity must be the cell coordinate s (centre of cell i at s = i) with unit 1")

    valid = [p for p in t.paths if p.aux["kind"] == "valid"]
    main = [p for p in valid if not p.aux["clipped"]]
    reject = [p for p in t.paths if p.aux["kind"] in ("sentinel", "raise")]
    in_domain = sp.And(S >= -HALF, S <= N - HALF)

    # -- branch table: accepted  <=>  s in [-1/2, N-1/2]  (bounded) / always (periodic)
    if t.periodic:
        ok = not reject
        rep.oblige(f"{tag}:branch-table:never-rejects", ok, [p.describe() for p in reject])
        if not ok:
            bad("axis-partition", "branch-table", f"a periodic axis rejects points: {reject[0].describe()}")
    else:
        for i, p in enumerate(valid):
            ok = p.facts.entails(in_domain)
            rep.oblige(f"{tag}:branch-table:accepted-inside:{i}", ok, p.describe())
            if not ok:
                bad("axis-partition", "branch-table", f"a point outside [-1/2, N-1/2] (cell coordinates) is accepted on the path {p.describe()} -> {p.aux['value']}")
        for i, p in enumerate(reject):
            ok = not p.facts.also(in_domain).consistent
            rep.oblige(f"{tag}:branch-table:no-gap:{i}", ok, p.describe())
            if not ok:
                bad("axis-partition", "branch-table", f"gap: some point with -1/2 <= s <= N-1/2 is rejected on the path {p.describe()}")
        ok = bool(reject)
        rep.oblige(f"{tag}:branch-table:rejects-outside", ok)
        if not ok:
            bad("axis-partition", "branch-table", "no path returns the sentinel although the axis is not periodic")

    # -- sentinel: one concrete tuple whose tested entries cannot be valid indices
    for p in reject:
        if p.aux["kind"] == "sentinel":
            v = p.aux["value"]
            ok = bool(v[0] < 0) and bool(v[1] < 0)
            rep.oblige(f"{tag}:sentinel-negative", ok, str(v))
            if not ok:
                bad("axis-sentinel", "sentinel", f"sentinel tuple {v} is not distinguishable from valid cell indices")
            break

    # -- per accepted region
    for i, p in enumerate(main):
        c0, c1, w0, w1 = p.aux["value"]
        where = " and ".join(f"{'' if ch else 'not '}({c})" for c, ch in p.aux["region"]) or "always"
        facts = p.aux["region_facts"]
        lab = f"{tag}:region{i}"
        ok = is_zero(w0 + w1 - 1)
        rep.oblige(f"{lab}:weights-sum-to-1", ok, f"{w0} + {w1}")
        if not ok:
            bad("axis-weights", "weights", f"weights ({w0}, {w1}) do not sum to 1 on {where}")
        try:
            ok = facts.entails(sp.And(w0 >= 0, w1 >= 0))
        except NonLinear:
            ok = False
        rep.oblige(f"{lab}:weights-nonnegative", ok, f"{w0}, {w1}")
        if not ok:
            bad("axis-weights", "weights", f"weights ({w0}, {w1}) are not provably non-negative on {where}")
        # index range
        size = N + 2 * g
        lo_i, hi_i = (g, N - 1 + g) if t.periodic else (0, size - 1)
        try:
            ok = facts.entails(sp.And(c0 >= lo_i, c0 <= hi_i, c1 >= lo_i, c1 <= hi_i))
        except NonLinear:
            ok = False
        rep.oblige(f"{lab}:index-range", ok, f"cells {c0}, {c1} in [{lo_i}, {hi_i}]")
        if not ok:
            bad("axis-index-range", "index-range", f"cell indices ({c0}, {c1}) are not provably within [{lo_i}, {hi_i}] on {where}")
        # support cells
        v0, v1 = c0 - g, c1 - g  # valid-cell indices
        if t.periodic:
            mods = [m for m in (c0.atoms(sp.Mod) | c1.atoms(sp.Mod))]
            ok = bool(mods) and all(is_zero(m.args[1] - N) for m in mods)
            r0, r1 = strip_mods(v0), strip_mods(v1)
            ok = ok and is_zero(w0 * r0 + w1 * r1 - (K + D)) and is_zero((r1 - r0) ** 2 - 1)
            rep.oblige(f"{lab}:periodic-wrap", ok, f"cells {c0}, {c1} ~ {r0}, {r1} (mod {N})")
            if not ok:
                bad(
                    "axis-periodic-wrap",
                    "periodic-wrap",
                    f"cells ({c0}, {c1}) with weights ({w0}, {w1}) are not the cells floor(s), floor(s)+1 wrapped modulo the axis size{' shifted by one ghost cell' if g else ''} on {where}",
                )
        elif not is_zero(c0 - c1):
            ok = is_zero(w0 * v0 + w1 * v1 - (K + D)) and is_zero((v1 - v0) ** 2 - 1)
            rep.oblige(f"{lab}:linear-between-neighbours", ok, f"{w0}*({v0}) + {w1}*({v1}) == k + d")
            if not ok:
                bad(
                    "axis-interpolant",
                    "support-cells",
                    f"weights ({w0}, {w1}) on {'full-array' if g else 'valid'} cells ({c0}, {c1}) do not reproduce the coordinate: "
                    f"sum w*(c{' - 1' if g else ''}) = {sp.expand(w0 * v0 + w1 * v1)} instead of s = k + d on {where}",
                )
        else:
            # one cell only: allowed outside the hull of the cell centres of a bounded axis
            # without ghost cells, and it must be the cell that contains the point
            try:
                ok = (not t.wg) and facts.entails(sp.Or(S <= 0, S >= N - 1)) and facts.entails(sp.And(v0 - HALF <= S, S <= v0 + HALF, v0 >= 0, v0 <= N - 1))
            except NonLinear:
                ok = False
            rep.oblige(f"{lab}:boundary-strip-nearest-cell", ok, f"cell {c0}")
            if not ok:
                bad("axis-interpolant", "support-cells", f"single support cell {c0} is not the valid cell containing the point (or is used between cell centres / with ghost cells) on {where}")
    rep.floor(f"{tag}: accepted regions", len(main), 1)

    # -- clipped variants: same cells, a weight may be replaced by 0 only if it is tiny
    by_region = {p.aux["region"]: p for p in main}
    for i, p in enumerate(pp for pp in valid if pp.aux["clipped"]):
        m = by_region.get(p.aux["region"])
        ok = m is not None
        detail = ""
        if ok:
            mv, pv = m.aux["value"], p.aux["value"]
            ok = is_zero(mv[0] - pv[0]) and is_zero(mv[1] - pv[1])
            for j in (2, 3):
                if is_zero(mv[j] - pv[j]):
                    continue
                try:
                    ok = ok and pv[j] == 0 and p.facts.entails(sp.And(mv[j] >= 0, mv[j] < GUARD_MAX))
                except NonLinear:
                    ok = False
            detail = f"{mv} -> {pv}"
        rep.oblige(f"{tag}:round-off-guard:{i}", ok, detail or p.describe())
        if not ok:
            bad("axis-clip", "round-off-guard", f"a round-off guard changes the result by more than {GUARD_MAX} or changes cells: {detail} on {p.describe()}")


def sentinel_of(tables: list[AxisTable]):
    vals = {p.aux["value"] for t in tables for p in t.paths if p.aux.get("kind") == "sentinel"}
    return sorted(vals, key=str)


# =============================================================================
# B.  callers of the axis getters, interpreted on slot symbols
# =============================================================================
class AxisStub:
    """stands for ``make_interpolation_axis_data``: records how it is called and returns
    getters yielding either the slot symbols of their axis or the sentinel tuple"""

    def __init__(self, sentinel, outside=None):
        self.sentinel, self.outside = sentinel, outside
        self.calls: list[dict] = []

    def __call__(self, grid=None, axis=None, with_ghost_cells=False, cell_coords=False):
        rec = {"axis": axis, "wg": with_ghost_cells, "cc": cell_coords, "coords": [], "grid": grid}
        self.calls.append(rec)

        def get(coord):
            rec["coords"].append(coord)
            if not isinstance(axis, int) or not 0 <= axis < 3:
                raise AnalysisError(f"axis getter built for axis {axis!r}")
            return self.sentinel if axis == self.outside else slot_symbols(axis)

        return get


def _variant_ref(ix, rel: str, qualname: str, closure) -> str:
    """index name (``name``, ``name#2`` ...) of the nested definition a closure was built from"""
    if not isinstance(closure, Closure):
        raise AnalysisError(f"{rel}::{qualname.rsplit('.', 1)[0]} did not return a function but {closure!r}")
    for f in ix.funcs(rel, qualname):
        if f.node is closure.node:
            return f.ref
    raise AnalysisError(f"{rel}::{qualname}: returned closure `{getattr(closure.node, 'name', '?')}` is not one of the indexed definitions")


def _point(n):
    return [sp.Symbol(f"x{a}", real=True) for a in range(n)]


def _undecided(cond, node):
    raise Unsupported(f"caller branches on `{cond}` (line {getattr(node, 'lineno', '?')}), which the slot model cannot decide")


def run_interpolator(ix, cfg, n, wg, cc, fill, sentinel, outside=None):
    grid = grid_model(ix, n, [False] * n)
    stub = AxisStub(sentinel, outside)
    be = backend_model()
    ov = std_overrides(ix, cfg, be)
    ov.update({"make_interpolation_axis_data": stub, "int": _int})
    it = Interp16(ix, overrides=ov, decide=_undecided)
    f = ix.func(GRIDS, "make_single_interpolator")
    single = it.call(it.make_closure(f, it.module_env(f.module)), (), dict(grid=grid, fill=fill, with_ghost_cells=wg, cell_coords=cc, backend=be))
    ref = _variant_ref(ix, GRIDS, "make_single_interpolator.interpolate_single", single)
    g = 1 if wg else 0
    data = SymArray("data", shape=(NCOMP,) + tuple(N + 2 * g for N in grid._attrs["shape"]))
    try:
        res = ("return", it.call(single, (data, Vec(_point(n))), {}))
    except RaisedInCode as e:
        res = ("raise", e.exc_name)
    return ref, res, stub, grid


def run_inserter(ix, cfg, n, wg, sentinel, outside=None):
    grid = grid_model(ix, n, [False] * n)
    stub = AxisStub(sentinel, outside)
    be = backend_model()
    ov = std_overrides(ix, cfg, be)
    ov.update({"make_interpolation_axis_data": stub, "int": _int})
    it = Interp16(ix, overrides=ov, decide=_undecided)
    f = ix.func(NB, "NumbaBackend.make_inserter")
    ins = it.call(it.make_closure(f, it.module_env(f.module)), (be,), dict(grid=grid, with_ghost_cells=wg))
    ref = _variant_ref(ix, NB, "NumbaBackend.make_inserter.insert", ins)
    g = 1 if wg else 0
    data = SymArray("data", shape=(NCOMP,) + tuple(N + 2 * g for N in grid._attrs["shape"]))
    try:
        res = ("return", it.call(ins, (data, Vec(_point(n)), AMOUNT), {}))
    except RaisedInCode as e:
        res = ("raise", e.exc_name)
    stores = [s for s in it.stores if s.base == "data"]
    return ref, res, stub, grid, stores


def check_wiring(rep, ref, tag, n, wg, cc, stub: AxisStub, grid) -> None:
    """getter a is built for axis a of this grid with the caller's flags and applied to point[a]"""
    problems = []
    axes = sorted(str(c["axis"]) for c in stub.calls)
    if axes != [str(a) for a in range(n)]:
        problems.append(f"axis getters built for axes {axes}, expected one each for 0..{n - 1}")
    for c in stub.calls:
        a = c["axis"]
        if c["grid"] is not grid:
            problems.append(f"getter of axis {a} built for another grid object")
        if bool(c["wg"]) != bool(wg):
            problems.append(f"getter of axis {a} built with with_ghost_cells={c['wg']!r} although the caller was asked for {wg}")
        if bool(c["cc"]) != bool(cc):
            problems.append(f"getter of axis {a} built with cell_coords={c['cc']!r} although the caller was asked for {cc}")
        if isinstance(a, int) and 0 <= a < n:
            want = _point(n)[a]
            if len(c["coords"]) != 1 or not is_zero(sp.sympify(c["coords"][0]) - want):
                problems.append(f"getter of axis {a} applied to {c['coords']} instead of point[{a}]")
    rep.oblige(f"{tag}:axis-wiring", not problems, problems)
    for p in problems:
        rep.violation("C16.axis-wiring", f"{ref}::axis-wiring", f"[{tag}] {p}")


def _corner_label(b) -> str:
    return "".join("lh"[x] for x in b)


def _sum1(n) -> dict:
    return {slot_symbols(a)[3]: 1 - slot_symbols(a)[2] for a in range(n)}


def _spatial(idx, n, ref):
    idx = tuple(idx)
    if len(idx) != n + 1 or idx[0] is not ALL:
        raise AnalysisError(f"{ref}: data indexed with {idx}; expected `...` (all components) followed by {n} cell indices")
    return idx[1:]


def check_interp_terms(rep, ref, tag, n, expr) -> bool:
    expr = sp.sympify(expr)
    sl = [slot_symbols(a) for a in range(n)]
    corners = list(itertools.product((0, 1), repeat=n))
    atom = {b: DATA(ALL, *[sl[a][b[a]] for a in range(n)]) for b in corners}
    weight = {b: sp.Mul(*[sl[a][2 + b[a]] for a in range(n)]) for b in corners}
    expected = sum(weight[b] * atom[b] for b in corners)
    rel = _sum1(n)
    ok = is_zero(sp.expand((expr - expected).subs(rel)))
    rep.oblige(f"{tag}:terms", ok, str(expr)[:400])
    if ok:
        return True
    atoms = {a for a in expr.atoms(AppliedUndef) if a.func == DATA}
    ex = sp.expand(expr)
    msgs = []
    for b in corners:
        if atom[b] not in atoms:
            msgs.append(f"corner {_corner_label(b)}: no term reads data[..., {', '.join(str(s) for s in atom[b].args[1:])}]")
        else:
            co = ex.coeff(atom[b])
            if not is_zero(sp.expand((co - weight[b]).subs(rel))):
                msgs.append(f"corner {_corner_label(b)}: data[..., {', '.join(str(s) for s in atom[b].args[1:])}] is weighted with {co}, expected {weight[b]}")
    for a_ in sorted(atoms - set(atom.values()), key=str):
        msgs.append(f"term reads {a_}, which is not a corner built from one cell slot per axis in axis order")
    rest = ex.subs({a_: 0 for a_ in atoms})
    if not is_zero(rest):
        msgs.append(f"data-independent term {rest}")
    rep.violation(
        "C16.interp-terms",
        f"{ref}::terms",
        f"[{tag}] returned sum is not sum over the {2**n} corners of prod_axis w[slot] * data[..., c[slot]] with the cell and the weight taken from "
        f"matching tuple slots (c_?l<->w_?l, c_?h<->w_?h): " + "; ".join(msgs or [str(ex)[:300]]),
    )
    return False


def check_sentinel_use(rep, ref, tag, a, fill, res, stores=None, inserter=False) -> None:
    """with the sentinel on axis a the caller must raise / return fill before touching data"""
    kind, val = res
    if inserter:
        ok = kind == "raise" and not stores
        want = "raise before any store"
    elif fill is None:
        ok = kind == "raise"
        want = "raise (no fill value)"
    else:
        ok = kind == "return" and isinstance(val, sp.Basic) and val == FILL
        want = "return the fill value"
    rep.oblige(f"{tag}:sentinel:axis{a}:{'fill' if fill is not None else 'nofill'}", ok, f"{kind}: {str(val)[:120]}")
    if not ok:
        got = f"raises {val}" if kind == "raise" else f"returns `{str(val)[:160]}`" + (f" after {len(stores)} store(s)" if stores else "")
        rep.violation(
            "C16.sentinel-checked",
            f"{ref}::sentinel:axis{a}",
            f"[{tag}] when the getter of axis {a} returns the sentinel the caller must {want}, but it {got}: the sentinel is used as a cell index",
        )


def check_insert_terms(rep, ref, tag, n, wg, stores) -> dict | None:
    """stores of the compiled inserter on slot symbols -> {corner: added value}"""
    g = 1 if wg else 0
    sl = [slot_symbols(a) for a in range(n)]
    corners = list(itertools.product((0, 1), repeat=n))
    cell = {b: tuple(sl[a][b[a]] for a in range(n)) for b in corners}
    weight = {b: sp.Mul(*[sl[a][2 + b[a]] for a in range(n)]) for b in corners}
    rel = _sum1(n)
    PHI = sp.Function("phi")
    problems = []
    got = sp.Integer(0)
    for s in stores:
        if s.aug != "+":
            problems.append(f"store to data[{s.idx}] with operator `{s.aug or '='}` instead of `+=`")
        got += sp.sympify(s.value) * PHI(*_spatial(s.idx, n, ref))
    unit = {a_: 1 for a_ in got.atoms(AppliedUndef) if a_.func in (VOL, VFLAT)}
    want_novol = sum(weight[b] * AMOUNT * PHI(*cell[b]) for b in corners)
    ok_terms = not problems and is_zero(sp.expand((got.subs(unit) - want_novol).subs(rel)))
    rep.oblige(f"{tag}:terms", ok_terms, [f"data[{s.idx}] {s.aug or ''}= {s.value}" for s in stores][:8])
    if not ok_terms:
        ex = sp.expand(got.subs(unit))
        for b in corners:
            co = ex.coeff(PHI(*cell[b]))
            if not is_zero(sp.expand((co - weight[b] * AMOUNT).subs(rel))):
                problems.append(f"corner {_corner_label(b)}: cell {cell[b]} receives {co} (ignoring volumes), expected {weight[b]}*amount")
        foreign = {a_ for a_ in ex.atoms(AppliedUndef) if a_.func == PHI} - {PHI(*cell[b]) for b in corners}
        for a_ in sorted(foreign, key=str):
            problems.append(f"store to cell {a_.args}, which is not built from one cell slot per axis in axis order")
        rep.violation(
            "C16.insert-terms",
            f"{ref}::terms",
            f"[{tag}] the stores are not `data[..., corner] += prod_axis w[slot] * amount / volume` for each of the {2**n} corners with cell and weight from matching tuple slots: "
            + "; ".join(problems),
        )
        return None
    # volumes: each store divides by the volume of the valid cell it writes
    want = sum(weight[b] * AMOUNT / VOL(*[c - g for c in cell[b]]) * PHI(*cell[b]) for b in corners)
    ok_vol = is_zero(sp.expand((got - want).subs(rel)))
    integral = sum(sp.sympify(s.value) * VOL(*[c - g for c in _spatial(s.idx, n, ref)]) for s in stores)
    ok_int = is_zero((integral - AMOUNT).subs(rel))
    rep.oblige(f"{tag}:cell-volume-of-written-cell", ok_vol)
    rep.oblige(f"{tag}:integral-grows-by-amount", ok_int, str(integral)[:200])
    if not (ok_vol and ok_int):
        bad = []
        for s in stores:
            vols = [a_ for a_ in sp.sympify(s.value).atoms(AppliedUndef) if a_.func in (VOL, VFLAT)]
            sp_idx = _spatial(s.idx, n, ref)
            exp_v = VOL(*[c - g for c in sp_idx])
            if vols != [exp_v]:
                bad.append(f"data[..., {', '.join(map(str, sp_idx))}] divides by {', '.join(map(str, vols)) or 'no volume'}")
        rep.violation(
            "C16.insert-cell-volume",
            f"{ref}::{'with_ghost_cells' if wg else 'cell-volume'}",
            f"[{tag}] a store does not divide by the volume of the cell it writes "
            f"({'full-array index c is valid cell c-1: expected V(c-1)' if wg else 'expected V(c) of the written cell c'}): "
            + "; ".join(bad[:4])
            + f"; sum over stores of V(cell)*delta = {str(integral)[:240]} instead of amount",
        )
    return {b: (cell[b], sum(sp.sympify(s.value) for s in stores if tuple(_spatial(s.idx, n, ref)) == cell[b])) for b in corners}


def check_callers(rep: Report, ix, cfg, sentinel, tier: str):
    """returns ({(n, wg): interpolant on slot symbols}, {(n, wg): [(cell slots, delta)]})"""
    formulas, inserts, refs = {}, {}, {}
    for n in (1, 2, 3):
        for wg, cc in ((False, False), (True, False), (False, True)):
            tag = f"interpolate/{n}d:{'ghost' if wg else 'valid'}{':cell-coords' if cc else ''}"
            ref, res, stub, grid = run_interpolator(ix, cfg, n, wg, cc, FILL, sentinel)
            rep.saw("callers", f"{ref}[{tag}]")
            check_wiring(rep, ref, tag, n, wg, cc, stub, grid)
            if res[0] != "return" or not isinstance(res[1], sp.Basic):
                raise AnalysisError(f"{ref}: with all axes inside the domain the interpolator gives {res!r}")
            if check_interp_terms(rep, ref, tag, n, res[1]) and not cc:
                formulas[(n, wg)] = res[1]
            refs[("interp", n)] = ref
            if len(rep.samples) < 12 and not cc:
                rep.sample({"construct": ref, "config": tag, "interpolant on tuple slots": str(res[1])})
            if cc:
                continue
            for a in range(n):
                for fill in (FILL, None):
                    _, r2, _, _ = run_interpolator(ix, cfg, n, wg, cc, fill, sentinel, outside=a)
                    check_sentinel_use(rep, ref, tag, a, fill, r2)
        for wg in (False, True):
            tag = f"insert/{n}d:{'ghost' if wg else 'valid'}"
            ref, res, stub, grid, stores = run_inserter(ix, cfg, n, wg, sentinel)
            rep.saw("callers", f"{ref}[{tag}]")
            check_wiring(rep, ref, tag, n, wg, False, stub, grid)
            if res[0] != "return":
                raise AnalysisError(f"{ref}: with all axes inside the domain the inserter raises {res[1]}")
            rep.floor(f"{tag}: stores", len(stores), 2**n)
            eff = check_insert_terms(rep, ref, tag, n, wg, stores)
            if eff is not None:
                inserts[(n, wg)] = eff
            refs[("insert", n)] = ref
            if len(rep.samples) < 16:
                rep.sample({"construct": ref, "config": tag, "stores": [f"data[..., {', '.join(map(str, s.idx[1:]))}] += {s.value}" for s in stores[:4]]})
            for a in range(n):
                _, r2, _, _, st2 = run_inserter(ix, cfg, n, wg, sentinel, outside=a)
                check_sentinel_use(rep, ref, tag, a, None, r2, stores=st2, inserter=True)
    return formulas, inserts, refs


# =============================================================================
# C.  DataFieldBase.insert (interpreted route) and agreement with the compiled inserter
# =============================================================================
def py_insert_paths(ix, cfg, n: int, periodic: list):
    grid = grid_model(ix, n, periodic)
    Ns = grid._attrs["shape"]
    ks, ds, ss = zip(*[kds(a) for a in range(n)])
    lo = [b[0] for b in grid._attrs["axes_bounds"]]
    h = grid._attrs["discretization"].items
    cls = ix.cls(DFB, "DataFieldBase")
    fi = ix.func(DFB, "DataFieldBase.insert")
    divmods: list = []

    def run(decide, aux):
        it = Interp16(ix, decide=decide, overrides={**std_overrides(ix, cfg), "int": _int})

        def _divmod(a, b):
            divmods.append((a, b))
            return (Vec(list(ks)), Vec(list(ds)))

        it.np["divmod"] = _divmod
        data = SymArray("data", shape=(NCOMP,) + tuple(Ns))
        fld = Model("field", {"grid": grid, "data_shape": (NCOMP,), "data": data}, cls=cls)
        point = Vec([lo[a] + h[a] * (ss[a] + HALF) for a in range(n)])
        it.call(it.getattr(fld, "insert"), (point, AMOUNT), {})
        return [s for s in it.stores if s.base == "data"]

    paths = explore(run, coordinate_facts(ks, ds, ss), limit=600)
    return paths, divmods, fi.ref, grid, (ks, ds, ss)


def check_py_insert(rep: Report, ix, cfg, n, periodic):
    tag = f"python-insert/{n}d:" + ",".join("periodic" if p else "bounded" for p in periodic)
    paths, divmods, ref, grid, (ks, ds, ss) = py_insert_paths(ix, cfg, n, periodic)
    rep.saw("python insert configurations", f"{ref}[{tag}]")
    Ns = grid._attrs["shape"]
    ok = bool(divmods) and all(isinstance(a, Vec) and len(a) == n and all(is_zero(sp.sympify(x) - s) for x, s in zip(a.items, ss)) and is_zero(sp.sympify(b) - 1) for a, b in divmods)
    rep.oblige(f"{tag}:cell-coordinate", ok, str(divmods[:1]))
    if not ok:
        rep.violation("C16.axis-coordinate", f"{ref}::cell-coordinate", f"[{tag}] the quantity split by divmod is {divmods[:1]}, not the cell coordinate (point-low)/dx-1/2 with unit 1")
    storing = [p for p in paths if p.outcome[0] == "return"]
    rep.floor(f"{tag}: storing paths", len(storing), 1)
    for i, p in enumerate(storing):
        stores = p.outcome[1]
        problems = []
        integral = sp.Integer(0)
        for s in stores:
            idx = _spatial(s.idx, n, ref)
            if s.aug != "+":
                problems.append(f"store with `{s.aug or '='}` instead of `+=`")
            try:
                inside = p.facts.entails(sp.And(*[sp.And(c >= 0, c <= Ns[a] - 1) for a, c in enumerate(idx)]))
            except NonLinear:
                inside = False
            if not inside:
                problems.append(f"cell {idx} is not provably a valid cell")
            integral += VOL(*idx) * sp.sympify(s.value)
        okc = bool(stores) and is_zero(integral - AMOUNT)
        rep.oblige(f"{tag}:path{i}:valid-cells", not problems, problems)
        rep.oblige(f"{tag}:path{i}:integral-grows-by-amount", okc, f"{len(stores)} stores on {p.describe()}"[:300])
        for m in problems:
            rep.violation("C16.py-insert-cells", f"{ref}::valid-cells", f"[{tag}] {m} on {p.describe()}")
        if not okc:
            rep.violation(
                "C16.py-insert-conserves",
                f"{ref}::conservation",
                f"[{tag}] sum over updated cells of V(cell)*change = {str(sp.factor(sp.together(integral)))[:300]} instead of amount on {p.describe()}: "
                "the cells accumulated into total_weight are not exactly those updated, or a store divides by another cell's volume",
            )
        if len(rep.samples) < 22 and i < 2:
            rep.sample({"construct": ref, "config": tag, "region": p.describe(), "stores": [f"data[..., {', '.join(map(str, s.idx[1:]))}] += {s.value}" for s in stores[:4]]})
    return paths, ref, (ks, ds, ss), Ns


def _grouped(cells, facts: Facts):
    """[(index tuple, value)] -> [(representative index, summed value)], merging index tuples
    that the facts force to be equal; volumes are re-expressed on the representatives"""
    reps: list = []

    def canon(idx):
        idx = tuple(sp.sympify(i) for i in idx)
        for r in reps:
            if len(r) == len(idx) and all(facts.equal(a, b) for a, b in zip(r, idx)):
                return r
        reps.append(idx)
        return idx

    out: dict = {}
    for idx, val in cells:
        r = canon(idx)
        val = sp.sympify(val).replace(lambda e: isinstance(e, AppliedUndef) and e.func == VOL, lambda e: VOL(*canon(e.args)))
        out[r] = out.get(r, 0) + val
    return reps, out


def check_agreement(rep: Report, ix, cfg, n, periodic, tables, inserts, py):
    """cell by cell, on every consistent combination of a python path with one branch of
    get_axis_data per axis"""
    tag = f"agreement/{n}d:" + ",".join("periodic" if p else "bounded" for p in periodic)
    paths, pyref, (ks, ds, ss), Ns = py
    eff = inserts.get((n, False))
    if eff is None:
        rep.note(f"{tag}: skipped, the compiled inserter has no term summary (see C16.insert-terms)")
        return
    per_axis = []
    for a in range(n):
        t = tables[(0, bool(periodic[a]), False, False)]
        ren = {K: ks[a], D: ds[a], S: ss[a], t.N: Ns[a]}
        rows = []
        for p in t.paths:
            if p.aux.get("clipped"):
                continue  # weights below the round-off guard: perturbation bounded in part A
            val = tuple(v.subs(ren, simultaneous=True) for v in p.aux["value"]) if p.aux["kind"] != "raise" else None
            # region facts (guard decisions dropped): the comparison covers cell centres too
            rows.append((p.aux["kind"], val, p.aux.get("region_facts", p.facts).rename(ren), p))
        per_axis.append(rows)
    n_cmp = 0
    for ip, p in enumerate(paths):
        for combo in itertools.product(*per_axis):
            f = p.facts
            for _kind, _val, fa, _ in combo:
                f = f.meet(fa)
                if not f.consistent:
                    break
            if not f.consistent:
                continue
            n_cmp += 1
            nb_raises = any(kind != "valid" for kind, *_ in combo)
            py_raises = p.outcome[0] == "raise"
            region = p.describe() + " | compiled: " + " ; ".join(c[3].describe() for c in combo)
            if nb_raises or py_raises:
                ok = nb_raises and py_raises
                rep.oblige(f"{tag}:py{ip}:{n_cmp}:same-domain", ok, region[:300])
                if not ok:
                    who = "the interpreted `insert` accepts a point that the compiled inserter rejects" if nb_raises else "the interpreted `insert` rejects a point that the compiled inserter accepts"
                    rep.violation("C16.insert-agreement", f"{pyref}::domain", f"[{tag}] {who}; {witness(f, ss, Ns)} (region: {region[:400]})")
                continue
            sub = {}
            for a, (_k, val, _f, _p) in enumerate(combo):
                sub.update(dict(zip(slot_symbols(a), val)))
            nb_cells = [(tuple(sp.sympify(c).subs(sub, simultaneous=True) for c in cell), sp.sympify(v).subs(sub, simultaneous=True)) for cell, v in eff.values()]
            py_cells = [(_spatial(s.idx, n, pyref), s.value) for s in p.outcome[1]]
            reps_, allc = _grouped([(i, v) for i, v in py_cells] + [(i, -v) for i, v in nb_cells], f)
            diffs = {r: v for r, v in allc.items() if not is_zero(v)}
            ok = not diffs
            rep.oblige(f"{tag}:py{ip}:{n_cmp}:same-effect", ok, region[:300])
            if not ok:
                r, v = next(iter(diffs.items()))
                rep.violation(
                    "C16.insert-agreement",
                    f"{pyref}::effect",
                    f"[{tag}] interpreted and compiled insertion differ at cell {r}: python - compiled = {str(sp.factor(sp.together(v)))[:240]}; {witness(f, ss, Ns)} (region: {region[:300]})",
                )
    rep.floor(f"{tag}: compared regions", n_cmp, 3 ** sum(1 for p in periodic if not p))


def witness(f: Facts, ss, Ns) -> str:
    """a concrete point of the region described by the facts (for the message only)"""
    try:
        for N in Ns:
            f2 = f.also(sp.Eq(N, 4))
            if f2.consistent:
                f = f2
        out = []
        for s in ss:
            for q in range(-12, 29):
                v = sp.Rational(q, 4) + sp.Rational(1, 8) * (q % 2)
                f2 = f.also(sp.Eq(s, v))
                if f2.consistent:
                    f = f2
                    out.append(f"{s} = {v}")
                    break
        return ("e.g. axis size 4, cell coordinate " + ", ".join(out)) if len(out) == len(ss) else ""
    except NonLinear:
        return ""


# =============================================================================
# D.  composition: get_axis_data branches substituted into the interpolant
# =============================================================================
ALPHA = sp.Symbol("alpha")


def check_composition(rep: Report, tables, formulas, refs) -> None:
    for (n, wg), expr in sorted(formulas.items(), key=str):
        g = 1 if wg else 0
        ref = refs[("interp", n)]
        betas = [sp.Symbol(f"beta{a}") for a in range(n)]
        for periodic in (False, True):
            t = tables[(0, periodic, wg, False)]
            mains = [p for p in t.paths if p.aux["kind"] == "valid" and not p.aux["clipped"]]
            tag = f"compose/{n}d:{'ghost' if wg else 'valid'}:{'periodic' if periodic else 'bounded'}"
            for ic, combo in enumerate(itertools.product(mains, repeat=n)):
                sub, eff_coord, two_cell, centre, shift = {}, [], True, [], {}
                for a, p in enumerate(combo):
                    k, d, s = kds(a)
                    Na = sp.Symbol(f"N{a}", integer=True, positive=True)
                    ren = {K: k, D: d, S: s, t.N: Na}
                    c0, c1, w0, w1 = (v.subs(ren, simultaneous=True) for v in p.aux["value"])
                    sub.update(dict(zip(slot_symbols(a), (c0, c1, w0, w1))))
                    if is_zero(c0 - c1):
                        two_cell = False
                        eff_coord.append(c0 - g)
                    else:
                        eff_coord.append(k + d)
                    centre.append((sp.Mod(k, Na) if periodic else k) + g)
                    shift[k] = k + Na
                E = expr.subs(sub, simultaneous=True)
                aff = E.replace(
                    lambda e: isinstance(e, AppliedUndef) and e.func == DATA,
                    lambda e: ALPHA + sum(b * strip_mods(i - g) for b, i in zip(betas, e.args[1:])),
                )
                ok = is_zero(aff - (ALPHA + sum(b * c for b, c in zip(betas, eff_coord))))
                rep.oblige(f"{tag}:{ic}:affine-exact", ok, str(E)[:300])
                if not ok:
                    rep.violation(
                        "C16.interp-compose",
                        f"{ref}::affine-exact",
                        f"[{tag}] on data alpha + sum beta_a*cell_a the interpolant gives {sp.expand(aff)} instead of alpha + sum beta_a*{eff_coord} "
                        f"(regions: {' ; '.join(p.describe() for p in combo)[:300]})",
                    )
                one = E.replace(lambda e: isinstance(e, AppliedUndef) and e.func == DATA, lambda e: sp.Integer(1))
                ok = is_zero(one - 1)
                rep.oblige(f"{tag}:{ic}:coefficients-sum-to-1", ok)
                if not ok:
                    rep.violation("C16.interp-compose", f"{ref}::convex", f"[{tag}] coefficients of the data values sum to {sp.expand(one)}, not 1")
                if two_cell:
                    at_centre = E.subs({kds(a)[1]: 0 for a in range(n)})
                    ok = is_zero(at_centre - DATA(ALL, *centre))
                    rep.oblige(f"{tag}:{ic}:exact-at-centres", ok, str(at_centre)[:200])
                    if not ok:
                        rep.violation("C16.interp-compose", f"{ref}::centre-exact", f"[{tag}] at a cell centre (d = 0) the interpolant is {at_centre}, not the value of that cell {DATA(ALL, *centre)}")
                if periodic:
                    ok = is_zero(E.subs(shift, simultaneous=True) - E)
                    rep.oblige(f"{tag}:{ic}:periodic-image", ok)
                    if not ok:
                        rep.violation("C16.interp-compose", f"{ref}::periodic-image", f"[{tag}] shifting the point by one period changes the interpolant: {E}")
                if len(rep.samples) < 30 and ic == 0 and n <= 2:
                    rep.sample({"construct": ref, "config": tag, "region": " ; ".join(p.describe() for p in combo)[:200], "interpolant": str(E)[:400]})


# =============================================================================
# E.  flag plumbing: which array is interpolated, with which flag
# =============================================================================
def check_plumbing(rep: Report, ix, cfg) -> None:
    # -- NumbaBackend.make_interpolator: default array is the full one iff with_ghost_cells
    f = ix.func(NB, "NumbaBackend.make_interpolator")
    inner = ix.func(NB, "NumbaBackend.make_interpolator.interpolator")
    for wg in (False, True):
        for rank in (0, 1):
            n = 2
            grid = grid_model(ix, n, [False] * n)
            seen: dict = {"single": [], "used": []}

            def make_single(grid=None, fill=None, with_ghost_cells=False, cell_coords=False, backend=None, seen=seen):
                seen["single"].append({"grid": grid, "fill": fill, "wg": with_ghost_cells, "cc": cell_coords})

                def single(data, point):
                    seen["used"].append((data, point))
                    return sp.Symbol("value")

                return single

            be = backend_model()
            ov = std_overrides(ix, cfg, be)
            ov.update({"make_single_interpolator": make_single, "make_array_constructor": lambda arr: (lambda: arr)})
            it = Interp16(ix, overrides=ov, decide=_undecided)
            shape_c = (NCOMP,) * rank
            valid = SymArray("data_valid", shape=shape_c + tuple(grid._attrs["shape"]))
            full = SymArray("data_full", shape=shape_c + tuple(N + 2 for N in grid._attrs["shape"]))
            fld = Model("field", {"grid": grid, "data_shape": shape_c, "rank": rank, "data": valid, "_data_full": full}, strict=True)
            interp = it.call(it.make_closure(f, it.module_env(f.module)), (be, fld), dict(fill=FILL, with_ghost_cells=wg))
            if not isinstance(interp, Closure) or interp.node is not inner.node:
                raise AnalysisError(f"{f.ref} no longer returns its nested `interpolator`")
            pt = Vec(_point(n))
            it.call(interp, (pt,), {})
            tag = f"make_interpolator:{'ghost' if wg else 'valid'}:rank{rank}"
            rep.saw("plumbing", f"{f.ref}[{tag}]")
            problems = []
            if len(seen["single"]) != 1:
                problems.append(f"make_single_interpolator called {len(seen['single'])} times")
            else:
                c = seen["single"][0]
                if bool(c["wg"]) != wg:
                    problems.append(f"make_single_interpolator gets with_ghost_cells={c['wg']!r}, requested {wg}")
                if c["grid"] is not grid:
                    problems.append("make_single_interpolator gets another grid than field.grid")
                if c["cc"]:
                    problems.append("make_single_interpolator gets cell_coords=True although points are grid coordinates")
                if not (isinstance(c["fill"], sp.Basic) and c["fill"] == FILL):
                    problems.append(f"fill value passed on as {c['fill']!r}")
            if len(seen["used"]) != 1:
                problems.append(f"single-point interpolator applied {len(seen['used'])} times for one point")
            else:
                data, point = seen["used"][0]
                want = "data_full" if wg else "data_valid"
                if not isinstance(data, SymArray) or data.base != want or data.idx != (full if wg else valid).idx:
                    problems.append(f"default data array is {data!r}; with_ghost_cells={wg} requires {'field._data_full' if wg else 'field.data'}")
                if not (isinstance(point, Vec) and all(is_zero(sp.sympify(a) - b) for a, b in zip(point.items, pt.items))):
                    problems.append(f"interpolates at {point!r} instead of the given point")
            rep.oblige(f"{tag}:array-matches-flag", not problems, problems)
            for p in problems:
                rep.violation("C16.interp-array-flag", f"{inner.ref}::array-matches-flag", f"[{tag}] {p}")

    # -- DataFieldBase.make_interpolator forwards both arguments to the backend
    cls = ix.cls(DFB, "DataFieldBase")
    fm = ix.func(DFB, "DataFieldBase.make_interpolator")
    for wg in (False, True):
        got: list = []
        be = backend_model()
        be._attrs["make_interpolator"] = lambda field=None, fill=None, with_ghost_cells=False, got=got: got.append((field, fill, with_ghost_cells)) or "INTERPOLATOR"
        it = Interp16(ix, overrides=std_overrides(ix, cfg, be), decide=_undecided)
        fld = Model("field", {}, cls=cls)
        res = it.call(it.getattr(fld, "make_interpolator"), (), dict(fill=FILL, with_ghost_cells=wg))
        ok = res == "INTERPOLATOR" and len(got) == 1 and got[0][0] is fld and got[0][1] == FILL and bool(got[0][2]) == wg
        rep.saw("plumbing", f"{fm.ref}[{'ghost' if wg else 'valid'}]")
        rep.oblige(f"DataFieldBase.make_interpolator:{'ghost' if wg else 'valid'}:forwards", ok, str(got))
        if not ok:
            rep.violation("C16.interp-array-flag", f"{fm.ref}::forwarding", f"backend.make_interpolator is called with {got} for fill=fill, with_ghost_cells={wg}")

    # -- DataFieldBase.interpolate: bc given <=> ghost cells are set first and used
    fi = ix.func(DFB, "DataFieldBase.interpolate")
    for with_bc in (False, True):
        log: list = []
        fld = Model(
            "field",
            {
                "set_ghost_cells": lambda bc=None, **kw: log.append(("set_ghost_cells", bc, kw)),
                "make_interpolator": lambda fill=None, with_ghost_cells=False, **kw: log.append(("make_interpolator", fill, with_ghost_cells))
                or (lambda point, *a: log.append(("call", point)) or sp.Symbol("values")),
            },
            cls=cls,
        )
        it = Interp16(ix, overrides=std_overrides(ix, cfg), decide=_undecided)
        BC = sp.Symbol("bc")
        pt = Vec(_point(2))
        res = it.call(it.getattr(fld, "interpolate"), (pt,), dict(bc=BC if with_bc else None, fill=FILL))
        kinds = [e[0] for e in log]
        problems = []
        if with_bc:
            if kinds != ["set_ghost_cells", "make_interpolator", "call"]:
                problems.append(f"sequence of calls {kinds}; expected set_ghost_cells, make_interpolator, call")
            else:
                if log[0][1] != BC:
                    problems.append(f"ghost cells set with {log[0][1]!r} instead of the given bc")
                if log[0][2].get("set_corners") is not True:
                    problems.append("ghost cells set without set_corners=True (corner values enter the multilinear interpolant)")
                if log[1][2] is not True:
                    problems.append("bc given but the interpolator is built with with_ghost_cells=False: the imposed boundary value is never approached")
        else:
            if kinds != ["make_interpolator", "call"]:
                problems.append(f"sequence of calls {kinds}; expected make_interpolator, call")
            elif log[0][2] is not False:
                problems.append("no bc given but the interpolator reads ghost cells (with_ghost_cells=True), which hold stale values")
        mk = [e for e in log if e[0] == "make_interpolator"]
        if mk and mk[0][1] != FILL:
            problems.append(f"fill passed on as {mk[0][1]!r}")
        if res != sp.Symbol("values"):
            problems.append(f"returns {res!r} instead of the interpolated values")
        tag = f"DataFieldBase.interpolate:{'bc' if with_bc else 'no-bc'}"
        rep.saw("plumbing", f"{fi.ref}[{tag}]")
        rep.oblige(f"{tag}:ghost-cells-iff-bc", not problems, problems)
        for p in problems:
            rep.violation("C16.interp-array-flag", f"{fi.ref}::ghost-cells-iff-bc", f"[{tag}] {p}")

    # -- interpolate_to_grid hands bc and fill through (def-use on the call arguments)
    count = 0
    for rel, qn in (("pde/fields/scalar.py", "ScalarField.interpolate_to_grid"), ("pde/fields/vectorial.py", "VectorField.interpolate_to_grid")):
        fg = ix.func(rel, qn)
        params = {a.arg for a in fg.node.args.args + fg.node.args.kwonlyargs}
        rebound = {t.id for st in ast.walk(fg.node) if isinstance(st, (ast.Assign, ast.AugAssign, ast.AnnAssign)) for t in ast.walk(st.targets[0] if isinstance(st, ast.Assign) else st.target) if isinstance(t, ast.Name)}
        for call in ast.walk(fg.node):
            if isinstance(call, ast.Call) and isinstance(call.func, ast.Attribute) and call.func.attr == "interpolate" and isinstance(call.func.value, ast.Name) and call.func.value.id == "self":
                count += 1
                kw = {k.arg: k.value for k in call.keywords if k.arg}
                for name in ("bc", "fill"):
                    ok = name in params and name not in rebound and isinstance(kw.get(name), ast.Name) and kw[name].id == name
                    rep.oblige(f"{qn}:call{count}:{name}-handed-through", ok)
                    if not ok:
                        rep.violation("C16.interp-array-flag", f"{fg.ref}::{name}-handed-through", f"`self.interpolate(...)` does not receive the caller's `{name}` argument unchanged")
        rep.saw("plumbing", fg.ref)
    rep.floor("self.interpolate calls in interpolate_to_grid", count, 3)


# =============================================================================
# driver
# =============================================================================
ARRAY_BUILDERS = {"transpose", "array", "asarray", "stack", "vstack", "hstack", "column_stack", "concatenate", "moveaxis", "swapaxes", "zip", "nonzero", "where", "argwhere"}


def insert_accumulation_scan(rep: Report, ix) -> bool:
    """The support cells of an inserted point need not be distinct (both support points of a periodic axis with one cell
    wrap to the same cell).  `a[idx] += v` with an index *array* is a buffered read-modify-write: repeated entries receive
    only the last contribution (numpy documents this; np.add.at is the accumulating form).  Rule: in DataFieldBase.insert
    every augmented store into the field data addresses one cell (index built from scalars of the loop over the support
    cells); an index that expands a name built by transpose/array/zip/... over the list of cells is a violation."""
    fi = ix.func(DFB, "DataFieldBase.insert")
    defs: dict[str, list[ast.expr]] = {}
    for st in ast.walk(fi.node):
        if isinstance(st, ast.Assign) and len(st.targets) == 1 and isinstance(st.targets[0], ast.Name):
            defs.setdefault(st.targets[0].id, []).append(st.value)

    def multi_cell(e: ast.AST, depth: int = 0) -> str | None:
        for x in ast.walk(e):
            if isinstance(x, ast.Call) and dotted(x.func).split(".")[-1] in ARRAY_BUILDERS:
                return ast.unparse(x)[:60]
            if isinstance(x, ast.Name) and depth < 4:
                for d in defs.get(x.id, []):
                    r = multi_cell(d, depth + 1)
                    if r:
                        return r
        return None

    found = False
    n = 0
    for st in ast.walk(fi.node):
        if isinstance(st, ast.AugAssign) and isinstance(st.target, ast.Subscript):
            base = st.target.value
            if not (isinstance(base, ast.Attribute) and base.attr in ("data", "_data_full", "_data_valid")):
                continue
            n += 1
            why = multi_cell(st.target.slice)
            rep.oblige(f"python-insert: update `{ast.unparse(st.target)[:50]}` addresses one cell per statement execution", why is None, why)
            if why:
                found = True
                rep.violation(
                    "C16.insert-accumulates",
                    f"{fi.ref}::fancy-indexed-update",
                    f"`{ast.unparse(st)[:90]}` updates all support cells through an index array (built by `{why}`): with repeated cells (periodic axis with a single cell: both support "
                    "points wrap to the same cell) a buffered `+=` applies only the last contribution, so less than `amount` is inserted; use one update per cell or np.add.at",
                    line=st.lineno,
                )
    rep.floor("augmented stores into the field data in DataFieldBase.insert", n, 1)
    return found


def check(tier: str) -> Report:
    rep = Report(
        "C16",
        tier,
        "proof",
        "formula extraction (ast -> sympy) of the interpolation/insertion closures, path enumeration of the axis branch table, "
        "sympy identities and Fourier-Motzkin entailments on the extracted terms",
    )
    rep.explanation = (
        "get_axis_data is interpreted for every configuration (axis, periodic, with_ghost_cells, cell_coords) with a symbolic cell coordinate "
        "s = k + d (k integer, 0 <= d < 1 from divmod(., 1.0)); every branch is followed through the decide callback and its path condition kept "
        "as linear constraints. Per accepted region: weights sum to 1 and are >= 0, sum w*(cell - ghost shift) == s between centres, the single "
        "cell of a boundary strip is the cell containing the point, indices lie inside the (padded) array, periodic cells are floor(s), "
        "floor(s)+1 modulo the size; accepted <=> -1/2 <= s <= N-1/2 on bounded axes; round-off guards change weights by < 1e-12. "
        "interpolate_single and the compiled insert (1/2/3 axes each) are interpreted on symbols for the four slots of each axis tuple: the result "
        "must be the sum over 2^n corners of prod w[slot]*data[..., c[slot]] / stores data[..., corner] += prod w * amount / V(valid cell written); "
        "with the sentinel on any axis they must raise / return fill before touching data. DataFieldBase.insert is interpreted per region "
        "(sum V*delta == amount, only valid cells) and compared cell by cell with the compiled inserter composed with the axis branches. "
        "The branch results are substituted into the interpolants (affine exactness, exactness at centres, coefficients sum to 1, periodic image) "
        "and the with_ghost_cells/bc/fill plumbing from DataFieldBase.interpolate down to make_single_interpolator is followed."
    )
    ix = get_index()
    cfg = read_config_defaults(ix)
    thorough = tier == "thorough"

    # A. axis tables
    tables: dict = {}
    configs = [(axis, per, wg, False) for axis in range(3) for per in (False, True) for wg in (False, True)]
    configs += [(1, per, wg, True) for per in (False, True) for wg in (False, True)]
    for axis, per, wg, cc in configs:
        t = axis_table(ix, cfg, axis, per, wg, cc)
        check_axis(rep, t)
        tables[(axis, per, wg, cc)] = t
        if axis == 0 and not cc:
            rep.sample(
                {
                    "construct": t.ref,
                    "config": t.tag,
                    "branch table": [
                        {"when": p.describe()[:240], "returns": str(p.aux.get("value", p.outcome))}
                        for p in t.paths
                        if not p.aux.get("clipped")
                    ],
                }
            )
    rep.floor("axis-data configurations", len(tables), 16)
    sent = sentinel_of(list(tables.values()))
    ok = len(sent) == 1
    ref_axis = ix.func(GRIDS, "make_interpolation_axis_data.get_axis_data").ref
    rep.oblige("sentinel:unique", ok, [str(s) for s in sent])
    if not sent:
        raise AnalysisError(f"{ref_axis}: no path returns a constant (sentinel) tuple in any configuration")
    if not ok:
        rep.violation("C16.axis-sentinel", f"{ref_axis}::sentinel", f"different sentinel tuples are returned: {sent}; callers can test only one")

    # B. callers on slot symbols
    formulas, inserts, refs = check_callers(rep, ix, cfg, sent[0], tier)
    rep.floor("caller variants (interpolate 1/2/3 axes, insert 1/2/3 axes)", len(refs), 6)

    # C. interpreted insert and agreement
    rows = [(1, [False]), (1, [True]), (2, [False, False]), (2, [False, True])]
    if thorough:
        rows += [(2, [True, False]), (2, [True, True])]
    if insert_accumulation_scan(rep, ix):
        rep.note("DataFieldBase.insert is already in violation (multi-cell fancy-indexed update); its interpretation is skipped")
        rows = []
    for n, per in rows:
        py = check_py_insert(rep, ix, cfg, n, per)
        check_agreement(rep, ix, cfg, n, per, tables, inserts, py)

    # D. composition
    check_composition(rep, tables, formulas, refs)

    # E. plumbing
    check_plumbing(rep, ix, cfg)

    rep.trusted += ["pdelint.fx interpreter", "Fourier-Motzkin prover in pdelint/props/c16.py (used for infeasibility only)"]
    rep.assumptions += [
        "real arithmetic: divmod(x, 1.0) yields an integer k and 0 <= d < 1 with x == k + d exactly; points within round-off of a branch boundary are not decided",
        "every axis has at least one cell; grid.cell_volumes[i, j, ...] is the volume of the valid cell (i, j, ...) and data/_data_full have the documented shapes",
        "weights below the round-off guard (literal extracted, must be <= 1e-12) are clipped to 0: weights sum to 1 up to that amount",
        "ghost-cell values used with with_ghost_cells=True are those of the boundary condition (C02); how bc values are approached is their linear interpolation",
        "numba executes the closures with the semantics of the python source (C03 trusted base)",
    ]
    rep.note("the agreement of the two inserters is compared on the un-clipped weights; for 3 axes it follows from the per-axis tables and the verified term structure")
    if thorough:
        from ..alias import thorough_selftest  # shared helper: runs mutants/C16.json on scratch copies

        thorough_selftest(rep)
    return rep

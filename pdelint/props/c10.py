"""C10 -- a PDE's interpreted rate, compiled rate and advertised expression agree.

For every predefined equation class ``evolution_rate`` (field API) and
``make_evolution_rate`` (closure over compiled operators) are interpreted from source
into one term language in which a differential operator with boundary condition is an
uninterpreted *affine* map  Op[name, bc, t](x) = Lin[name, bc](x) + b[name, bc, t];
Lin is distributed over sums and parameter factors.  The two normal forms must be
identical (parameters used, which bc goes to which operator, ``args={"t": t}`` reaching
every operator, field order, and  -L(x) versus L(-x)).  The ``expression(s)`` text is
parsed with a small grammar for the notation the classes print and compared after
dropping boundary terms."""

from __future__ import annotations

import ast
import re

import sympy as sp
from sympy.core.function import AppliedUndef

from ..core import AnalysisError, Report
from ..fx import Closure, Interp, Model, Opaque, RaisedInCode, UFunc, Unsupported, Vec, WholeArr, to_py
from ..index import const_value, dotted, get_index
from ..kernels import read_config_defaults, std_overrides

T = sp.Symbol("t", real=True)
LINEAR_OPS = {"laplace", "gradient", "divergence", "vector_gradient", "vector_laplace", "tensor_divergence"}
NONLINEAR_OPS = {"gradient_squared"}

CLASSES = [
    # (file, class, state kind, parameters, bc attributes)
    ("pde/pdes/diffusion.py", "DiffusionPDE", "scalar", ["diffusivity"], ["bc"]),
    ("pde/pdes/allen_cahn.py", "AllenCahnPDE", "scalar", ["interface_width", "mobility"], ["bc"]),
    ("pde/pdes/cahn_hilliard.py", "CahnHilliardPDE", "scalar", ["interface_width"], ["bc_c", "bc_mu"]),
    ("pde/pdes/kpz_interface.py", "KPZInterfacePDE", "scalar", ["nu", "lmbda"], ["bc"]),
    ("pde/pdes/kuramoto_sivashinsky.py", "KuramotoSivashinskyPDE", "scalar", ["nu"], ["bc", "bc_lap"]),
    ("pde/pdes/swift_hohenberg.py", "SwiftHohenbergPDE", "scalar", ["rate", "kc2", "delta"], ["bc", "bc_lap"]),
    ("pde/pdes/wave.py", "WavePDE", "collection", ["speed"], ["bc"]),
    ("pde/pdes/klein_gordon.py", "KleinGordonPDE", "collection", ["speed", "mass"], ["bc"]),
]


def op_term(opname, bc, args, x, t_expected=T):
    if isinstance(args, dict) and "t" in args:
        tt = sp.sympify(args["t"])
        tflag = "t" if sp.simplify(tt - t_expected) == 0 else f"t={tt}"
    else:
        tflag = "NO-t"
    bcname = bc if isinstance(bc, str) else ("bc?" + str(bc))
    return sp.Function(f"OP|{opname}|{bcname}|{tflag}")(x)


class FieldCtx:
    def __init__(self, it: Interp):
        self.it = it

    def field(self, expr, name="field"):
        it = self.it
        holder = {}

        def method(opname):
            def m(bc=None, *a, label=None, args=None, out=None, **kw):
                return self.field(op_term(opname, bc, args, expr))

            return m

        def binop(op, me, other, reflected):
            o = other._attrs["__expr__"] if isinstance(other, Model) and "__expr__" in other._attrs else it.as_expr(other)
            a, b = (o, expr) if reflected else (expr, o)
            return self.field(it.scalar_binop(op, sp.sympify(a), sp.sympify(b), None))

        attrs = {
            "__expr__": expr,
            "__binop__": binop,
            "__isinstance__": lambda c: True,
            "copy": lambda **k: self.field(expr),
            "label": None,
            "data": expr,
        }
        for opname in LINEAR_OPS | NONLINEAR_OPS:
            attrs[opname] = method(opname)
        attrs["apply_operator"] = lambda operator, bc=None, *a, args=None, **k: self.field(op_term(operator, bc, args, expr))
        m = Model(name, attrs, strict=True)
        return m


# ----------------------------------------------------------------------------
# normal form
# ----------------------------------------------------------------------------
def is_stateful(e, state_syms) -> bool:
    e = sp.sympify(e)
    return bool(e.free_symbols & state_syms) or bool(e.atoms(AppliedUndef))


def normal_form(expr, state_syms):
    """expand affine operators: OP|op|bc|t(x) -> LIN|op|bc(x') + B|op|bc|t"""
    expr = sp.sympify(expr)

    def nf(e):
        e = sp.expand(e)
        if isinstance(e, sp.Add):
            return sp.Add(*[nf(a) for a in e.args])
        if isinstance(e, sp.Mul):
            return sp.expand(sp.Mul(*[nf(a) for a in e.args]))
        if isinstance(e, sp.Pow):
            return sp.expand(sp.Pow(nf(e.base), e.exp))
        if isinstance(e, AppliedUndef):
            name = e.func.__name__
            if name.startswith("OP|"):
                _, op, bc, tflag = name.split("|")
                arg = nf(e.args[0])
                if op in NONLINEAR_OPS:
                    return sp.Function(f"NL|{op}|{bc}|{tflag}")(arg)
                return lin(op, bc, arg) + sp.Symbol(f"B|{op}|{bc}|{tflag}")
            return e.func(*[nf(a) for a in e.args])
        return e

    def lin(op, bc, arg):
        arg = sp.expand(arg)
        terms = arg.args if isinstance(arg, sp.Add) else (arg,)
        tot = sp.Integer(0)
        for term in terms:
            coeff, rest = sp.Integer(1), sp.Integer(1)
            for f in sp.Mul.make_args(term):
                if is_stateful(f, state_syms) or (isinstance(f, sp.Symbol) and f.name.startswith("B|")):
                    rest *= f
                else:
                    coeff *= f
            if rest == 1:
                # the operator applied to a constant field (not representable: keep explicit)
                tot += coeff * sp.Function(f"LIN|{op}|{bc}")(sp.Integer(1))
            else:
                tot += coeff * sp.Function(f"LIN|{op}|{bc}")(rest)
        return tot

    return sp.expand(nf(expr))


def linearise(expr, state_syms):
    """distribute the (linear) operators laplace/gradient/... over sums and parameter factors; L(0) = 0"""
    expr = sp.sympify(expr)

    def rec(e):
        e = sp.expand(e)
        if isinstance(e, AppliedUndef) and e.func.__name__ in LINEAR_OPS:
            arg = sp.expand(rec(e.args[0]))
            tot = sp.Integer(0)
            for term in (arg.args if isinstance(arg, sp.Add) else (arg,)):
                if term == 0:
                    continue
                coeff, rest = sp.Integer(1), sp.Integer(1)
                for f in sp.Mul.make_args(term):
                    if is_stateful(f, state_syms):
                        rest *= f
                    else:
                        coeff *= f
                tot += coeff * e.func(rest)
            return tot
        if e.args:
            return e.func(*[rec(a) for a in e.args])
        return e

    return sp.expand(rec(expr))


def drop_boundary(expr):
    """forget boundary conditions: LIN|op|bc -> op, B -> 0, NL|op|bc|t -> op"""
    expr = sp.sympify(expr)
    repl = {s: 0 for s in expr.free_symbols if s.name.startswith("B|")}
    expr = expr.xreplace(repl)

    def rename(e):
        if isinstance(e, AppliedUndef):
            name = e.func.__name__
            args = [rename(a) for a in e.args]
            if name.startswith("LIN|") or name.startswith("NL|"):
                return sp.Function(name.split("|")[1])(*args)
            return e.func(*args)
        if e.args:
            return e.func(*[rename(a) for a in e.args])
        return e

    return sp.expand(rename(expr))


# ----------------------------------------------------------------------------
# text grammar of the advertised expressions
# ----------------------------------------------------------------------------
SUPERS = {"²": 2, "³": 3, "⁴": 4}
TOKEN = re.compile(r"\s*(∇²|\|∇|\|²|[A-Za-z_][A-Za-z_0-9]*|\d+\.?\d*(?:[eE][-+]?\d+)?|\*\*|[-+*/()]|[²³⁴])")


class TextParser:
    def __init__(self, text: str, names: dict):
        self.toks = []
        pos = 0
        text = text.strip()
        while pos < len(text):
            m = TOKEN.match(text, pos)
            if not m:
                raise Unsupported(f"expression text `{text}`: cannot tokenise at `{text[pos:pos + 10]}`")
            self.toks.append(m.group(1))
            pos = m.end()
        self.i = 0
        self.names = names

    def peek(self):
        return self.toks[self.i] if self.i < len(self.toks) else None

    def take(self, tok=None):
        t = self.peek()
        if tok is not None and t != tok:
            raise Unsupported(f"expression text: expected `{tok}`, found `{t}`")
        self.i += 1
        return t

    def parse(self):
        e = self.expr()
        if self.peek() is not None:
            raise Unsupported(f"expression text: trailing `{self.peek()}`")
        return e

    def expr(self):
        e = self.term()
        while self.peek() in ("+", "-"):
            op = self.take()
            r = self.term()
            e = e + r if op == "+" else e - r
        return e

    def term(self):
        e = self.unary()
        while self.peek() in ("*", "/"):
            op = self.take()
            r = self.unary()
            e = e * r if op == "*" else e / r
        return e

    def unary(self):
        if self.peek() == "-":
            self.take()
            return -self.unary()
        if self.peek() == "+":
            self.take()
            return self.unary()
        return self.power()

    def power(self):
        e = self.atom()
        while self.peek() in SUPERS or self.peek() == "**":
            if self.peek() == "**":
                self.take()
                e = e ** self.unary()
            else:
                e = e ** SUPERS[self.take()]
        return e

    def atom(self):
        t = self.take()
        if t is None:
            raise Unsupported("expression text ends unexpectedly")
        if t == "(":
            e = self.expr()
            self.take(")")
            return e
        if t == "∇²":
            if self.peek() == "(":
                self.take("(")
                e = self.expr()
                self.take(")")
            else:
                e = self.atom()
            return sp.Function("laplace")(e)
        if t == "|∇":
            e = self.atom()
            self.take("|²")
            return sp.Function("gradient_squared")(e)
        if re.match(r"\d", t):
            return sp.nsimplify(t)
        if t in self.names:
            return self.names[t]
        return sp.Symbol(t)


# ----------------------------------------------------------------------------
def run_class(ix, rel, clsname, kind, params, bcs):
    cls = ix.cls(rel, clsname)
    cfg = read_config_defaults(ix)
    psyms = {p: sp.Symbol(p, positive=True) for p in params}
    attrs = dict(psyms)
    for b in bcs:
        attrs[b] = b
    attrs["_logger"] = Model("logger", {k: (lambda *a, **kw: None) for k in ("info", "warning", "debug", "error")})
    pde = Model(f"pde<{clsname}>", attrs, cls=cls)
    out = {"class": clsname, "ref": f"{rel}::{clsname}"}
    # ---------------------------------------------------------------- interpreted
    it = Interp(ix, overrides=std_overrides(ix, cfg), decide=lambda c, n: False)
    ctx = FieldCtx(it)
    if kind == "scalar":
        state_syms = {sp.Symbol("c")}
        state = ctx.field(sp.Symbol("c"), "state")
    else:
        state_syms = {sp.Symbol("u"), sp.Symbol("v")}
        fields = [ctx.field(sp.Symbol("u"), "u"), ctx.field(sp.Symbol("v"), "v")]
        state = Model("state", {"__unpack__": lambda n: list(fields), "__len__": 2, "__isinstance__": lambda c: True, "__iter__": lambda: list(fields), "__getitem__": lambda key: fields[int(key[0])]})
        it.overrides["FieldCollection"] = lambda flds, **k: list(flds)
    try:
        res = it.call(it.getattr(pde, "evolution_rate"), (state, T), {})
    except (Unsupported, RaisedInCode) as e:
        raise AnalysisError(f"{rel}::{clsname}.evolution_rate: {e}") from e
    if kind == "scalar":
        interp = [res._attrs["__expr__"] if isinstance(res, Model) else it.as_expr(res)]
    else:
        interp = [(r._attrs["__expr__"] if isinstance(r, Model) else it.as_expr(r)) for r in res]
    out["interpreted"] = [normal_form(e, state_syms) for e in interp]
    # ---------------------------------------------------------------- compiled
    it2 = Interp(ix, overrides=std_overrides(ix, cfg), decide=lambda c, n: False)

    def make_operator(operator=None, bc=None, **kw):
        opname = operator

        def op(data, out=None, args=None):
            return op_term(opname, bc, args, it2.as_expr(data))

        return op

    grid = Model("grid", {"make_operator": make_operator, "dim": 2})
    state2 = Model("state", {"grid": grid, "dtype": "dtype", "__isinstance__": lambda c: True, "__len__": 2})
    backend = Model("backend", {"name": "numba", "__isinstance__": lambda c: True}, strict=False)
    try:
        rhs = it2.call(it2.getattr(pde, "make_evolution_rate"), (state2, backend), {})
        if kind == "scalar":
            data = WholeArr("c", sp.Symbol("c"))
        else:
            data = Vec([sp.Symbol("u"), sp.Symbol("v")])
        res2 = it2.call(rhs, (data, T), {})
    except (Unsupported, RaisedInCode) as e:
        raise AnalysisError(f"{rel}::{clsname}.make_evolution_rate: {e}") from e
    if kind == "scalar":
        comp = [it2.as_expr(res2)]
    else:
        comp = [it2.as_expr(x) for x in (res2.items if isinstance(res2, Vec) else res2)]
    out["compiled"] = [normal_form(e, state_syms) for e in comp]
    out["rhs_ref"] = rhs.qualname if isinstance(rhs, Closure) else f"{rel}::{clsname}.make_evolution_rate"
    # ---------------------------------------------------------------- advertised text
    it3 = Interp(ix, overrides=std_overrides(ix, cfg), decide=lambda c, n: False)
    orig = it3.eval_JoinedStr

    def joined(node, env):
        parts = []
        for v in node.values:
            if isinstance(v, ast.Constant):
                parts.append(str(v.value))
            else:
                x = it3.eval(v.value, env)
                parts.append(f"({x})" if isinstance(x, sp.Basic) and not x.is_Atom else str(x))
        return "".join(parts)

    it3.eval_JoinedStr = joined
    names = dict(psyms)
    names.update({"c": sp.Symbol("c"), "u": sp.Symbol("u"), "v": sp.Symbol("v")})
    try:
        if kind == "scalar":
            texts = [it3.getattr(pde, "expression")]
        else:
            d = it3.getattr(pde, "expressions")
            texts = [d["u"], d["v"]]
    except (Unsupported, RaisedInCode) as e:
        raise AnalysisError(f"{rel}::{clsname}.expression: {e}") from e
    out["text"] = texts
    out["parsed"] = [sp.expand(TextParser(str(tx), names).parse()) for tx in texts]
    out["state_syms"] = state_syms
    return out


def check_expression_pde(rep: Report, ix):
    """generic expression PDE: boundary-condition wiring and argument order, interpreted from source"""
    rel = "pde/pdes/pde.py"
    cls = ix.cls(rel, "PDE")
    cfg = read_config_defaults(ix)
    logger = Model("logger", {k: (lambda *a, **kw: None) for k in ("info", "warning", "debug", "error")})
    # ---- (1) first matching key wins, in insertion order
    f = ix.func(rel, "PDE._add_operators_to_expr")
    rep.saw("functions", f.ref)
    bcs = {"u:laplace": "A", "u:*": "B", "*:gradient": "C", "*:*": "D"}
    expected = {("u", "laplace"): "A", ("u", "gradient"): "B", ("v", "gradient"): "C", ("v", "laplace"): "D", ("u", "divergence"): "B", ("v", "divergence"): "D"}
    for (var, func), want in expected.items():
        log = []
        it = Interp(ix, overrides=std_overrides(ix, cfg))
        it.overrides["mpi"] = Model("mpi", {"size": 1})
        pde = Model(
            "pde",
            {
                "_operators": {var: [func]},
                "bcs": dict(bcs),
                "diagnostics": {"pde": {"bcs_used": set()}},
                "_logger": logger,
                "_cache": {"numba": {"dtype": "dtype"}},
            },
            cls=cls,
        )
        grid = Model("grid", {"make_operator": lambda fn, bc=None, **k: log.append((fn, bc)) or (lambda *a, **kw: None)})
        state = Model("state", {"grid": grid})
        backend = Model("backend", {"name": "numba", "implementation": "numba"})
        expr = Model("expr", {"_sympy_expr": Model("sympy", {"replace": lambda *a: "replaced"})})
        try:
            it.call(it.getattr(pde, "_add_operators_to_expr"), (var, expr), {"ops": {}, "state": state, "backend": backend})
        except (Unsupported, RaisedInCode) as e:
            raise AnalysisError(f"{f.ref}: {e}") from e
        ok = log == [(func, want)]
        rep.oblige(f"expression-PDE: operator `{func}` in the equation of `{var}` gets the first matching condition", ok, log)
        if not ok:
            rep.violation("C10.bc-lookup-order", f"{f.ref}::lookup::{var}:{func}", f"with conditions {bcs} the operator `{func}` of variable `{var}` is built with {log}; the first matching key in order gives `{want}`")
    # ---- (2) the default condition is appended last
    init = ix.func(rel, "PDE.__init__")
    rep.saw("functions", init.ref)
    node = None
    for n in ast.walk(init.node):
        if isinstance(n, ast.If) and "bc_ops" in ast.unparse(n.test) and "None" in ast.unparse(n.test):
            node = n
            break
    if node is None:
        raise AnalysisError(f"{init.ref}: handling of `bc_ops` not found")
    from ..fx import Env

    it = Interp(ix)
    env = Env(module=init.module)
    env.set("bc", "DEFAULT")
    env.set("bc_ops", {"u:laplace": "A", "v:*": "B"})
    env.set("self", Model("pde", {"_logger": logger}))
    try:
        it.exec(node, env)
        got = list(env.lookup("bcs").items())
    except (Unsupported, RaisedInCode, KeyError) as e:
        raise AnalysisError(f"{init.ref}: {e}") from e
    ok = got == [("u:laplace", "A"), ("v:*", "B"), ("*:*", "DEFAULT")]
    rep.oblige("expression-PDE: the default condition `*:*` is appended after the operator-specific ones", ok, got)
    if not ok:
        rep.violation("C10.bc-lookup-order", f"{init.ref}::bc_ops", f"conditions are ordered {got}; the wildcard default must come last so that specific conditions win")
    # ---- (3) call order equals signature order, t reaches bc_args['t']
    g = ix.func(rel, "PDE._compile_rhs_single")
    rep.saw("functions", g.ref)
    for impl in ("numba", "numpy"):
        it = Interp(ix, overrides=std_overrides(ix, cfg))
        it.overrides["NumbaDict"] = dict
        calls = []
        sig = {}

        def set_vars(v):
            sig["vars"] = tuple(v)

        expr_attrs = {
            "copy": None,
            "depends_on": lambda name: False,
            "vars": ["u", "v", "t"],
            "get_function": lambda **k: (lambda *a: calls.append(a) or sp.Symbol("result")),
        }
        expr = Model("expr", expr_attrs)
        expr._attrs["copy"] = lambda: expr
        pde = Model(
            "pde",
            {"_rhs_expr": {"u": expr}, "variables": ("u", "v"), "_logger": logger, "_add_operators_to_expr": lambda *a, **k: None},
            cls=cls,
        )
        grid = Model("grid", {"axes": ["x", "y"], "num_axes": 2})
        state = Model("state", {"grid": grid})
        backend = Model("backend", {"name": impl, "implementation": impl, "compile_function": lambda fn, **k: fn})
        try:
            rhs = it.call(it.getattr(pde, "_compile_rhs_single"), ("u", {}, state), {"backend": backend})
            U_, V_ = sp.Symbol("U"), sp.Symbol("V")
            it.call(rhs, (U_, V_, T), {})
        except (Unsupported, RaisedInCode) as e:
            raise AnalysisError(f"{g.ref}: {e}") from e
        signature = tuple(expr._attrs["vars"])
        ok = False
        detail = {"signature": signature, "call": [str(x) for x in (calls[0] if calls else ())]}
        if calls and len(calls[0]) == len(signature):
            a = calls[0]
            pos = {name: k for k, name in enumerate(signature)}
            ok = (
                a[pos["u"]] == U_
                and a[pos["v"]] == V_
                and a[pos["t"]] == T
                and a[pos["none"]] is None
                and isinstance(a[pos["bc_args"]], dict)
                and a[pos["bc_args"]].get("t") == T
            )
        rep.oblige(f"expression-PDE ({impl}): rhs is called in signature order and bc_args['t'] is the current time", ok, detail)
        if not ok:
            rep.violation("C10.rhs-call-order", f"{g.ref}.rhs_func::{impl}", f"compiled expression is called with {detail['call']} for signature {signature}; every variable, `t`, `none` and `bc_args` (with bc_args['t'] = t) must be passed at its own position")
        # ---- (3b) coordinates: an axis name in the signature receives the cell coordinates of *that* grid axis
        import itertools as _it

        for axes in (["x", "y"], ["r", "z"], ["x", "y", "z"]):
            for used in [set(c) for r in range(1, len(axes) + 1) for c in _it.combinations(axes, r)]:
                it2 = Interp(ix, overrides=std_overrides(ix, cfg))
                it2.overrides["NumbaDict"] = dict
                calls2 = []
                expr2 = Model(
                    "expr",
                    {
                        "copy": None,
                        "depends_on": lambda name, used=used: name in used,
                        "vars": ["u", "t", *sorted(used)],
                        "get_function": lambda **k: (lambda *a: calls2.append(a) or sp.Symbol("result")),
                    },
                )
                expr2._attrs["copy"] = lambda e=expr2: e
                pde2 = Model("pde", {"_rhs_expr": {"u": expr2}, "variables": ("u",), "_logger": logger, "_add_operators_to_expr": lambda *a, **k: None}, cls=cls)
                coords = Model("cell_coords", {"__getitem__": lambda key: sp.Symbol(f"COORD{to_py([k for k in key if k is not Ellipsis][-1])}")})
                grid2 = Model("grid", {"axes": list(axes), "num_axes": len(axes), "cell_coords": coords})
                backend2 = Model("backend", {"name": impl, "implementation": impl, "compile_function": lambda fn, **k: fn, "numpy_to_native": lambda x: x})
                try:
                    rhs2 = it2.call(it2.getattr(pde2, "_compile_rhs_single"), ("u", {}, Model("state", {"grid": grid2})), {"backend": backend2})
                    it2.call(rhs2, (sp.Symbol("U"), T), {})
                except (Unsupported, RaisedInCode) as e:
                    raise AnalysisError(f"{g.ref} [axes {axes}, used {sorted(used)}]: {e}") from e
                sig2 = tuple(expr2._attrs["vars"])
                bad = None
                if not calls2 or len(calls2[0]) != len(sig2):
                    bad = f"called with {len(calls2[0]) if calls2 else 0} arguments for signature {sig2}"
                else:
                    for k, name in enumerate(sig2):
                        if name in axes and calls2[0][k] != sp.Symbol(f"COORD{axes.index(name)}"):
                            bad = f"the symbol `{name}` (grid axis {axes.index(name)}) receives `{calls2[0][k]}`"
                            break
                    missing = [c for c in used if c not in sig2]
                    if missing and bad is None:
                        bad = f"used coordinates {missing} are not in the signature {sig2}"
                rep.oblige(f"expression-PDE ({impl}): axes {axes}, expression uses {sorted(used)}: each coordinate symbol gets the cell coordinates of its own axis", bad is None, bad)
                if bad:
                    rep.violation(
                        "C10.rhs-call-order",
                        f"{g.ref}::coordinates::{impl}",
                        f"grid axes {axes}, expression depending on {sorted(used)}: {bad} (COORD<i> = cell_coords[..., i]); the compiled rate evaluates the expression at the coordinates of another axis",
                    )



# ----------------------------------------------------------------------------
# evolution_rate leaves its argument alone; expr_prod drops prefactors only when exact
# ----------------------------------------------------------------------------
INPLACE_METHODS = {"set_ghost_cells", "insert", "fill", "sort", "resize", "itemset", "put", "append", "extend"}


def check_rate_purity(rep: Report, ix):
    """`evolution_rate(state, t)` is evaluated repeatedly on one state object.  FieldCollection([...]) re-links the
    field objects it is given to its own data array (copy_fields=False), and in-place operators change data: handing a
    field that belongs to `state` (or `state` itself) to either silently detaches / changes the caller's state, so the
    next evaluation works on stale data and interpreted, compiled and advertised rates drift apart.  Rule: every value
    that reaches a FieldCollection constructor without copy_fields=True, or is the target of an in-place update, must be
    fresh (result of a call such as .copy() / an operator / arithmetic), never `state` or a member of it."""
    n = 0
    for rel, clsname, kind, params, bcs in CLASSES:
        f = ix.func(rel, f"{clsname}.evolution_rate")
        rep.saw("functions", f.ref)
        a = f.node.args.args
        if len(a) < 2:
            raise AnalysisError(f"{f.ref}: signature (self, state, t) expected")
        P = a[1].arg
        members: dict[str, str] = {P: "the state itself"}
        fresh: set[str] = set()
        order = [st for st in ast.walk(f.node) if isinstance(st, (ast.Assign, ast.AugAssign, ast.AnnAssign))]
        order.sort(key=lambda st: (st.lineno, st.col_offset))

        def is_member(e) -> str | None:
            if isinstance(e, ast.Name) and e.id in members and e.id not in fresh:
                return members[e.id]
            if isinstance(e, ast.Subscript) and isinstance(e.value, ast.Name) and e.value.id == P:
                return f"{P}[{ast.unparse(e.slice)}]"
            if isinstance(e, ast.Attribute) and e.attr in ("data", "_data_full", "_data_valid", "fields"):
                return is_member(e.value)
            return None

        for st in order:
            if isinstance(st, ast.Assign) and len(st.targets) == 1:
                t, v = st.targets[0], st.value
                if isinstance(t, (ast.Tuple, ast.List)) and is_member(v):
                    for k, el in enumerate(t.elts):
                        if isinstance(el, ast.Name):
                            members[el.id] = f"member {k} of `{P}`"
                            fresh.discard(el.id)
                elif isinstance(t, ast.Name):
                    m = is_member(v)
                    if m:
                        members[t.id] = m
                        fresh.discard(t.id)
                    else:
                        fresh.add(t.id) if t.id in members else None
                elif isinstance(t, ast.Subscript) or isinstance(t, ast.Attribute):
                    m = is_member(t.value if isinstance(t, ast.Subscript) else t.value)
                    if m:
                        n += 1
                        rep.violation("C10.rate-modifies-state", f"{f.ref}::store", f"`{ast.unparse(st)[:80]}` writes into {m}: evaluating the rate changes the state it is evaluated on", line=st.lineno)
            elif isinstance(st, ast.AugAssign):
                m = is_member(st.target)
                if m:
                    rep.violation("C10.rate-modifies-state", f"{f.ref}::inplace", f"`{ast.unparse(st)[:80]}` updates {m} in place: evaluating the rate changes the state it is evaluated on", line=st.lineno)
        for c in ast.walk(f.node):
            if not isinstance(c, ast.Call):
                continue
            fn = dotted(c.func).split(".")[-1]
            if fn == "FieldCollection":
                n += 1
                copies = any(k.arg == "copy_fields" and isinstance(k.value, ast.Constant) and k.value.value is True for k in c.keywords)
                elems = []
                if c.args:
                    elems = list(c.args[0].elts) if isinstance(c.args[0], (ast.List, ast.Tuple)) else [c.args[0]]
                bad = [(ast.unparse(e), is_member(e)) for e in elems if is_member(e)]
                rep.oblige(f"{clsname}.evolution_rate: fields handed to FieldCollection are fresh", copies or not bad, [ast.unparse(e) for e in elems])
                if bad and not copies:
                    rep.violation(
                        "C10.rate-modifies-state",
                        f"{f.ref}::FieldCollection",
                        f"`{ast.unparse(c)}`: {', '.join(f'`{src}` is {m}' for src, m in bad)}; FieldCollection re-links the fields it receives to its own data array, so after the first "
                        "evaluation the caller's state no longer owns that field and every later evaluation (and the compiled rate) works on different data",
                        line=c.lineno,
                    )
            elif isinstance(c.func, ast.Attribute) and c.func.attr in INPLACE_METHODS and is_member(c.func.value):
                rep.violation("C10.rate-modifies-state", f"{f.ref}::{c.func.attr}", f"`{ast.unparse(c)[:80]}` changes {is_member(c.func.value)} in place", line=c.lineno)
            elif any(k.arg == "out" and is_member(k.value) for k in c.keywords):
                rep.violation("C10.rate-modifies-state", f"{f.ref}::out", f"`{ast.unparse(c)[:80]}` writes its result into a field of the state", line=c.lineno)
    rep.floor("FieldCollection constructions / stores inspected in evolution_rate methods", n, 2)


def check_expr_prod(rep: Report, ix):
    """the advertised text drops or simplifies a prefactor only when that is exact: each special case of expr_prod must be
    guarded by `factor == c` for a constant c and return the text of c*expression"""
    f = ix.func("pde/pdes/base.py", "expr_prod")
    rep.saw("functions", f.ref)
    a = [x.arg for x in f.node.args.args]
    if len(a) != 2:
        raise AnalysisError(f"{f.ref}: signature (factor, expression) expected")
    F, E = a
    body = [st for st in f.node.body if not (isinstance(st, ast.Expr) and isinstance(st.value, ast.Constant))]
    n = 0
    for st in body:
        if isinstance(st, ast.If):
            if st.orelse or len(st.body) != 1 or not isinstance(st.body[0], ast.Return):
                raise AnalysisError(f"{f.ref}: special cases are expected as `if <test>: return <text>`")
            n += 1
            t = st.test
            exact = isinstance(t, ast.Compare) and len(t.ops) == 1 and isinstance(t.ops[0], ast.Eq) and isinstance(t.left, ast.Name) and t.left.id == F and isinstance(const_value(t.comparators[0]), (int, float))
            if not exact:
                rep.oblige(f"expr_prod: special case `{ast.unparse(t)}` is an exact comparison", False)
                rep.violation(
                    "C10.expression-text",
                    f"{f.ref}::special-case::{ast.unparse(st.body[0].value)}",
                    f"expr_prod returns `{ast.unparse(st.body[0].value)}` under `{ast.unparse(t)}`, which does not fix the value of `{F}`: prefactors that merely satisfy the test "
                    "(e.g. a diffusivity of 2.5e-9 under a tolerant comparison with 0) are dropped from or altered in the advertised expression, which then differs from the implemented rate",
                    line=st.lineno,
                )
                continue
            c = const_value(t.comparators[0])
            r = st.body[0].value
            if isinstance(r, ast.Constant) and isinstance(r.value, str):
                text = r.value
            elif isinstance(r, ast.Name) and r.id == E:
                text = "EXPR"
            elif isinstance(r, ast.BinOp) and isinstance(r.op, ast.Add) and isinstance(r.left, ast.Constant) and isinstance(r.right, ast.Name) and r.right.id == E:
                text = str(r.left.value) + "EXPR"
            else:
                raise AnalysisError(f"{f.ref}: returned text `{ast.unparse(r)}` is outside the grammar of the rule")
            X = sp.Symbol("EXPR")
            try:
                val = sp.sympify(text, locals={"EXPR": X})
            except Exception as e:  # noqa: BLE001
                raise AnalysisError(f"{f.ref}: cannot read `{text}`: {e}") from e
            ok = sp.simplify(val - c * X) == 0
            rep.oblige(f"expr_prod: factor == {c} -> `{text}` equals {c}*expression", ok, text)
            if not ok:
                rep.violation("C10.expression-text", f"{f.ref}::special-case::{c}", f"expr_prod returns `{text}` for factor == {c}, which is not {c}*expression", line=st.lineno)
        elif isinstance(st, ast.Return):
            r = st.value
            ok = isinstance(r, ast.JoinedStr) and [type(v).__name__ for v in r.values] == ["FormattedValue", "Constant", "FormattedValue"] and ast.unparse(r.values[0].value) == F and ast.unparse(r.values[2].value) == E and r.values[1].value.strip() == "*"
            rep.oblige("expr_prod: general case prints `factor * expression`", ok, ast.unparse(r))
            if not ok:
                rep.violation("C10.expression-text", f"{f.ref}::general-case", f"expr_prod's general case returns `{ast.unparse(r)}`, expected the product text of factor and expression", line=st.lineno)
        else:
            raise AnalysisError(f"{f.ref}: statement `{type(st).__name__}` is outside the grammar of the rule")
    rep.floor("special cases of expr_prod", n, 3)



def check_operator_tables_per_variable(rep: Report, ix):
    """_add_operators_to_expr fills the operator dictionary it receives with entries chosen by the *variable's* boundary
    conditions (`var:op` lookup) and skips names that are already present; every equation of a multi-field PDE must
    therefore get its own copy of the general table -- with one shared dictionary a later equation silently re-uses the
    operator (and boundary conditions) an earlier equation created, so the compiled rate differs from the interpreted one"""
    f = ix.func("pde/pdes/pde.py", "PDE._prepare_cache")
    rep.saw("functions", f.ref)
    calls = [c for c in ast.walk(f.node) if isinstance(c, ast.Call) and isinstance(c.func, ast.Attribute) and c.func.attr == "_compile_rhs_single"]
    if not calls:
        raise AnalysisError(f"{f.ref}: call of _compile_rhs_single vanished")
    callee = ix.func("pde/pdes/pde.py", "PDE._compile_rhs_single")
    params = [a.arg for a in callee.node.args.args][1:]
    if "ops" not in params:
        raise AnalysisError(f"{callee.ref}: parameter `ops` vanished")
    pos = params.index("ops")
    for k, c in enumerate(calls):
        arg = c.args[pos] if len(c.args) > pos else next((kw.value for kw in c.keywords if kw.arg == "ops"), None)
        fresh = isinstance(arg, ast.Call) and ((isinstance(arg.func, ast.Attribute) and arg.func.attr == "copy") or dotted(arg.func) in ("dict", "copy.copy", "copy.deepcopy")) or (isinstance(arg, ast.Dict))
        rep.oblige(f"PDE._prepare_cache: call {k} hands each variable its own copy of the operator table", bool(fresh), ast.unparse(arg) if arg is not None else None)
        if not fresh:
            rep.violation(
                "C10.shared-operator-table",
                f"{f.ref}::ops",
                f"`{ast.unparse(c)[:90]}` hands the same dictionary `{ast.unparse(arg) if arg is not None else None}` to every variable: operators are entered under their name only and existing names are skipped, "
                "so a later equation uses the operator built with an earlier variable's boundary conditions",
                line=c.lineno,
            )


def check(tier: str) -> Report:
    rep = Report("C10", tier, "proof", "abstract interpretation of evolution_rate / make_evolution_rate into an affine-operator term language; normal-form identity; grammar-based parsing of the advertised expression text")
    rep.explanation = (
        "Both implementations of every predefined equation class are interpreted from source with symbolic parameters; each differential "
        "operator application becomes OP[name, bc attribute, t-passed](x), which the normaliser expands as Lin[name,bc](x) + b[name,bc,t] with "
        "Lin distributed over sums and parameter factors (so -L(x) and L(-x) differ by 2b). The interpreted and the compiled normal forms must be "
        "identical per component; the `expression(s)` text is evaluated from source with symbolic parameters, parsed with a grammar for the "
        "printed notation and compared after dropping boundary terms."
    )
    ix = get_index()
    for rel, clsname, kind, params, bcs in CLASSES:
        r = run_class(ix, rel, clsname, kind, params, bcs)
        rep.saw("equation classes", r["ref"])
        for k, (a, b) in enumerate(zip(r["interpreted"], r["compiled"])):
            d = sp.expand(a - b)
            ok = d == 0
            rep.oblige(f"{clsname}[{k}]: interpreted rate == compiled rate (affine-operator normal form)", ok, {"interpreted": str(a), "compiled": str(b)})
            if not ok:
                rep.violation(
                    "C10.interpreted-vs-compiled",
                    f"{r['rhs_ref']}::component{k}",
                    f"{clsname} component {k}: evolution_rate gives `{a}`, make_evolution_rate gives `{b}`; difference `{d}` "
                    "(B|op|bc|t are the inhomogeneous boundary contributions, NO-t marks an operator that is not given the time)",
                )
        if len(r["interpreted"]) != len(r["compiled"]):
            rep.violation("C10.interpreted-vs-compiled", f"{r['rhs_ref']}::components", f"{clsname}: {len(r['interpreted'])} interpreted vs {len(r['compiled'])} compiled components")
        # every operator receives t
        for which, forms in (("evolution_rate", r["interpreted"]), ("make_evolution_rate", r["compiled"])):
            bad = sorted({s.name for e in forms for s in e.free_symbols if s.name.startswith("B|") and not s.name.endswith("|t")} | {a.func.__name__ for e in forms for a in e.atoms(AppliedUndef) if a.func.__name__.startswith("NL|") and not a.func.__name__.endswith("|t")})
            rep.oblige(f"{clsname}.{which}: every operator is given args={{'t': t}}", not bad, bad)
            if bad:
                rep.violation("C10.t-not-passed", f"{r['ref']}.{which}::args", f"{clsname}.{which}: operators {bad} are not given the current time `t` through `args`")
        # advertised text
        for k, (a, p) in enumerate(zip(r["interpreted"], r["parsed"])):
            da = linearise(drop_boundary(a), r["state_syms"])
            p = linearise(p, r["state_syms"])
            d = sp.expand(da - p)
            ok = d == 0
            rep.oblige(f"{clsname}[{k}]: advertised expression == rate (boundary terms dropped)", ok, {"text": str(r["text"][k]), "parsed": str(p), "rate": str(da)})
            if not ok:
                rep.violation("C10.expression-text", f"{r['ref']}.expression::component{k}", f"{clsname}: expression text `{r['text'][k]}` parses to `{p}` but the implemented rate is `{da}` (difference `{d}`)")
        rep.sample({"class": clsname, "interpreted": [str(x) for x in r["interpreted"]], "text": [str(x) for x in r["text"]]})
    rep.floor("predefined equation classes analysed", len(rep.analysed.get("equation classes", [])), 8)
    check_expression_pde(rep, ix)
    check_rate_purity(rep, ix)
    check_expr_prod(rep, ix)
    check_operator_tables_per_variable(rep, ix)
    rep.assumptions += [
        "operators with boundary conditions are affine maps; Lin depends on (operator, bc), the inhomogeneity on (operator, bc, t)",
        "parameters are generic (not 0, +-1) in the class-by-class comparison; the special cases of expr_prod are decided separately (exact guards, exact texts); `{factor:g}` keeps six significant digits",
        "arbitrary user expressions of the generic PDE class are not decided here (C11 narrow clause); only the bc lookup order and the passing of t",
        "round-off differences between backends are not decided",
    ]
    return rep

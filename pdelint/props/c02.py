"""C02 -- boundary conditions hold exactly at the discrete boundary.

For every local boundary-condition class, side, axis and number of axes the ghost value
written by (a) the interpreted setter ``set_ghost_cells``, (b) the compiled setter built
by ``NumbaBackend._make_local_ghost_cell_setter`` and (c) ``get_virtual_point`` is
extracted as a sympy term over padded-array cells; written/read indices and the
defining equation of the condition are then checked symbolically (shape, spacing and
values are symbols)."""

from __future__ import annotations

import ast
import itertools
import multiprocessing as mp
import os

import sympy as sp
from sympy.core.function import AppliedUndef

from ..core import AnalysisError, Report
from ..fx import ALL, AT, MASKED, RNG, Closure, Interp, Model, Opaque, RaisedInCode, SymArray, UFunc, Unsupported, make_grid_model
from ..index import get_index, const_value
from ..kernels import backend_model, read_config_defaults, std_overrides

LOCAL = "pde/grids/boundaries/local.py"
NB = "pde/backends/numba/backend.py"

V, BETA, GAMMA, T = sp.symbols("v beta gamma t")

GEOMS = [(1, 0), (2, 0), (2, 1), (3, 0), (3, 1), (3, 2)]

# documented alias -> family (taken from the property statement / user documentation)
ALIAS_FAMILY = {
    "value": "dirichlet",
    "dirichlet": "dirichlet",
    "derivative": "neumann",
    "neumann": "neumann",
    "mixed": "mixed",
    "robin": "mixed",
    "curvature": "curvature",
    "second_derivative": "curvature",
    "extrapolate": "curvature",
    "normal_value": "normal:dirichlet",
    "normal_dirichlet": "normal:dirichlet",
    "dirichlet_normal": "normal:dirichlet",
    "normal_derivative": "normal:neumann",
    "normal_neumann": "normal:neumann",
    "neumann_normal": "normal:neumann",
    "normal_mixed": "normal:mixed",
    "normal_robin": "normal:mixed",
    "normal_curvature": "normal:curvature",
    "value_expression": "expr:value",
    "value_expr": "expr:value",
    "derivative_expression": "expr:derivative",
    "derivative_expr": "expr:derivative",
    "mixed_expression": "expr:mixed",
    "mixed_expr": "expr:mixed",
    "robin_expression": "expr:mixed",
    "robin_expr": "expr:mixed",
    "virtual_point": "expr:virtual_point",
    "user": "user",
}


def decide(cond, node):
    """branch conditions on symbolic sizes are decided under N_k >= 2 (every axis has at
    least two cells; the code itself raises otherwise)"""
    if not isinstance(cond, sp.Basic):
        return None
    c = cond
    for s in list(c.free_symbols):
        if s.name.startswith("N") and s.name[1:].isdigit():
            c = c.subs(s, sp.Symbol("M" + s.name[1:], integer=True, nonnegative=True) + 2)
    try:
        c = sp.simplify(c)
    except Exception:  # noqa: BLE001
        return None
    if c is sp.true:
        return True
    if c is sp.false:
        return False
    return None


def _getitem_scalar(expr):
    """value[bc_idx] on a symbolic (per-face) value: remember the index"""

    def f(key):
        key = [k for k in key if k is not Ellipsis and k is not None]
        if not key:
            return expr
        return AT(expr, *[sp.sympify(k) for k in key])

    return f


def grid_for(ix, n_axes):
    g = make_grid_model(ix, "CartesianGrid", n_axes)
    g._attrs["axes"] = ["x", "y", "z"][:n_axes]
    coords = tuple(sp.Symbol(f"bcx{k}", real=True) for k in range(n_axes))

    def cget(key):
        kk = [k for k in key if k is not Ellipsis and k is not None]
        if len(key) == 1 and isinstance(key[0], int):
            return coords[key[0]]
        return tuple(AT(c, *[sp.sympify(k) for k in kk]) if kk else c for c in coords)

    cmodel = Model("boundary-coordinates", {"__getitem__": cget, "__iter__": lambda: list(coords), "__unpack__": lambda n: list(coords)})
    g._attrs["_boundary_coordinates"] = lambda axis=None, upper=None: cmodel
    g._attrs["_bc_coord_syms"] = coords
    # the coordinate system of the model has one more (symmetric) axis than the grid, inserted after the first one -- like
    # (r, phi, z) for the (r, z) axes of cylindrical grids: the boundary machinery works in the order of the *grid* axes, and
    # code that translates an axis into coordinate-system order gets a different index in this model
    g._attrs["c"] = Model("coords", {"_axes_alt_repl": {}, "axes": [g._attrs["axes"][0], "sym", *g._attrs["axes"][1:]], "dim": n_axes + 1})
    return g


def families_of(cls) -> tuple[str, bool]:
    names = [c.name for c in cls.mro()]
    fam = None
    for n, f in (("_PeriodicBC", "periodic"), ("DirichletBC", "dirichlet"), ("NeumannBC", "neumann"), ("MixedBC", "mixed"), ("CurvatureBC", "curvature")):
        if n in names:
            fam = f
            break
    return fam, names


def bc_model(ix, clsname, grid, axis, upper, rank, **attrs) -> Model:
    cls = ix.cls(LOCAL, clsname)
    a = dict(grid=grid, axis=axis, upper=upper, rank=rank, homogeneous=True, value_is_linked=False)
    a.update(attrs)
    m = Model(f"bc<{clsname}>", a, cls=cls)
    return m


class ValueSym:
    """per-face value: a symbol that remembers how it is indexed"""


def value_attrs(fam: str, flip: bool, homogeneous: bool):
    if fam == "periodic":
        return {"flip_sign": flip}
    if fam == "mixed":
        return {"value": GAMMA, "const": BETA}
    return {"value": V}


# ----------------------------------------------------------------------------
# extraction of one ghost-cell store
# ----------------------------------------------------------------------------
def run_route(ix, cfg, route, clsname, n_axes, axis, upper, rank, normal_cls, homogeneous, flip=False, args=None, linked=False):
    grid = grid_for(ix, n_axes)
    cls = ix.cls(LOCAL, clsname)
    fam, _ = families_of(cls)
    attrs = value_attrs(fam, flip, homogeneous)
    attrs["homogeneous"] = homogeneous
    attrs["value_is_linked"] = linked
    bc = bc_model(ix, clsname, grid, axis, upper, rank, **attrs)
    be = backend_model()
    ov = std_overrides(ix, cfg, be)
    if linked:
        ov["_make_value_getter"] = lambda b: (lambda: b._attrs["value"])
    it = Interp(ix, decide=decide, overrides=ov)
    # BCBase.__init__ semantics for `normal`: rank 0 disables it
    normal = bool(it.getattr(bc, "normal")) and rank > 0
    bc._attrs["normal"] = normal
    if not homogeneous:
        # per-face values: indexing is recorded through AT(...)
        it.getitem_scalar_hook = True
    dim = n_axes
    shape = (dim,) * rank + tuple(n + 2 for n in grid._attrs["shape"])
    df = SymArray("data_full", shape=shape)
    if route == "python":
        it.call(it.getattr(bc, "set_ghost_cells"), (df,), {"args": args})
    elif route == "numba":
        f = ix.func(NB, "NumbaBackend._make_local_ghost_cell_setter")
        setter = it.call(it.make_closure(f, it.module_env(f.module)), (be, bc), {})
        it.call(setter, (df,), {"args": args})
    else:
        raise ValueError(route)
    stores = [s for s in it.stores if s.base == "data_full"]
    return grid, bc, normal, stores, it


def classify_axis_index(e, N):
    """name of a padded index along the boundary axis"""
    e = sp.sympify(e)
    for name, val in (("ghost_lo", 0), ("c1", 1), ("c2", 2), ("ghost_hi", N + 1), ("cN", N), ("cN1", N - 1)):
        if sp.simplify(e - val) == 0:
            return name
    return None


def transverse_canon(e, N, loops):
    """'all-valid' if the entry ranges over exactly the valid cells 1..N"""
    e = sp.sympify(e)
    if e.func == RNG:
        lo, hi = e.args
        if sp.simplify(lo - 1) == 0 and sp.simplify(hi - (N + 1)) == 0:
            return "all-valid", None
        return f"range[{lo},{hi})", None
    for lp in loops:
        if sp.simplify(e - (lp.sym + 1)) == 0:
            if sp.simplify(sp.sympify(lp.lo)) == 0 and sp.simplify(sp.sympify(lp.hi) - N) == 0:
                return "all-valid", lp.sym
            return f"loop[{lp.lo},{lp.hi})+1", lp.sym
    return f"fixed({e})", None


def analyse_store(store, grid, axis, upper, rank, normal, n_axes):
    """returns (problems, roles: cell->role, g-expression in role symbols)"""
    problems = []
    Ns = grid._attrs["shape"]
    idx = store.idx
    if len(idx) != rank + n_axes:
        return [f"store index {idx} has {len(idx)} entries, expected {rank + n_axes}"], None
    comps, spat = idx[:rank], idx[rank:]
    want_ghost = "ghost_hi" if upper else "ghost_lo"
    got = classify_axis_index(spat[axis], Ns[axis])
    if got != want_ghost:
        problems.append(f"written index along axis {axis} is `{spat[axis]}` ({got}), expected the {'upper' if upper else 'lower'} virtual point")
    trans_w = {}
    for k in range(n_axes):
        if k == axis:
            continue
        canon, sym = transverse_canon(spat[k], Ns[k], store.loops)
        trans_w[k] = (canon, spat[k])
        if canon != "all-valid":
            problems.append(f"transverse axis {k} of the written index covers `{canon}`, expected all valid cells")
    # component selection
    for k, c in enumerate(comps):
        is_last = k == rank - 1
        if normal and is_last:
            if sp.simplify(sp.sympify(c) - axis) != 0:
                problems.append(f"normal condition writes component `{c}`, expected the normal component {axis}")
        elif c is not ALL:
            problems.append(f"component slot {k} of the written index is `{c}`, expected all components")
    # cells read
    value = sp.sympify(store.value)
    roles = {}
    for cell in value.atoms(AppliedUndef):
        if cell.func.__name__ != "data_full":
            continue
        a = cell.args
        if len(a) != rank + n_axes:
            problems.append(f"read {cell} has wrong number of indices")
            continue
        rc, rs = a[:rank], a[rank:]
        for k in range(rank):
            if sp.simplify(sp.sympify(rc[k]) - sp.sympify(comps[k])) != 0:
                problems.append(f"read {cell}: component `{rc[k]}` differs from the written component `{comps[k]}`")
        for k in range(n_axes):
            if k == axis:
                continue
            if sp.simplify(rs[k] - sp.sympify(spat[k])) != 0:
                problems.append(f"read {cell}: transverse index `{rs[k]}` along axis {k} differs from the written one `{spat[k]}`")
        role = classify_axis_index(rs[axis], Ns[axis])
        if role is None or role.startswith("ghost"):
            problems.append(f"read {cell}: index `{rs[axis]}` along the boundary axis is not a cell next to a boundary")
            continue
        roles[cell] = sp.Symbol(role)
    g = value.xreplace(roles)
    # per-face values: AT(expr, idx...) must be indexed by the transverse position written
    for at in list(g.atoms(AppliedUndef)):
        if at.func == AT:
            inner, *bidx = at.args
            expect = [sp.sympify(spat[k]) - 1 for k in range(n_axes) if k != axis]
            # leading component entries may be present for tensor-valued values
            tail = bidx[len(bidx) - len(expect) :] if len(bidx) >= len(expect) else bidx
            if len(tail) != len(expect) or any(sp.simplify(a - b) != 0 for a, b in zip(tail, expect)):
                problems.append(f"per-face value indexed by `{bidx}`, expected the transverse position {expect} of the written point")
            g = g.xreplace({at: inner})
    return problems, g


def defining_residual(fam, g, upper, h, *, flip=False, finite=True):
    """residual of the defining equation for ghost value g (role symbols c1,c2,cN,cN1)"""
    c1, c2, cN, cN1 = sp.symbols("c1 c2 cN cN1")
    c, cn, opp = (cN, cN1, c1) if upper else (c1, c2, cN)
    # resolve masked(new, mask, old): finite branch keeps `old`, the repair branch `new`
    def unmask(e, fin):
        e = sp.sympify(e)
        while True:
            ms = [m for m in e.atoms(AppliedUndef) if m.func == MASKED]
            if not ms:
                return e
            e = e.xreplace({m: (m.args[2] if fin else m.args[0]) for m in ms})

    g = unmask(g, finite)
    if fam == "dirichlet":
        return (g + c) / 2 - V
    if fam == "neumann":
        return (g - c) / h - V
    if fam == "mixed":
        if finite:
            return (g - c) / h + GAMMA * (g + c) / 2 - BETA
        return g + c  # gamma -> infinity: value 0
    if fam == "curvature":
        return (g - 2 * c + cn) / h**2 - V
    if fam == "periodic":
        return g - (-opp if flip else opp)
    raise ValueError(fam)


def _const_row(job):
    route, clsname, n_axes, axis, upper, rank, homogeneous, flip, linked = job
    ix = get_index()
    cfg = read_config_defaults(ix)
    cls = ix.cls(LOCAL, clsname)
    fam, _ = families_of(cls)
    try:
        grid, bc, normal, stores, it = run_route(ix, cfg, route, clsname, n_axes, axis, upper, rank, None, homogeneous, flip=flip, linked=linked)
    except RaisedInCode as e:
        return {"job": job, "raised": e.exc_name}
    except Unsupported as e:
        return {"job": job, "error": str(e)}
    out = {"job": job, "fam": fam, "normal": normal, "problems": [], "residuals": [], "n_stores": len(stores)}
    if len(stores) != 1:
        out["problems"].append(f"{len(stores)} stores into the data array, expected exactly one (the virtual point)")
        if not stores:
            return out
    st = stores[0]
    out["func"] = st.func
    out["line"] = st.line
    problems, g = analyse_store(st, grid, axis, upper, rank, normal, n_axes)
    out["problems"] += problems
    out["store"] = f"data_full{list(st.idx)} = {st.value}"
    if g is not None:
        h = grid._attrs["discretization"].items[axis]
        res = sp.simplify(defining_residual(fam, g, upper, h, flip=flip, finite=True))
        out["residuals"].append(("defining-equation", str(res)))
        if fam == "mixed":
            res2 = sp.simplify(defining_residual(fam, g, upper, h, finite=False))
            out["residuals"].append(("infinite-gamma-branch", str(res2)))
            # the repair branch must be the limit of the finite branch
            c1, cN = sp.symbols("c1 cN")
            gfin = g
            for m in [m for m in sp.sympify(g).atoms(AppliedUndef) if m.func == MASKED]:
                gfin = gfin.xreplace({m: m.args[2]})
            lim = sp.limit(gfin, GAMMA, sp.oo)
            grep = g
            for m in [m for m in sp.sympify(g).atoms(AppliedUndef) if m.func == MASKED]:
                grep = grep.xreplace({m: m.args[0]})
            out["residuals"].append(("repair-is-limit", str(sp.simplify(lim - grep))))
    return out


# ----------------------------------------------------------------------------
# expression / user boundary conditions
# ----------------------------------------------------------------------------
def make_scalar_expression_override():
    def ScalarExpression(expression, signature=None, user_funcs=None, repl=None, **kw):
        names = list(signature or [])
        local = {n: sp.Symbol(n) for n in names}
        local.update({"Vexpr": sp.Symbol("Vexpr"), "Bexpr": sp.Symbol("Bexpr")})
        expr = sp.parse_expr(str(expression), local_dict=local)

        def call(*args):
            args = [a.cell() if isinstance(a, SymArray) else a for a in args]
            sub = {sp.Symbol(n): a for n, a in zip(names, args)}
            return expr.subs(sub, simultaneous=True)

        return Model(
            "ScalarExpression",
            {
                "__call__": call,
                "depends_on": lambda name: sp.Symbol(name) in expr.free_symbols,
                "get_function": lambda **k: call,
                "expression": expr,
                "signature": names,
            },
        )

    return ScalarExpression


def _expr_row(job):
    route, clsname, n_axes, axis, upper, is_func, with_t = job
    ix = get_index()
    cfg = read_config_defaults(ix)
    grid = grid_for(ix, n_axes)
    cls = ix.cls(LOCAL, clsname)
    be = backend_model()
    ov = std_overrides(ix, cfg, be)
    ov["ScalarExpression"] = make_scalar_expression_override()
    ov["pde.tools.expressions.ScalarExpression"] = ov["ScalarExpression"]
    ov["os"] = Model("os", {"environ": {}})
    ov["number"] = lambda x: x
    ov["pde.tools.misc.number"] = ov["number"]
    ov["numba_dict"] = lambda **k: dict(k)
    it = Interp(ix, decide=decide, overrides=ov)
    it.np["zeros"] = lambda shape, *a, **k: SymArray("zeros", shape=tuple(shape)) if isinstance(shape, (list, tuple)) and shape else sp.Integer(0)
    coords = grid._attrs["_bc_coord_syms"]
    test_values = (sp.Symbol("tv_value"), grid._attrs["discretization"].items[axis], *coords, sp.Integer(0))
    bc = Model(f"bc<{clsname}>", {"_test_values": test_values}, cls=cls)
    if is_func:
        vfun = UFunc("Vfun")
        bfun = UFunc("Bfun")
        value, const = vfun, bfun
    else:
        # compound (top-level sums/differences): the templates must parenthesise what they splice in
        value, const = "va + vb", "ba - bb"
    init = cls.find_method("__init__")
    kwargs = {"value": value}
    if "const" in [a.arg for a in init.node.args.kwonlyargs]:
        kwargs["const"] = const
    try:
        it.call(it.make_closure(init, it.module_env(init.module), bound_self=bc), (grid, axis, upper), kwargs)
        target = bc._attrs["_input"]["target"]
        df = SymArray("data_full", shape=tuple(n + 2 for n in grid._attrs["shape"]))
        args = {"t": T} if with_t else None
        n0 = len(it.stores)
        if route == "python":
            it.call(it.getattr(bc, "set_ghost_cells"), (df,), {"args": args})
        else:
            f = ix.func(NB, "NumbaBackend._make_local_ghost_cell_setter")
            setter = it.call(it.make_closure(f, it.module_env(f.module)), (be, bc), {})
            n0 = len(it.stores)
            it.call(setter, (df,), {"args": args})
    except RaisedInCode as e:
        return {"job": job, "raised": e.exc_name}
    except Unsupported as e:
        return {"job": job, "error": str(e)}
    stores = [s for s in it.stores[n0:] if s.base == "data_full"]
    out = {"job": job, "target": target, "problems": [], "residuals": [], "n_stores": len(stores)}
    if len(stores) != 1:
        out["problems"].append(f"{len(stores)} stores into the data array, expected exactly one")
        if not stores:
            return out
    st = stores[0]
    out["func"] = st.func
    problems, g = analyse_store(st, grid, axis, upper, 0, False, n_axes)
    out["problems"] += problems
    out["store"] = f"data_full{list(st.idx)} = {st.value}"
    if g is None:
        return out
    h = grid._attrs["discretization"].items[axis]
    c = sp.Symbol("cN" if upper else "c1")
    tval = T if with_t else sp.Integer(0)
    if is_func:
        # user callables receive (adjacent value, dx, *boundary coordinates, t)
        fa = [c, h, *coords, tval]
        Vv = sp.Function("Vfun")(*fa)
        Bv = sp.Function("Bfun")(*fa)
        if target in ("virtual_point", "value"):
            # value functions of these targets are called as f(adjacent_value, *args)
            pass
    else:
        Vv, Bv = sp.Symbol("va") + sp.Symbol("vb"), sp.Symbol("ba") - sp.Symbol("bb")
    if target == "value":
        res = (g + c) / 2 - Vv
    elif target == "derivative":
        res = (g - c) / h - Vv
    elif target == "mixed":
        res = (g - c) / h + Vv * (g + c) / 2 - Bv
    elif target == "virtual_point":
        res = g - Vv
    else:
        out["problems"].append(f"unknown target {target}")
        return out
    out["residuals"].append(("defining-equation", str(sp.simplify(res))))
    return out


def _user_row(job):
    route, n_axes, axis, upper, key = job
    ix = get_index()
    cfg = read_config_defaults(ix)
    grid = grid_for(ix, n_axes)
    be = backend_model()
    ov = std_overrides(ix, cfg, be)
    it = Interp(ix, decide=decide, overrides=ov)
    bc = bc_model(ix, "UserBC", grid, axis, upper, 0)
    bc._attrs["normal"] = False
    U = sp.Symbol("uval")
    args = {key: U} if key else None
    df = SymArray("data_full", shape=tuple(n + 2 for n in grid._attrs["shape"]))
    try:
        if route == "python":
            it.call(it.getattr(bc, "set_ghost_cells"), (df,), {"args": args})
        else:
            f = ix.func(NB, "NumbaBackend._make_local_ghost_cell_setter")
            setter = it.call(it.make_closure(f, it.module_env(f.module)), (be, bc), {})
            it.call(setter, (df,), {"args": args})
    except RaisedInCode as e:
        return {"job": job, "raised": e.exc_name}
    except Unsupported as e:
        return {"job": job, "error": str(e)}
    stores = [s for s in it.stores if s.base == "data_full"]
    out = {"job": job, "problems": [], "residuals": [], "n_stores": len(stores)}
    if key is None or key == "other":
        if stores:
            out["problems"].append("user condition without a recognised target writes to the data array")
        return out
    if len(stores) != 1:
        out["problems"].append(f"{len(stores)} stores, expected exactly one")
        if not stores:
            return out
    st = stores[0]
    out["func"] = st.func
    problems, g = analyse_store(st, grid, axis, upper, 0, False, n_axes)
    out["problems"] += problems
    out["store"] = f"data_full{list(st.idx)} = {st.value}"
    if g is None:
        return out
    h = grid._attrs["discretization"].items[axis]
    c = sp.Symbol("cN" if upper else "c1")
    res = {"virtual_point": g - U, "value": (g + c) / 2 - U, "derivative": (g - c) / h - U}[key]
    out["residuals"].append(("defining-equation", str(sp.simplify(res))))
    return out


# ----------------------------------------------------------------------------
# main
# ----------------------------------------------------------------------------

# ----------------------------------------------------------------------------
# copies of boundary conditions keep every constructor parameter
# ----------------------------------------------------------------------------
def check_copy(rep: Report, ix):
    """Conditions supplied as ready-made objects are *copied* into the BoundariesList
    (BCBase.from_data / BoundaryPair.copy / BoundariesList.copy), so the condition that is
    enforced is the copy.  For every concrete boundary-condition class the resolved `copy`
    (following `super().copy(...)`) must rebuild `self.__class__` with every parameter of
    the resolved constructor, each filled from the value the object was constructed with
    (or the override argument of `copy`); a parameter that is only restored conditionally
    after construction is lost."""
    from ..index import dotted, strip_doc
    from ..ispace_lite import HeapFlow, State, deps_of, leaves, unwrap

    base = ix.cls(LOCAL, "BCBase")
    classes = [c for c in ix.subclasses(base, strict=True) if c.module.rel == LOCAL]
    n = 0
    for c in classes:
        T = c.find_method("copy")
        I = c.find_method("__init__")
        if T is None or I is None:
            raise AnalysisError(f"{c.ref}: copy/__init__ not resolvable")
        body = strip_doc(T.node.body)
        if T.cls is base:
            if not any(isinstance(st, ast.Raise) for st in body):
                raise AnalysisError(f"{T.ref}: base implementation no longer raises")
            continue
        # follow super().copy(...) to the method that constructs
        chain = [T]
        cur = T
        ctor_call = None
        post_sets: dict[str, bool] = {}  # attribute -> assigned unconditionally on the result after construction
        override_args: dict[str, str] = {}  # constructor parameter -> name of the copy() argument that may override it
        for _ in range(6):
            ctor = [
                x
                for x in ast.walk(cur.node)
                if isinstance(x, ast.Call)
                and (
                    (isinstance(x.func, ast.Attribute) and x.func.attr == "__class__" and dotted(x.func.value) == "self")
                    or (isinstance(x.func, ast.Call) and dotted(x.func.func) == "type" and len(x.func.args) == 1 and dotted(x.func.args[0]) == "self")
                )
            ]
            # names bound to the object under construction in this method
            objs = set()
            for st in strip_doc(cur.node.body):
                if isinstance(st, ast.Assign) and len(st.targets) == 1 and isinstance(st.targets[0], ast.Name) and isinstance(st.value, ast.Call):
                    f_ = st.value.func
                    if st.value in ctor or (isinstance(f_, ast.Attribute) and f_.attr == "copy" and isinstance(f_.value, ast.Call) and dotted(f_.value.func) == "super"):
                        objs.add(st.targets[0].id)
            for st in strip_doc(cur.node.body):  # top level only: unconditional
                if isinstance(st, ast.Assign) and len(st.targets) == 1 and isinstance(st.targets[0], ast.Attribute) and isinstance(st.targets[0].value, ast.Name) and st.targets[0].value.id in objs:
                    post_sets[st.targets[0].attr] = True
            if len(ctor) == 1:
                ctor_call = ctor[0]
                break
            if len(ctor) > 1:
                raise AnalysisError(f"{cur.ref}: several `self.__class__(...)` calls")
            sup = [x for x in ast.walk(cur.node) if isinstance(x, ast.Call) and isinstance(x.func, ast.Attribute) and x.func.attr == "copy" and isinstance(x.func.value, ast.Call) and dotted(x.func.value.func) == "super"]
            if len(sup) != 1:
                raise AnalysisError(f"{cur.ref}: `copy` neither constructs `self.__class__(...)` nor delegates to `super().copy(...)`")
            mro = c.mro()
            nxt = None
            for k in mro[mro.index(cur.cls) + 1 :]:
                if "copy" in k.methods:
                    nxt = k.methods["copy"][0]
                    break
            if nxt is None:
                raise AnalysisError(f"{cur.ref}: super().copy not resolvable")
            chain.append(nxt)
            cur = nxt
        if ctor_call is None:
            raise AnalysisError(f"{T.ref}: constructor call of the copy not found")
        n += 1
        rep.saw("copy triples", f"{c.name}: {' -> '.join(f.qualname for f in chain)} -> {I.qualname}")
        a = I.node.args
        pos = [p.arg for p in a.posonlyargs + a.args][1:]
        allp = pos + [p.arg for p in a.kwonlyargs]
        if a.vararg or a.kwarg or any(isinstance(x, ast.Starred) for x in ctor_call.args) or any(k.arg is None for k in ctor_call.keywords):
            raise AnalysisError(f"{T.ref}/{I.ref}: star arguments are outside the grammar of the rule")
        passed: dict[str, ast.expr] = dict(zip(pos, ctor_call.args))
        passed.update({k.arg: k.value for k in ctor_call.keywords})
        hf = HeapFlow(ix, c, ())
        st0, _ = hf.run_init()
        # which attribute does each constructor parameter fill (for post-construction assignments)
        fills: dict[str, set] = {}
        for attr, v in st0.heap.items():
            d = {x[2:] for x in deps_of(unwrap(v)) | frozenset().union(*[deps_of(l) for _, l in leaves(v)] or [frozenset()]) if x.startswith("p:")}
            for p_ in d:
                fills.setdefault(p_, set()).add(attr.lstrip("_"))
        extra = [k for k in passed if k not in allp]
        missing = [p_ for p_ in allp if p_ not in passed and not any(post_sets.get(at) or post_sets.get("_" + at) for at in fills.get(p_, {p_}))]
        rep.oblige(f"copy:{c.name}:every constructor parameter is carried over", not extra and not missing, {"passed": sorted(passed), "constructor": allp, "set afterwards": sorted(post_sets)})
        for k in extra:
            rep.violation("C02.copy-keeps-parameters", f"{T.ref}::{c.name}/extra={k}", f"`copy` of {c.name} (defined in {cur.cls.name}) passes `{k}=` to `self.__class__`, but {I.ref} has no such parameter: copying this condition raises TypeError", line=ctor_call.lineno)
        for p_ in missing:
            rep.violation(
                "C02.copy-keeps-parameters",
                f"{T.ref}::{c.name}/missing={p_}",
                f"`copy` of {c.name} rebuilds the condition through {cur.ref} without `{p_}` (parameter of {I.ref}) and does not restore it unconditionally afterwards: "
                f"a condition handed over as an object (it is copied into the BoundariesList) silently gets the default `{p_}`, so another equation is enforced at the boundary",
                line=ctor_call.lineno,
            )
        copy_params = {p.arg for f_ in chain for p in f_.node.args.args + f_.node.args.kwonlyargs}
        for p_, e in passed.items():
            if p_ in extra:
                continue
            # `self.x if x is None else x`: the stored value unless the caller overrides it
            if isinstance(e, ast.IfExp) and isinstance(e.test, ast.Compare) and isinstance(e.test.left, ast.Name) and e.test.left.id in copy_params and isinstance(e.orelse, ast.Name) and e.orelse.id == e.test.left.id:
                e = e.body
            v = hf.ev(e, State({}, st0.heap), 0)
            d = {x[2:] for x in deps_of(unwrap(v)) | frozenset().union(*[deps_of(l) for _, l in leaves(v)] or [frozenset()]) if x.startswith("p:")}
            ok = d == {p_}
            rep.oblige(f"copy:{c.name}:{p_}<-same-parameter", ok, f"{ast.unparse(e)} <- parameters {sorted(d)}")
            if not ok:
                rep.violation("C02.copy-keeps-parameters", f"{T.ref}::{c.name}/param={p_}", f"`copy` of {c.name} fills `{p_}` with `{ast.unparse(e)}` (from constructor parameters {sorted(d)}), which is not the value the condition was constructed with", line=ctor_call.lineno)
    rep.floor("(class, copy, __init__) triples analysed", n, 15)



def check_axis_spellings(rep: Report, ix):
    """get_boundary_axis interpreted (pdelint/npsem.py) on every documented spelling of periodic / anti-periodic axis
    conditions: plain string, pair of equal strings, dictionary {"type": ...}, auto_periodic_* on a periodic axis: the
    result is a BoundaryPeriodic whose flip_sign is set exactly for the anti-periodic spellings (ghost = -opposite cell)"""
    from .. import npsem as ns

    f = ix.func(AXIS_FILE, "get_boundary_axis")
    rep.saw("parsing functions", f.ref)
    m = f.module
    made = []

    def periodic_axis(grid, axis, rank=0, flip_sign=False, **kw):
        st = ns.Stub("BoundaryPeriodic", periodic=True, flip_sign=flip_sign, axis=axis, rank=rank, __kind__=("BoundaryPeriodic", "BoundaryAxisBase"))
        made.append(st)
        return st

    pair = ns.Stub("BoundaryPair", from_data=lambda grid, axis, data, rank=0: ns.Stub("pair", periodic=False, axis=axis, __kind__=("BoundaryPair", "BoundaryAxisBase")))
    base_vars = {n: ns.Opaque(n) for n in list(m.imports) + list(m.functions) + list(m.classes) + list(m.assigns) if "." not in n}
    base_vars.update(
        {
            "collections": ns.Stub("collections", abc=ns.Stub("abc", Sequence=ns.KindRef("Sequence"), Mapping=ns.KindRef("Mapping"))),
            "BoundaryPeriodic": ns.KindRef("BoundaryPeriodic", ("BoundaryAxisBase",), periodic_axis),
            "BoundaryPair": pair,
            "BoundaryAxisBase": ns.KindRef("BoundaryAxisBase"),
        }
    )
    cases = [
        ("periodic", False),
        ("anti-periodic", True),
        ({"type": "periodic"}, False),
        ({"type": "anti-periodic"}, True),
        (("periodic", "periodic"), False),
        (("anti-periodic", "anti-periodic"), True),
        (["anti-periodic", "anti-periodic"], True),
        ("auto_periodic_neumann", False),
        ("auto_periodic_dirichlet", False),
    ]
    for data, flip in cases:
        grid = ns.Stub("grid", periodic=[True], axes=["x"], num_axes=1, __kind__=("GridBase",))
        sem = ns.NpSem(where=f.ref)
        tag = f"axis-spelling:{data!r}"
        try:
            res = sem.run_function(f.node, {}, (grid, 0, data), {"rank": 0}, outer=ns.Scope(base_vars))
        except ns.Raised as e:
            rep.oblige(tag, False, e.what)
            rep.violation("C02.spec-parsing", f"{f.ref}::{data!r}", f"get_boundary_axis raises `{e.what}` for the axis condition {data!r} on a periodic axis")
            continue
        except ns.Unsupported as e:
            raise AnalysisError(f"{f.ref} on {data!r}: {e}") from e
        ok = isinstance(res, ns.Stub) and res._attrs.get("__kind__", ("",))[0] == "BoundaryPeriodic" and bool(res._attrs.get("flip_sign")) == flip
        rep.oblige(tag + f" -> BoundaryPeriodic(flip_sign={flip})", ok, repr(res) + (f" flip_sign={res._attrs.get('flip_sign')}" if isinstance(res, ns.Stub) else ""))
        if not ok:
            got = f"flip_sign={res._attrs.get('flip_sign')}" if isinstance(res, ns.Stub) else repr(res)
            rep.violation(
                "C02.spec-parsing",
                f"{f.ref}::{'anti-periodic' if flip else 'periodic'}-spelling",
                f"the axis condition {data!r} gives {res!r} with {got}; documented: a periodic axis condition with flip_sign={flip} (virtual point = {'-' if flip else '+'} opposite cell)",
                line=f.node.lineno,
            )
    rep.floor("spellings of (anti-)periodic axis conditions", len(cases), 9)



def check_boundary_coordinates(rep: Report, ix):
    """Expression boundary conditions are evaluated at the coordinates GridBase._boundary_coordinates returns (both the
    interpreted and the compiled route use it, so comparing the routes cannot show an error there).  The function is
    interpreted (pdelint/npsem.py) on grids with 1-3 axes of pairwise different sizes: entry [j..., k] of the result must
    be the k-th coordinate of the boundary point of face cell j... -- the bound of the axis (shifted by the offset) for the
    normal axis, the cell centre x_k[j_k] for the others, with the face cells in the order of the remaining grid axes."""
    import itertools as _it

    import numpy as _np

    from .. import npsem as ns

    f = ix.func("pde/grids/base.py", "GridBase._boundary_coordinates")
    rep.saw("functions", f.ref)
    m = f.module
    scope_vars = {n: ns.Opaque(n) for n in list(m.imports) + list(m.functions) + list(m.classes) + list(m.assigns) if "." not in n}
    scope_vars["np"] = ns.NP
    sizes = (2, 3, 4)
    off = sp.Symbol("offset", real=True)
    n = 0
    for n_axes in (1, 2, 3):
        shape = sizes[:n_axes]
        coords = tuple(ns.sym_array(f"x{k}", (shape[k],), real=True) for k in range(n_axes))
        bounds = tuple((sp.Symbol(f"lo{k}", real=True), sp.Symbol(f"hi{k}", real=True)) for k in range(n_axes))
        for axis in range(n_axes):
            for upper in (False, True):
                grid = ns.Stub("grid", _axes_bounds=bounds, axes_bounds=bounds, _axes_coords=coords, axes_coords=coords, num_axes=n_axes, shape=shape, __kind__=("GridBase",))
                sem = ns.NpSem(where=f.ref)
                tag = f"boundary-coordinates:{n_axes}-axes:axis{axis}:{'upper' if upper else 'lower'}"
                try:
                    res = sem.run_function(f.node, {}, (grid, axis, upper), {"offset": off}, outer=ns.Scope(scope_vars))
                except ns.Raised as e:
                    rep.oblige(tag, False, e.what)
                    rep.violation("C02.boundary-coordinates", f"{f.ref}::raises", f"{tag}: raises `{e.what}`")
                    continue
                except ns.Unsupported as e:
                    raise AnalysisError(f"{f.ref} [{tag}]: {e}") from e
                n += 1
                others = [k for k in range(n_axes) if k != axis]
                want = _np.empty(tuple(shape[k] for k in others) + (n_axes,), dtype=object)
                for j in _it.product(*[range(shape[k]) for k in others]):
                    for k in range(n_axes):
                        if k == axis:
                            want[j + (k,)] = bounds[k][1] - off if upper else bounds[k][0] + off
                        else:
                            want[j + (k,)] = coords[k][j[others.index(k)]]
                diff = ns.arrays_equal(res, want)
                rep.oblige(tag + ": coordinates of the face cells in grid-axis order", not diff, None if not diff else str(diff[0])[:160])
                if diff:
                    what = f"shape {diff[0][1]} instead of {diff[0][2]}" if diff[0][0] == "shape" else f"entry {tuple(diff[0][0])} is `{diff[0][1]}`, expected `{diff[0][2]}`"
                    rep.violation(
                        "C02.boundary-coordinates",
                        f"{f.ref}::{n_axes}-axes::axis{axis}",
                        f"{tag}: {what} (x<k>_<j> = centre j of axis k): boundary conditions given as expressions of the coordinates are imposed with the coordinates of another face cell",
                        line=f.node.lineno,
                    )
    rep.floor("boundary-coordinate cases (axes x side)", n, 12)


def check(tier: str) -> Report:
    rep = Report("C02", tier, "proof", "ast->sympy extraction of ghost-cell formulas (interpreted and compiled setters) checked against the defining equations; index tables on symbolic shapes")
    rep.explanation = (
        "Each boundary-condition class is instantiated as a symbolic model (grid with symbolic shape/spacing, value symbols); "
        "ConstBC*.set_ghost_cells, Expression/UserBC.set_ghost_cells and the compiled setter assembled by "
        "NumbaBackend._make_local_ghost_cell_setter -> make_virtual_point_evaluator -> make_get_arr_1d are interpreted from "
        "their syntax trees on a shaped symbolic array. The single store they perform is decomposed into written index, read "
        "cells and value; the rule requires: written index = virtual point of that side, all valid transverse cells, the normal "
        "component iff `normal`, reads adjacent in the required order with equal transverse/component indices, and the "
        "defining equation of the condition to vanish identically."
    )
    ix = get_index()
    base = ix.cls(LOCAL, "BCBase")
    # ---------------------------------------------------------------- registry of names
    registry: dict[str, str] = {}
    classes = []
    for c in ix.subclasses(base, strict=True):
        if c.module.rel != LOCAL:
            continue
        classes.append(c)
        if "names" in c.attrs:
            try:
                names = const_value(c.attrs["names"])
            except ValueError:
                raise AnalysisError(f"`names` of {c.ref} is not a literal list")
            for n in names:
                if n in registry:
                    rep.violation("C02.alias-injective", f"{c.ref}::names", f"alias `{n}` is claimed by both {registry[n]} and {c.name}")
                registry[n] = c.name
    rep.floor("registered boundary-condition aliases", len(registry), 25)
    for alias, famx in ALIAS_FAMILY.items():
        if alias not in registry:
            rep.violation("C02.alias-missing", f"{LOCAL}::names::{alias}", f"documented alias `{alias}` is not registered by any class")
    # ---------------------------------------------------------------- rows
    const_classes = []
    for c in classes:
        fam, mro = families_of(c)
        if fam is not None and "ConstBCBase" in mro and not c.name.startswith("_MPI"):
            const_classes.append((c.name, fam, bool(_class_attr_true(c, "normal"))))
    rep.floor("constant boundary-condition classes with a formula", len(const_classes), 9)
    jobs = []
    quick = tier == "quick"
    for cname, fam, is_normal in const_classes:
        for n_axes, axis in GEOMS:
            for upper in (False, True):
                ranks = (1, 2) if is_normal else (0, 1, 2)
                for rank in ranks:
                    flips = (False, True) if fam == "periodic" else (False,)
                    for flip in flips:
                        for route in ("python", "numba"):
                            jobs.append((route, cname, n_axes, axis, upper, rank, True, flip, False))
                            if route == "numba" and rank == 0 and fam in ("dirichlet", "neumann", "curvature", "mixed"):
                                jobs.append((route, cname, n_axes, axis, upper, rank, False, flip, False))
                            if route == "numba" and rank == 0 and fam in ("dirichlet", "neumann"):
                                jobs.append((route, cname, n_axes, axis, upper, rank, True, flip, True))
    ejobs = []
    expr_classes = [c.name for c in classes if "ExpressionBC" in [x.name for x in c.mro()]]
    rep.floor("expression boundary-condition classes", len(expr_classes), 4)
    for cname in expr_classes:
        for n_axes, axis in GEOMS:
            for upper in (False, True):
                for is_func in (False, True):
                    for route in ("python", "numba"):
                        for with_t in (True, False):
                            ejobs.append((route, cname, n_axes, axis, upper, is_func, with_t))
    ujobs = []
    for n_axes, axis in GEOMS:
        for upper in (False, True):
            for key in ("virtual_point", "value", "derivative", None, "other"):
                for route in ("python", "numba"):
                    ujobs.append((route, n_axes, axis, upper, key))
    nproc = min(16, os.cpu_count() or 1)
    with mp.get_context("fork").Pool(nproc) as pool:
        cres = pool.map(_const_row, jobs, chunksize=4)
        eres = pool.map(_expr_row, ejobs, chunksize=4)
        ures = pool.map(_user_row, ujobs, chunksize=4)
        ljobs = [(n_axes, axis, upper, inf) for n_axes, axis in ((2, 0), (2, 1)) for upper in (False, True) for inf in (False, True)]
        lres = pool.map(_linked_mixed_row, ljobs, chunksize=1)

    fam_of_class: dict[str, set] = {}
    for res in cres:
        route, cname, n_axes, axis, upper, rank, homogeneous, flip, linked = res["job"]
        tag = f"{cname}:{route}:axes={n_axes}:axis={axis}:{'upper' if upper else 'lower'}:rank={rank}" + ("" if homogeneous else ":per-face") + (":flip" if flip else "") + (":linked" if linked else "")
        _absorb(rep, res, tag, f"{cname}", route)
        if res.get("residuals") and all(r[1] == "0" for r in res["residuals"]) and not res.get("problems"):
            fam_of_class.setdefault(cname, set()).add(res["fam"])
    for res in eres:
        route, cname, n_axes, axis, upper, is_func, with_t = res["job"]
        tag = f"{cname}:{route}:axes={n_axes}:axis={axis}:{'upper' if upper else 'lower'}:{'callable' if is_func else 'expression'}:{'t' if with_t else 'no-args'}"
        _absorb(rep, res, tag, cname, route)
        if "target" in res:
            fam_of_class.setdefault(cname, set()).add("expr:" + res["target"])
    for res in ures:
        route, n_axes, axis, upper, key = res["job"]
        tag = f"UserBC:{route}:axes={n_axes}:axis={axis}:{'upper' if upper else 'lower'}:args={key}"
        _absorb(rep, res, tag, "UserBC", route)
    for res in lres:
        n_axes, axis, upper, inf = res["job"]
        tag = f"MixedBC:numba:linked-value:axes={n_axes}:axis={axis}:{'upper' if upper else 'lower'}:{'infinite' if inf else 'finite'}-coefficient"
        _absorb(rep, res, tag, "MixedBC", "numba")
    # ---------------------------------------------------------------- alias -> proved family
    for alias, want in ALIAS_FAMILY.items():
        cname = registry.get(alias)
        if cname is None or want == "user":
            continue
        c = ix.cls(LOCAL, cname)
        is_normal = bool(_class_attr_true(c, "normal"))
        got = fam_of_class.get(cname, set())
        fam = want.split(":")[-1] if not want.startswith("expr:") else want
        ok = (fam in got) and (want.startswith("normal:") == is_normal)
        rep.oblige(f"alias:{alias}->{want}", ok, {"class": cname, "proved_families": sorted(got), "normal": is_normal})
        if not ok:
            rep.violation(
                "C02.alias-family",
                f"{LOCAL}::{cname}::names::{alias}",
                f"alias `{alias}` resolves to {cname}, whose extracted formula satisfies {sorted(got)} (normal={is_normal}); documented meaning is `{want}`",
            )
    check_parsing(rep, ix)
    check_copy(rep, ix)
    check_axis_spellings(rep, ix)
    check_boundary_coordinates(rep, ix)
    rep.assumptions += [
        "every axis has at least two cells (the code raises otherwise)",
        "values of user expressions/callables are uninterpreted symbols (their meaning is property C11)",
        "compiled MixedBC with a linked value array is extracted for 2-axes grids (1-d boundary: flat index == boundary index)",
        "numba compiles the interpreted Python semantics faithfully",
    ]
    return rep


def _class_attr_true(c, name):
    a = c.find_attr(name)
    if a is None:
        return False
    try:
        return bool(const_value(a[1]))
    except ValueError:
        return False


def _absorb(rep: Report, res: dict, tag: str, cname: str, route: str):
    if "error" in res:
        raise AnalysisError(f"{tag}: {res['error']}")
    where = res.get("func") or f"{LOCAL}::{cname}"
    construct = f"{where}::{tag}"
    if "raised" in res:
        rep.violation("C02.row-rejected", construct, f"{tag}: code raised {res['raised']} on a documented configuration")
        return
    rep.saw("rows", tag)
    for p in res["problems"]:
        rep.oblige(f"{tag}:index", False, p)
        rep.violation("C02.ghost-index", construct, f"{tag}: {p}; extracted store: {res.get('store')}")
    if not res["problems"]:
        rep.oblige(f"{tag}:index", True, res.get("store"))
    for name, r in res.get("residuals", []):
        ok = r == "0"
        rep.oblige(f"{tag}:{name}", ok, r)
        if not ok:
            rep.violation("C02.defining-equation", construct, f"{tag}: residual of {name} is `{r}` (must vanish identically); extracted store: {res.get('store')}")
    if len(rep.samples) < 14 and res.get("store"):
        rep.sample({"row": tag, "store": res["store"], "residuals": res.get("residuals")})


# =============================================================================
# parsing of boundary specifications (interpreted from source with recording stand-ins)
# =============================================================================
AXES_FILE = "pde/grids/boundaries/axes.py"
AXIS_FILE = "pde/grids/boundaries/axis.py"


def _parse_grid(periodic=(False, False)):
    return Model(
        "grid",
        {
            "axes": ["x", "y"],
            "num_axes": 2,
            "periodic": list(periodic),
            "c": Model("coords", {"_axes_alt_repl": {}}),
            "boundary_names": {"left": (0, False), "right": (0, True), "bottom": (1, False), "top": (1, True)},
            "_mesh": None,
        },
    )


def check_parsing(rep: Report, ix):
    cfg = read_config_defaults(ix)
    cfg.setdefault("boundaries.accept_lists", True)
    logger = Model("logger", {k: (lambda *a, **kw: None) for k in ("info", "warning", "debug", "error")})
    # ---------------------------------------------------------------- level 1: per-axis / per-side assignment
    f = ix.func(AXES_FILE, "BoundariesList._parse_from_dict")
    rep.saw("parsing functions", f.ref)
    registry = set(ALIAS_FAMILY)
    cases = [
        ({"x": "A", "y": "B"}, [("A", "A"), ("B", "B")]),
        ({"x-": "A", "x+": "B", "y": "C"}, [("A", "B"), ("C", "C")]),
        ({"*": "W", "y+": "D"}, [("W", "W"), ("W", "D")]),
        ({"*": "W", "left": "L"}, [("L", "W"), ("W", "W")]),
        ({"x": "A", "x+": "B", "top": "T", "y": "C"}, [("A", "B"), ("C", "T")]),
        ({"value": 3}, ["LOCAL", "LOCAL"]),
        ({"type": "neumann", "value": 1}, ["LOCAL", "LOCAL"]),
    ]
    # exhaustive key-presence lattice of one axis: every subset of {*, x, x-, x+, left, right} (a side key and
    # the alias of the same side are not combined: the code warns about duplicates there) with the documented
    # precedence  side/alias > whole axis > wildcard;  the second axis gets the wildcard only
    import itertools as _it

    KEYS = ["*", "x", "x-", "x+", "left", "right"]
    for r in range(1, len(KEYS) + 1):
        for sub in _it.combinations(KEYS, r):
            if ("x-" in sub and "left" in sub) or ("x+" in sub and "right" in sub):
                continue
            spec = {k: "V" + k for k in sub}
            w = spec.get("*")
            lo = spec.get("x-", spec.get("left", spec.get("x", w)))
            hi = spec.get("x+", spec.get("right", spec.get("x", w)))
            cases.append((spec, [(lo, hi), (w, w)]))
    rep.floor("boundary specification cases (key-presence lattice of one axis + mixed examples)", len(cases), 40)
    for spec, want in cases:
        log = []
        ov = std_overrides(ix, cfg)
        ov["get_boundary_axis"] = lambda grid, axis, data, rank=0: log.append((axis, data)) or f"axis{axis}"
        ov["_logger"] = logger
        ov["BC_LOCAL_KEYS"] = ["type", "value", *sorted(registry)]
        ov["warnings"] = Model("warnings", {"warn": lambda *a, **k: None})
        it = Interp(ix, overrides=ov)
        cls = ClassRefFor(ix, AXES_FILE, "BoundariesList")
        try:
            it.call(it.make_closure(f, it.module_env(f.module), bound_self=cls), (dict(spec),), {"grid": _parse_grid(), "rank": 0})
        except (Unsupported, RaisedInCode) as e:
            raise AnalysisError(f"{f.ref} on {spec}: {e}") from e
        got = []
        for axis, data in sorted(log, key=lambda x: x[0]):
            got.append("LOCAL" if isinstance(data, dict) else tuple(data))
        ok = got == want and [a for a, _ in sorted(log)] == [0, 1]
        rep.oblige(f"parse:{spec}", ok, str(got))
        if not ok:
            rep.violation("C02.spec-parsing", f"{f.ref}::{sorted(spec)}", f"specification {spec} is distributed to the axes as {got}; documented (lower, upper) per axis: {want}")
    # ---------------------------------------------------------------- string forms
    g = ix.func(AXES_FILE, "BoundariesList.from_data")
    rep.saw("parsing functions", g.ref)
    for spec, periodic, want in (("auto_periodic_neumann", (True, False), ["periodic", "neumann"]), ("auto_periodic_dirichlet", (False, True), ["dirichlet", "periodic"]), ("value", (False, False), ["value", "value"])):
        log = []
        ov = std_overrides(ix, cfg)
        ov["get_boundary_axis"] = lambda grid, axis, data, rank=0: log.append((axis, data)) or f"axis{axis}"
        ov["BoundariesList"] = Model("BoundariesList-stub", {"__call__": lambda bcs: ("LIST", list(bcs))})
        it = Interp(ix, overrides=ov)
        orig_isinstance = it.builtins["isinstance"]

        def _isinst(obj, c, orig=orig_isinstance):
            from ..fx import ClassRef

            cs = c if isinstance(c, tuple) else (c,)
            keep = tuple(x for x in cs if not (isinstance(x, Model) and x._name.endswith("-stub")) and not (isinstance(x, ClassRef) and x.info.name.startswith("Boundaries")))
            return orig(obj, keep) if keep else False

        it.builtins["isinstance"] = _isinst
        cls = ClassRefFor(ix, AXES_FILE, "BoundariesList")
        cls_model = cls
        try:
            it.call(it.make_closure(g, it.module_env(g.module), bound_self=cls_model), (spec,), {"grid": _parse_grid(periodic), "rank": 0})
        except (Unsupported, RaisedInCode) as e:
            raise AnalysisError(f"{g.ref} on {spec!r}: {e}") from e
        got = [d for a, d in sorted(log)]
        ok = got == want
        rep.oblige(f"parse:{spec!r}:periodic={periodic}", ok, str(got))
        if not ok:
            rep.violation("C02.spec-parsing", f"{g.ref}::{spec}", f"specification {spec!r} on a grid with periodic={periodic} gives {got}, documented {want}")
    # ---------------------------------------------------------------- level 2: get_boundary_axis
    h = ix.func(AXIS_FILE, "get_boundary_axis")
    rep.saw("parsing functions", h.ref)
    for data, periodic0, want in (
        (("A", "A"), False, ("pair", "A")),
        (("A", "B"), False, ("pair", ("A", "B"))),
        ("periodic", True, ("periodic", False)),
        ("anti-periodic", True, ("periodic", True)),
        ("auto_periodic_neumann", True, ("periodic", False)),
        ("auto_periodic_neumann", False, ("pair", "neumann")),
        ("periodic", False, "PeriodicityError"),
        ("value", True, "PeriodicityError"),
    ):
        ov = std_overrides(ix, cfg)
        ov["BoundaryPeriodic"] = lambda grid, axis, rank=0, flip_sign=False: Model("bp", {"periodic": True, "kind": ("periodic", bool(flip_sign)), "__isinstance__": lambda c: False})
        pair = Model("BoundaryPair", {"from_data": lambda grid, axis, data, rank=0: Model("pair", {"periodic": False, "kind": ("pair", data)})})
        ov["BoundaryPair"] = pair
        ov["BoundaryAxisBase"] = Opaque("BoundaryAxisBase")
        it = Interp(ix, overrides=ov)
        orig_isinstance = it.builtins["isinstance"]

        def _isinst(obj, c, orig=orig_isinstance):
            if isinstance(c, Opaque) and c.name == "BoundaryAxisBase":
                return False
            if isinstance(c, Opaque) and "Sequence" in c.name:
                return isinstance(obj, (tuple, list))
            return orig(obj, c)

        it.builtins["isinstance"] = _isinst
        grid = _parse_grid((periodic0, False))
        try:
            res = it.call(it.make_closure(h, it.module_env(h.module)), (grid, 0, data), {"rank": 0})
            got = res._attrs["kind"] if isinstance(res, Model) else res
        except RaisedInCode as e:
            got = e.exc_name
        except Unsupported as e:
            raise AnalysisError(f"{h.ref} on {data!r}: {e}") from e
        ok = got == want
        rep.oblige(f"get_boundary_axis:{data!r}:grid-periodic={periodic0}", ok, str(got))
        if not ok:
            rep.violation("C02.spec-parsing", f"{h.ref}::{data}", f"get_boundary_axis({data!r}) on an axis with periodic={periodic0} gives {got}; documented {want}")
    # ---------------------------------------------------------------- level 3: sides
    p = ix.func(AXIS_FILE, "BoundaryPair.from_data")
    rep.saw("parsing functions", p.ref)
    for data, want in (
        (("L", "H"), [(False, "L"), (True, "H")]),
        ("S", [(False, "S"), (True, "S")]),
        ({"low": "L", "high": "H"}, [(False, "L"), (True, "H")]),
        ({"value": 1}, [(False, "DICT"), (True, "DICT")]),
    ):
        log = []
        ov = std_overrides(ix, cfg)
        bcbase = Model("BCBase", {"from_data": lambda grid, axis, upper=None, data=None, rank=0: log.append((upper, "DICT" if isinstance(data, dict) else data)) or ("bc", upper)})
        ov["BCBase"] = bcbase
        it = Interp(ix, overrides=ov)
        orig_isinstance = it.builtins["isinstance"]

        def _isinst(obj, c, orig=orig_isinstance):
            cs = c if isinstance(c, tuple) else (c,)
            if any(isinstance(x, Model) and x._name == "BCBase" for x in cs):
                cs = tuple(x for x in cs if not (isinstance(x, Model) and x._name == "BCBase"))
                return orig(obj, cs) if cs else False
            return orig(obj, c)

        it.builtins["isinstance"] = _isinst
        made = []
        cls = Model("BoundaryPair-cls", {"__call__": lambda low, high: made.append((low, high)) or "pair", "get_help": lambda: ""})
        try:
            it.call(it.make_closure(p, it.module_env(p.module), bound_self=cls), (_parse_grid(), 0, data), {"rank": 0})
        except (Unsupported, RaisedInCode) as e:
            raise AnalysisError(f"{p.ref} on {data!r}: {e}") from e
        ok = log == want and made == [(("bc", False), ("bc", True))]
        rep.oblige(f"BoundaryPair.from_data:{data!r}", ok, {"calls": str(log), "constructed": str(made)})
        if not ok:
            rep.violation("C02.spec-parsing", f"{p.ref}::{data}", f"BoundaryPair.from_data({data!r}) builds sides {log} -> {made}; documented: first/`low` entry for the lower side (upper=False), second/`high` for the upper side")
    # ---------------------------------------------------------------- level 4: single condition
    for meth, args, want in (
        ("from_dict", {"data": {"type": "neumann", "value": 2}}, ("neumann", {"value": 2})),
        ("from_dict", {"data": {"derivative": 5}}, ("derivative", {"value": 5})),
        ("from_data", {"data": "dirichlet"}, ("dirichlet", {})),
        ("from_data", {"data": {"value": 7}}, ("value", {"value": 7})),
    ):
        fn = ix.func(LOCAL, f"BCBase.{meth}")
        rep.saw("parsing functions", fn.ref)
        for upper in (False, True):
            made = []

            def ctor(name):
                return lambda grid=None, axis=None, upper=None, rank=0, **kw: made.append((name, upper, axis, kw)) or Model("bc", {"periodic": False})

            conditions = {n: ctor(n) for n in ALIAS_FAMILY}
            base_cls = ix.cls(LOCAL, "BCBase")
            cls = Model("BCBase-cls", {"_conditions": conditions, "get_help": lambda: ""}, cls=None)
            # classmethods call each other through `cls`
            it = Interp(ix, overrides=std_overrides(ix, cfg))
            for m2 in ("from_str", "from_dict", "from_data"):
                f2 = base_cls.find_method(m2)
                cls._attrs[m2] = it.make_closure(f2, it.module_env(f2.module), bound_self=cls)
            orig_isinstance = it.builtins["isinstance"]

            def _isinst(obj, c, orig=orig_isinstance):
                from ..fx import ClassRef

                if isinstance(c, ClassRef) and c.info.name == "BCBase":
                    return False
                return orig(obj, c)

            it.builtins["isinstance"] = _isinst
            try:
                it.call(cls._attrs[meth], (_parse_grid(), 1, upper), dict(args))
            except (Unsupported, RaisedInCode) as e:
                raise AnalysisError(f"{fn.ref} on {args}: {e}") from e
            ok = made == [(want[0], upper, 1, want[1])]
            rep.oblige(f"BCBase.{meth}:{args['data']!r}:{'upper' if upper else 'lower'}", ok, str(made))
            if not ok:
                rep.violation("C02.spec-parsing", f"{fn.ref}::{args['data']}", f"BCBase.{meth}({args['data']!r}, axis=1, upper={upper}) constructs {made}; documented: condition `{want[0]}` with {want[1]} on that axis and side")
    # periodicity check in BCBase.from_data
    fn = ix.func(LOCAL, "BCBase.from_data")
    it = Interp(ix, overrides=std_overrides(ix, cfg))
    base_cls = ix.cls(LOCAL, "BCBase")
    cls = Model("BCBase-cls", {"_conditions": {"value": lambda **k: Model("bc", {"periodic": False})}, "get_help": lambda: ""})
    for m2 in ("from_str", "from_dict", "from_data"):
        f2 = base_cls.find_method(m2)
        cls._attrs[m2] = it.make_closure(f2, it.module_env(f2.module), bound_self=cls)
    orig_isinstance = it.builtins["isinstance"]
    it.builtins["isinstance"] = lambda obj, c, orig=orig_isinstance: False if getattr(getattr(c, "info", None), "name", "") == "BCBase" else orig(obj, c)
    raised = None
    try:
        it.call(cls._attrs["from_data"], (_parse_grid((True, False)), 0, False, "value"), {})
    except RaisedInCode as e:
        raised = e.exc_name
    except Unsupported as e:
        raise AnalysisError(f"{fn.ref}: {e}") from e
    ok = raised == "PeriodicityError"
    rep.oblige("BCBase.from_data rejects a non-periodic condition on a periodic axis", ok, raised)
    if not ok:
        rep.violation("C02.spec-parsing", f"{fn.ref}::periodicity-check", f"a non-periodic condition on a periodic axis is accepted (raised: {raised})")


def ClassRefFor(ix, rel, name):
    from ..fx import ClassRef

    return ClassRef(ix.cls(rel, name))


# =============================================================================
# compiled MixedBC with a linked value array (loops over value.flat)
# =============================================================================
def _linked_mixed_row(job):
    n_axes, axis, upper, inf_branch = job
    ix = get_index()
    cfg = read_config_defaults(ix)
    grid = grid_for(ix, n_axes)
    S = sp.Symbol("n_boundary", integer=True, positive=True)
    GAM = sp.Function("gamma_linked")
    it_box = {}
    linked = Model(
        "linked-value",
        {
            "size": S,
            "flat": Model("flat", {"__getitem__": lambda key: GAM(sp.sympify(key[0]))}),
            "__isinstance__": lambda c: True,
        },
    )

    def empty_like(v, **k):
        rec = {}

        def setflat(key, val, aug, st):
            rec["i"], rec["val"] = sp.sympify(key[0]), it_box["it"].as_expr(val)

        def getitem(key):
            kk = [sp.sympify(x) for x in key if x is not Ellipsis and x is not None]
            if "val" not in rec or len(kk) != 1:
                raise Unsupported(f"linked MixedBC: unexpected index {key} into the coefficient array")
            return AT(rec["val"].subs(rec["i"], kk[0]), kk[0])

        return Model("coefficients", {"flat": Model("flat", {"__setitem__": setflat}), "__getitem__": getitem})

    bc = bc_model(ix, "MixedBC", grid, axis, upper, 0, value=linked, const=BETA)
    bc._attrs.update({"homogeneous": False, "value_is_linked": True, "normal": False})
    be = backend_model()
    ov = std_overrides(ix, cfg, be)
    ov["_make_value_getter"] = lambda b: (lambda: linked)
    it = Interp(ix, overrides=ov)
    it_box["it"] = it
    it.np["empty_like"] = empty_like
    it.np["array"] = lambda x, *a, **k: x
    it.np["asarray"] = lambda x, *a, **k: Opaque("unused-eager-array")
    asked = []

    def decide_(cond, node):
        txt = str(cond)
        if "isinf" in txt:
            asked.append(txt)
            return inf_branch
        return decide(cond, node)

    it.decide = decide_
    # the eager (non-linked) arrays computed in the prelude are not used on this path
    orig_binop = it.binop

    def binop(op, a, b, node=None):
        if (isinstance(a, Model) and a is linked) or (isinstance(b, Model) and b is linked) or isinstance(a, Opaque) or isinstance(b, Opaque):
            return Opaque("unused-eager-array")
        return orig_binop(op, a, b, node)

    it.binop = binop
    orig_assign = it.assign

    def assign(t, v, env, st):
        if isinstance(t, ast.Subscript):
            try:
                base = it.eval(t.value, env)
            except Unsupported:
                base = None
            if isinstance(base, Opaque):
                return
        return orig_assign(t, v, env, st)

    it.assign = assign
    orig_unary = it.eval_UnaryOp

    def unary(node, env):
        try:
            return orig_unary(node, env)
        except Unsupported:
            return Opaque("unused")

    it.eval_UnaryOp = unary
    it.np["isfinite"] = lambda x: Opaque("unused")
    f = ix.func(NB, "NumbaBackend._make_local_ghost_cell_setter")
    try:
        setter = it.call(it.make_closure(f, it.module_env(f.module)), (be, bc), {})
        df = SymArray("data_full", shape=tuple(n + 2 for n in grid._attrs["shape"]))
        n0 = len(it.stores)
        it.call(setter, (df,), {"args": None})
    except RaisedInCode as e:
        return {"job": job, "raised": e.exc_name}
    except Unsupported as e:
        return {"job": job, "error": str(e)}
    stores = [s for s in it.stores[n0:] if s.base == "data_full"]
    out = {"job": job, "problems": [], "residuals": [], "n_stores": len(stores)}
    if len(stores) != 1:
        out["problems"].append(f"{len(stores)} stores, expected one")
        return out
    if not asked:
        out["problems"].append("the linked-value path (np.isinf test per entry) was not taken")
    st = stores[0]
    out["func"] = st.func
    # which boundary entry of the linked array is used: must be the transverse position written
    value = sp.sympify(st.value)
    gam_args = {a.args[0] for a in value.atoms(AppliedUndef) if a.func == GAM}
    problems, g = analyse_store(st, grid, axis, upper, 0, False, n_axes)
    out["problems"] += problems
    out["store"] = f"data_full{list(st.idx)} = {st.value}"
    if g is None:
        return out
    h = grid._attrs["discretization"].items[axis]
    c = sp.Symbol("cN" if upper else "c1")
    gam = None
    for a in sp.sympify(g).atoms(AppliedUndef):
        if a.func == GAM:
            gam = a
    if inf_branch:
        res = g + c
    else:
        if gam is None:
            out["problems"].append("the ghost value does not depend on the linked coefficient")
            return out
        res = (g - c) / h + gam * (g + c) / 2 - BETA
    out["residuals"].append(("defining-equation(linked," + ("infinite" if inf_branch else "finite") + ")", str(sp.simplify(res))))
    return out

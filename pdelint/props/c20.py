"""C20 -- in-memory storage returns what was stored, in order.

Decided on the syntax trees of ``pde/storage/memory.py`` and ``pde/storage/base.py``
(never imported): alias typing of what is appended / returned, a paired-update rule
for ``times``/``data`` over all structured paths of every method, and the write-mode
transition table obtained by following ``start_writing`` (with ``super().start_writing``
spliced in) under each value of ``self.write_mode``.
"""

from __future__ import annotations

import ast

from ..alias import (
    Classifier,
    Facts,
    Path,
    Val,
    Write,
    chain_str,
    enum_paths,
    expand,
    is_self_call,
    mentions,
    mro_inliner,
    param_names,
    pick_def,
    same_expr,
    stable_ref,
    thorough_selftest,
    writes_of,
)
from ..core import AnalysisError, Report
from ..index import ClassInfo, get_index

MEM = "pde/storage/memory.py"
BASE = "pde/storage/base.py"
FBASE = "pde/fields/base.py"

# the documented behaviour of ``write_mode`` (docstring of MemoryStorage / StorageBase):
#   append        data is always appended
#   truncate      data is cleared every time the storage is used for writing
#   truncate_once data is cleared for the first writing, but appended subsequently
#   readonly      writing is disabled completely
OTHER = "<any other value>"
DOCUMENTED = {
    "truncate_once": {"clears": 1, "final": "append", "exit": "normal"},
    "truncate": {"clears": 1, "final": "truncate", "exit": "normal"},
    "append": {"clears": 0, "final": "append", "exit": "normal"},
    "readonly": {"exit": "raise"},
    OTHER: {"exit": "raise"},
}


# ------------------------------------------------------------------------- helpers




def list_mutations(ws: list[Write], place: str) -> list[tuple[str, Write]]:
    """mutations of the list stored at ``place`` (``self.times``): re-binding and
    structural mutation of the list object, also through local aliases"""
    out = []
    for w in ws:
        if w.kind in ("rebind", "aug-attr") and w.chain == place:
            out.append(("rebind" if w.kind == "rebind" else "aug", w))
        elif w.kind == "del" and w.chain == place:
            out.append(("rebind", w))
        elif w.kind in ("mutcall", "store", "del", "aug-name", "out") and w.val.shares and w.val.roots and all(r == place for r in w.val.roots):
            out.append((w.attr if w.kind == "mutcall" else {"store": "setitem", "del": "delitem", "aug-name": "aug", "out": "out"}[w.kind], w))
    return out


def appended(kind: str, w: Write) -> list[ast.AST] | None:
    """the element expressions a list mutation appends (``.append(x)``, ``+= [x]``,
    ``.extend([x])``), or None when it is not an append of displayed elements"""
    if kind == "append" and w.value is not None:
        return [w.value]
    if kind in ("aug", "extend") and isinstance(w.value, (ast.List, ast.Tuple)) and not any(isinstance(x, ast.Starred) for x in w.value.elts):
        if kind == "aug" and not isinstance(getattr(w.node, "ctx", None), ast.Store):
            return None
        return list(w.value.elts)
    return None


def is_empty_list(e: ast.AST | None) -> bool:
    if isinstance(e, (ast.List, ast.Tuple)) and not e.elts:
        return True
    return isinstance(e, ast.Call) and isinstance(e.func, ast.Name) and e.func.id == "list" and not e.args and not e.keywords


def selection(e: ast.AST, path: Path, idx: int, place: str):
    """which entries of the list at ``place`` an expression selects, in order:
    ("all",) | ("sub", <normalised index>) | None (not derived from it in a known way)"""
    x = expand(e, path, idx)
    while True:
        if isinstance(x, ast.Call) and isinstance(x.func, ast.Name) and x.func.id in ("list", "tuple") and len(x.args) == 1 and not x.keywords:
            x = x.args[0]
            continue
        if isinstance(x, (ast.ListComp, ast.GeneratorExp)) and len(x.generators) == 1 and not x.generators[0].ifs:
            g = x.generators[0]
            if not isinstance(g.target, ast.Name):
                return None
            # the element must be built from the comprehension variable
            if not any(isinstance(n, ast.Name) and n.id == g.target.id for n in ast.walk(x.elt)):
                return None
            x = g.iter
            continue
        break
    if chain_str(x) == place:
        return ("all",)
    if isinstance(x, ast.Subscript) and chain_str(x.value) == place:
        sl = x.slice
        if isinstance(sl, ast.Slice) and sl.lower is None and sl.upper is None and sl.step is None:
            return ("all",)
        return ("sub", ast.dump(sl))
    return None


def call_arg(call: ast.Call, fn: ast.FunctionDef, name: str) -> ast.AST | None:
    for k in call.keywords:
        if k.arg == name:
            return k.value
    pos = [p.arg for p in fn.args.posonlyargs + fn.args.args]
    if pos and pos[0] in ("self", "cls"):
        pos = pos[1:]
    if name in pos and pos.index(name) < len(call.args):
        a = call.args[pos.index(name)]
        return None if isinstance(a, ast.Starred) else a
    return None


def exc_name(e: ast.AST | None) -> str:
    if isinstance(e, ast.Call):
        e = e.func
    return chain_str(e) or "?" if e is not None else "re-raise"


# ------------------------------------------------------------------------- rules
def check_mode_table(rep: Report, ix, mem: ClassInfo, clf: Classifier) -> None:
    sw = ix.func(MEM, "MemoryStorage.start_writing")
    base_sw = ix.func(BASE, "StorageBase.start_writing")
    rep.saw("functions", sw.ref)
    rep.saw("functions", base_sw.ref)
    inline = mro_inliner(ix, mem)
    table = {}
    n_paths = 0
    for mode, want in DOCUMENTED.items():
        facts = Facts()
        facts.set_eq("self.write_mode", mode)
        paths = enum_paths(sw, facts, inline=inline)
        n_paths += len(paths)
        outcomes = set()
        early = []
        for p in paths:
            ws = writes_of(p, clf, sw, frame=None)
            events = []  # (idx, kind, detail)
            for w in ws:
                if w.kind == "rebind" and w.chain == "self.write_mode":
                    c = w.value.value if isinstance(w.value, ast.Constant) else "<non-constant>"
                    events.append((w.idx, "set-mode", c))
                elif not w.local_only and w.val.touches("self") or (w.kind in ("rebind", "aug-attr") and w.chain.startswith("self.")):
                    events.append((w.idx, "mutation", w.show()))
            for i, e in enumerate(p.evs):
                if e.kind == "stmt" and isinstance(e.node, ast.Expr) and is_self_call(e.node.value) == "clear":
                    c = e.node.value
                    args = [ast.unparse(a) for a in c.args] + [f"{k.arg}={ast.unparse(k.value)}" for k in c.keywords]
                    keeps_shape = all(isinstance(a, ast.Constant) and not a.value for a in list(c.args) + [k.value for k in c.keywords])
                    events.append((i, "clear", ",".join(args) if not keeps_shape else ""))
            events.sort(key=lambda t: t[0])
            clears = [d for _, k, d in events if k == "clear"]
            final = mode
            for _, k, d in events:
                if k == "set-mode":
                    final = d
            if p.exit == "raise":
                outcomes.add(("raise", exc_name(p.value)))
                if any(k in ("mutation", "clear", "set-mode") for _, k, _ in events):
                    early.append([f"{k}:{d}" for _, k, d in events if k != "set-mode" or True][:4])
            else:
                outcomes.add(("normal", len(clears), final, tuple(c for c in clears if c)))
        normal = sorted(o for o in outcomes if o[0] == "normal")
        raising = sorted(o for o in outcomes if o[0] == "raise")
        table[mode] = {"normal": [{"clears": o[1], "final_mode": o[2], "clear_args": list(o[3])} for o in normal], "raises": [o[1] for o in raising]}
        key = f"{sw.ref}::mode={mode}"
        if want["exit"] == "raise":
            ok = not normal and bool(raising)
            rep.oblige(f"mode-table:{mode}:rejected", ok, table[mode])
            if not ok:
                rep.violation("C20.mode-table", key, f"write mode {mode!r} must be rejected by start_writing, but a path returns normally: {table[mode]['normal']}", line=sw.node.lineno, extracted=table[mode])
            if mode == "readonly":
                ok2 = not early
                rep.oblige("mode-table:readonly:rejected-before-mutation", ok2, early[:3])
                if not ok2:
                    rep.violation(
                        "C20.readonly-before-mutation",
                        key,
                        f"in readonly mode start_writing (with the inherited start_writing spliced in) mutates the storage before it raises: {early[0]}",
                        line=sw.node.lineno,
                        effects_before_raise=early[:3],
                    )
        else:
            got = {(o[1], o[2], o[3]) for o in normal}
            ok = got == {(want["clears"], want["final"], ())}
            rep.oblige(f"mode-table:{mode}", ok, table[mode])
            if not ok:
                rep.violation(
                    "C20.mode-table",
                    key,
                    f"write mode {mode!r}: documented behaviour is {want['clears']} clear(s) and mode afterwards {want['final']!r}; "
                    f"extracted from start_writing: {table[mode]['normal'] or 'no normally returning path'}",
                    line=sw.node.lineno,
                    extracted=table[mode],
                    documented=want,
                )
    rep.floor("paths through start_writing over all write modes", n_paths, 8)
    rep.sample({"write-mode transition table extracted from MemoryStorage.start_writing (+ inherited)": table})


def check_lockstep(rep: Report, ix, mem: ClassInfo, clf: Classifier) -> None:
    n_mut = 0
    for c in mem.mro():
        for name, defs in c.methods.items():
            for f in defs:
                if any(d.endswith("overload") for d in f.decorator_names):
                    continue
                paths = enum_paths(f)
                mutating = False
                reported = False
                for p in paths:
                    ws = writes_of(p, clf, f)
                    mt = list_mutations(ws, "self.times")
                    md = list_mutations(ws, "self.data")
                    if mt or md:
                        mutating = True
                    kt, kd = [k for k, _ in mt], [k for k, _ in md]
                    if kt != kd and not reported:
                        reported = True
                        w = (mt + md)[0][1]
                        how = "raises" if p.exit == "raise" else "returns"
                        rep.violation(
                            "C20.lockstep",
                            f"{f.ref}::times-vs-data",
                            f"a path that {how} mutates `times` by {kt or 'nothing'} but `data` by {kd or 'nothing'}: the two lists get out of step",
                            line=getattr(w.node, "lineno", f.node.lineno),
                            decisions=[(ast.unparse(t) if isinstance(t, ast.expr) else type(t).__name__, tr) for t, tr in p.decisions()][:8],
                        )
                    # stored frames are never modified in place
                    for w in ws:
                        if w.kind in ("store", "aug-name", "out", "mutcall") and w.val.shares and any(r.startswith("self.data[]") for r in w.val.roots):
                            rep.violation("C20.frames-immutable", f"{f.ref}::stored-frame", f"stored frame is modified in place ({w.show()})", line=getattr(w.node, "lineno", None))
                if mutating:
                    n_mut += 1
                    rep.saw("methods mutating times/data", f.ref)
                    rep.oblige(f"lockstep:{f.ref}", not reported, f"{len(paths)} paths")
    rep.floor("methods of MemoryStorage (incl. inherited) that mutate times/data", n_mut, 3)


EXACT_COPY_FUNCS = {"np.array", "np.copy", "np.asarray", "np.asanyarray", "np.ascontiguousarray", "numpy.array", "numpy.copy"}


def value_preserving(e: ast.AST, src: str):
    """is the (expanded) expression an *exact* copy of parameter ``src``?  returns
    ("exact" | "cast" | "unknown", detail).  A dtype argument is exact only when it is taken
    from the copied array itself; any other dtype makes the stored values depend on state
    that may stem from an earlier writing session."""

    def from_src(x: ast.AST) -> bool:
        return any(isinstance(n, ast.Name) and n.id == src for n in ast.walk(x))

    if isinstance(e, ast.Name):
        return ("exact", "") if e.id == src else ("unknown", f"name `{e.id}` is not the data parameter")
    if isinstance(e, ast.Call):
        fn = chain_str(e.func) or ""
        if fn in EXACT_COPY_FUNCS and e.args:
            dts = [k.value for k in e.keywords if k.arg == "dtype"] + (list(e.args[1:2]) if fn.endswith(".array") or fn.endswith("asarray") or fn.endswith("asanyarray") or fn.endswith("ascontiguousarray") else [])
            for d in dts:
                if isinstance(d, ast.Constant) and d.value is None:
                    continue
                if not from_src(d):
                    return "cast", f"`{ast.unparse(e)}` converts the frame to dtype `{ast.unparse(d)}`, which is not taken from the frame itself"
            bad = [k.arg for k in e.keywords if k.arg not in ("dtype", "copy", "order", "subok", "ndmin", "like")]
            if bad:
                return "unknown", f"keyword(s) {bad} of `{ast.unparse(e)}`"
            return value_preserving(e.args[0], src)
        if isinstance(e.func, ast.Attribute) and e.func.attr == "copy":
            return value_preserving(e.func.value, src)
        if isinstance(e.func, ast.Attribute) and e.func.attr == "astype":
            d = e.args[0] if e.args else next((k.value for k in e.keywords if k.arg == "dtype"), None)
            if d is not None and from_src(d):
                return value_preserving(e.func.value, src)
            return "cast", f"`{ast.unparse(e)}` converts the frame to dtype `{ast.unparse(d) if d is not None else '?'}`, which is not taken from the frame itself"
        return "unknown", f"call `{ast.unparse(e)[:80]}` is not a known exact-copy idiom"
    return "unknown", f"`{ast.unparse(e)[:80]}` is not a known exact-copy idiom"


def check_append(rep: Report, ix, clf: Classifier) -> None:
    f = ix.func(MEM, "MemoryStorage._append_data")
    rep.saw("functions", f.ref)
    params = [p for p in param_names(f.node) if p not in ("self", "cls")]
    if len(params) < 2:
        raise AnalysisError(f"{f.ref}: expected (data, time) parameters, found {params}")
    p_data, p_time = params[0], params[1]
    n_norm = 0
    for p in enum_paths(f):
        if not p.normal:
            continue
        n_norm += 1
        ws = writes_of(p, clf, f)
        md = list_mutations(ws, "self.data")
        mt = list_mutations(ws, "self.times")
        ad = [appended(k, w) for k, w in md]
        at = [appended(k, w) for k, w in mt]
        ok_shape = len(ad) == 1 and len(at) == 1 and ad[0] is not None and at[0] is not None and len(ad[0]) == 1 and len(at[0]) == 1
        if not ok_shape:
            rep.violation(
                "C20.append-once",
                f"{f.ref}::append",
                f"a normally returning path does not append exactly once to both lists (data: {[k for k, _ in md]}, times: {[k for k, _ in mt]})",
                line=f.node.lineno,
            )
            continue
        wd, wt = md[0][1], mt[0][1]
        e_data, e_time = ad[0][0], at[0][0]
        v = clf.classify(e_data, p, wd.idx, f)
        derived = mentions(e_data, p, wd.idx, p_data)
        rep.sample({"construct": f.ref, "appended frame": ast.unparse(e_data), "classified": v.show(), "why": v.why})
        if v.kind == "UNKNOWN":
            raise AnalysisError(f"{f.ref}: cannot classify appended value `{ast.unparse(e_data)}`: {v.why}")
        if not v.fresh:
            rep.violation(
                "C20.append-copies",
                f"{f.ref}::stored-frame",
                f"the frame appended to `data` is {v.show()} ({v.why}): it shares memory with the caller's array, so later changes of the source field alter the stored frame",
                line=wd.node.lineno,
            )
        if not derived:
            rep.violation("C20.append-copies", f"{f.ref}::stored-value", f"the appended frame does not derive from parameter `{p_data}`", line=wd.node.lineno)
        if not mentions(e_time, p, wt.idx, p_time):
            rep.violation("C20.append-copies", f"{f.ref}::stored-time", f"the appended time stamp does not derive from parameter `{p_time}`", line=wt.node.lineno)
        rep.oblige("append:fresh-copy", v.fresh and derived, v.show())
        # the copy must be exact: equal to the field's data at the moment of appending
        verdict, why = value_preserving(expand(e_data, p, wd.idx), p_data)
        if verdict == "unknown" and v.fresh and derived:
            raise AnalysisError(f"{f.ref}: cannot decide whether the stored frame `{ast.unparse(e_data)}` is an exact copy of `{p_data}`: {why}")
        rep.oblige("append:exact-copy (no cast by a dtype that is not the frame's own)", verdict != "cast", why or ast.unparse(e_data))
        if verdict == "cast":
            rep.violation(
                "C20.append-exact",
                f"{f.ref}::stored-frame-dtype",
                f"{why}: the stored frame need not equal the field's data at the moment of appending (a dtype remembered from an earlier session or from the template casts later frames: bool/int truncation, dropped imaginary parts)",
                line=wd.node.lineno,
            )
    rep.floor("normally returning paths of _append_data", n_norm, 1)

    # StorageBase.append forwards (field.data, time)
    g = ix.func(BASE, "StorageBase.append")
    rep.saw("functions", g.ref)
    gp = [p for p in param_names(g.node) if p not in ("self", "cls")]
    n = 0
    for p in enum_paths(g):
        if not p.normal:
            continue
        calls = []
        for i, st in p.stmts():
            for c in ast.walk(st):
                if is_self_call(c) == "_append_data":
                    calls.append((i, c))
        if len(calls) != 1:
            rep.violation("C20.append-forwards", f"{g.ref}::forward", f"a normally returning path calls _append_data {len(calls)} times", line=g.node.lineno)
            continue
        n += 1
        i, c = calls[0]
        a_data, a_time = call_arg(c, f.node, p_data), call_arg(c, f.node, p_time)
        # the time stamp is the parameter, or the documented default when it is None
        defaulted = p.decided(lambda t: isinstance(t, ast.Compare) and chain_str(t.left) == gp[1] and isinstance(t.ops[0], ast.Is) and isinstance(t.comparators[0], ast.Constant) and t.comparators[0].value is None)
        ok = (
            a_data is not None
            and a_time is not None
            and mentions(a_data, p, i, gp[0])
            and (mentions(a_time, p, i, gp[1]) or (defaulted is True and isinstance(a_time, ast.Name) and a_time.id == gp[1]))
            and not mentions(a_time, p, i, gp[0])
        )
        if ok:
            v = clf.classify(a_data, p, i, g)
            ok = v.shares and all(r.endswith(".data") for r in v.roots)
        if not ok:
            rep.violation("C20.append-forwards", f"{g.ref}::forward", f"append does not forward (<field>.data, time) to _append_data: `{ast.unparse(c)}`", line=c.lineno)
        # a time stamp that was given is stored as given: the default may replace `None` only -- a truthiness test
        # (`time or default`, `if not time`) also replaces the legitimate time 0.0
        ex_t = expand(a_time, p, i) if a_time is not None else None
        falsy = None
        if ex_t is not None:
            for x in ast.walk(ex_t):
                if isinstance(x, ast.BoolOp) and any(isinstance(v_, ast.Name) and v_.id == gp[1] for v_ in x.values):
                    falsy = ast.unparse(x)[:70]
                if isinstance(x, ast.IfExp) and ((isinstance(x.test, ast.Name) and x.test.id == gp[1]) or (isinstance(x.test, ast.UnaryOp) and isinstance(x.test.operand, ast.Name) and x.test.operand.id == gp[1])):
                    falsy = ast.unparse(x)[:70]
        for t_, truth in p.decisions(0):
            tt = t_.operand if isinstance(t_, ast.UnaryOp) and isinstance(t_.op, ast.Not) else t_
            if isinstance(tt, ast.Name) and tt.id == gp[1]:
                falsy = f"if {ast.unparse(t_)}"
        rep.oblige(f"append: a given time stamp is stored as given (default replaces None only), path {n}", falsy is None, falsy)
        if falsy:
            rep.violation(
                "C20.append-forwards",
                f"{g.ref}::time-default",
                f"the time stamp is chosen by the truth value of `{gp[1]}` (`{falsy}`): a frame appended at time 0 (0.0 is falsy) is stored under the default `last time + 1` instead of 0, "
                "so the stored times no longer are the times of the appended pairs",
                line=c.lineno,
            )
    rep.floor("forwarding paths of StorageBase.append", n, 1)


def check_get_field(rep: Report, ix, clf: Classifier) -> None:
    f = ix.func(BASE, "StorageBase._get_field")
    rep.saw("functions", f.ref)
    p_idx = [p for p in param_names(f.node) if p not in ("self", "cls")][0]
    n = 0
    for p in enum_paths(f):
        if p.exit != "return":
            if p.exit == "end":
                rep.violation("C20.get-field-copies-template", f"{f.ref}::result", "a path ends without returning a field", line=f.node.lineno)
            continue
        n += 1
        end = len(p.evs)
        v = clf.classify(p.value, p, end, f) if p.value is not None else Val("UNKNOWN", why="bare return")
        src = expand(p.value, p, end) if p.value is not None else None
        from_template = (
            isinstance(src, ast.Call) and isinstance(src.func, ast.Attribute) and src.func.attr in ("copy", "__copy__", "__deepcopy__") and chain_str(src.func.value) == "self._field"
        )
        rep.sample({"construct": f.ref, "returned": ast.unparse(src) if src is not None else None, "classified": v.show()})
        if not (v.fresh and from_template):
            rep.violation(
                "C20.get-field-copies-template",
                f"{f.ref}::result",
                f"the returned field is `{ast.unparse(src) if src is not None else None}` ({v.show()}; {v.why}) and not a fresh `.copy()` of the template `self._field`: "
                "fields read back alias the template (and each other)",
                line=p.evs[-1].node.lineno if p.evs else f.node.lineno,
            )
            continue
        ws = writes_of(p, clf, f)
        ret = chain_str(p.value)
        # `<copy>.data = frame` (setter, by value) or `<copy>.data[...] = frame`
        fills = [w for w in ws if (w.kind == "rebind" and w.attr == "data" and chain_str(w.node.value) == ret) or (w.kind == "store" and w.chain in (f"{ret}.data", f"{ret}._data_valid"))]
        ok = False
        for w in fills:
            val = expand(w.value, p, w.idx) if w.value is not None else None
            if isinstance(val, ast.Subscript) and chain_str(val.value) == "self.data" and isinstance(val.slice, ast.Name) and val.slice.id == p_idx:
                ok = True
        if not ok:
            rep.violation(
                "C20.get-field-assigns-frame",
                f"{f.ref}::fill",
                f"the copy of the template is not filled by value assignment `<copy>.data = self.data[{p_idx}]` before it is returned",
                line=f.node.lineno,
            )
        # nothing but the fresh copy (and the lazily initialised template) may be written
        for w in ws:
            if w.local_only:
                continue
            if w.val.touches("self._field", "self.data", "self.times") or w.chain in ("self.data", "self.times"):
                rep.violation("C20.get-field-copies-template", f"{f.ref}::side-effect", f"reading a frame writes to the storage ({w.show()})", line=getattr(w.node, "lineno", None))
        rep.oblige(f"get-field:path{n}", ok, ast.unparse(src))
    rep.floor("returning paths of _get_field", n, 1)

    # the value assignment relies on the ``data`` setter of fields storing by value
    setter = pick_def(ix, FBASE, "FieldBase.data", "setter")
    rep.saw("functions", stable_ref(setter))
    n_store = 0
    for p in enum_paths(setter):
        if not p.normal:
            continue
        ws = [w for w in writes_of(p, clf, setter) if not w.local_only]
        stores = [w for w in ws if w.kind == "store" and w.chain in ("self._data_valid", "self.data")]
        others = [w for w in ws if w not in stores]
        n_store += len(stores)
        if not stores or others:
            rep.violation(
                "C20.read-assigns-values",
                f"{stable_ref(setter)}::value-store",
                "assigning to `field.data` must copy values into the field's own array (`self._data_valid[...] = value`) and do nothing else; "
                f"found {[w.show() for w in ws]}",
                line=setter.node.lineno,
            )
    rep.floor("value stores in FieldBase.data setter", n_store, 1)


def check_clear(rep: Report, ix, clf: Classifier) -> None:
    f = ix.func(MEM, "MemoryStorage.clear")
    rep.saw("functions", f.ref)
    n = 0
    for p in enum_paths(f):
        if not p.normal:
            continue
        n += 1
        ws = writes_of(p, clf, f)
        for place in ("self.times", "self.data"):
            muts = list_mutations(ws, place)
            ok = bool(muts) and ((muts[-1][0] == "rebind" and is_empty_list(muts[-1][1].value)) or muts[-1][0] == "clear")
            rep.oblige(f"clear:{place}:path{n}", ok, [k for k, _ in muts])
            if not ok:
                rep.violation("C20.clear-empties-both", f"{f.ref}::{place.split('.')[1]}", f"clear() does not leave `{place}` empty on every path (mutations: {[k for k, _ in muts]})", line=f.node.lineno)
    rep.floor("normally returning paths of clear", n, 1)


def check_init(rep: Report, ix, clf: Classifier) -> None:
    f = ix.func(MEM, "MemoryStorage.__init__")
    rep.saw("functions", f.ref)

    def is_len_of(e: ast.AST, place: str) -> bool:
        return isinstance(e, ast.Call) and isinstance(e.func, ast.Name) and e.func.id == "len" and len(e.args) == 1 and chain_str(e.args[0]) == place

    def length_test(t: ast.AST):
        """+1: test true means equal, -1: test true means unequal, None: other test"""
        if isinstance(t, ast.UnaryOp) and isinstance(t.op, ast.Not):
            r = length_test(t.operand)
            return None if r is None else -r
        if isinstance(t, ast.Compare) and len(t.ops) == 1 and isinstance(t.ops[0], (ast.Eq, ast.NotEq)):
            a, b = t.left, t.comparators[0]
            if (is_len_of(a, "self.times") and is_len_of(b, "self.data")) or (is_len_of(a, "self.data") and is_len_of(b, "self.times")):
                return 1 if isinstance(t.ops[0], ast.Eq) else -1
        return None

    n = 0
    for p in enum_paths(f):
        if not p.normal:
            continue
        n += 1
        ws = writes_of(p, clf, f)
        last = max([w.idx for k, w in list_mutations(ws, "self.times") + list_mutations(ws, "self.data")], default=-1)
        ok = False
        for i, e in enumerate(p.evs):
            if e.kind == "decide" and e.frame == 0 and isinstance(e.node, ast.expr) and i > last:
                r = length_test(e.node)
                if r is not None and (r == 1) == e.truth:
                    ok = True
        if not ok:
            rep.violation(
                "C20.init-length-check",
                f"{f.ref}::length-check",
                "the constructor takes `times` and `data` from the caller; a path returns normally without having established len(self.times) == len(self.data) after the last assignment",
                line=f.node.lineno,
            )
    rep.oblige("init:length-check", not any(x.rule == "C20.init-length-check" for x in rep.findings))
    rep.floor("normally returning paths of MemoryStorage.__init__", n, 2)
    # the list of time stamps is the storage's own object: derived storages (extract_field, from_collection) are built
    # from `self.times` of their source, whose list keeps growing when the source is written again
    ps = param_names(f.node)
    if "times" not in ps:
        raise AnalysisError(f"{f.ref}: parameter `times` vanished")
    n_t = 0
    shared = []
    for p in enum_paths(f):
        if not p.normal:
            continue
        ws = writes_of(p, clf, f)
        rb = [w for k, w in list_mutations(ws, "self.times") if k == "rebind" and w.value is not None]
        if not rb:
            continue
        w = rb[-1]
        n_t += 1
        v = clf.classify(w.value, p, w.idx, f)
        if v.kind == "UNKNOWN":
            raise AnalysisError(f"{f.ref}: cannot classify the value stored in self.times: `{ast.unparse(w.value)}` ({v.why})")
        if not v.fresh:
            shared.append((ast.unparse(expand(w.value, p, w.idx)), v.show(), w.node.lineno))
    rep.oblige("init:times-list-is-own-object (fresh list on every path)", not shared, shared[:2])
    for src, how, line in shared[:1]:
        rep.violation(
            "C20.init-owns-times",
            f"{f.ref}::times-list",
            f"on some path self.times is bound to `{src}` ({how}), the caller's list object itself: storages derived with extract_field / from_collection are handed the `times` list of their "
            "source, so appending to the source later gives the derived storage more time stamps than frames (len() wrong, reading raises IndexError)",
            line=line,
        )
    rep.floor("paths of MemoryStorage.__init__ that bind self.times", n_t, 2)


def check_derived(rep: Report, ix, mem: ClassInfo, clf: Classifier) -> None:
    init = ix.func(MEM, "MemoryStorage.__init__")
    n_sites = 0
    for qn, copies in (("StorageBase.extract_field", True), ("StorageBase.extract_time_range", False)):
        f = ix.func(BASE, qn)
        rep.saw("functions", f.ref)
        n = 0
        for p in enum_paths(f):
            if p.exit != "return" or p.value is None:
                continue
            end = len(p.evs)
            call = expand(p.value, p, end)
            if not (isinstance(call, ast.Call) and chain_str(call.func) in ("MemoryStorage", "cls", "self.__class__")):
                raise AnalysisError(f"{f.ref}: returned value `{ast.unparse(p.value)}` is not a storage constructor call")
            orig = p.value
            while isinstance(orig, ast.Name):
                d = p.lookup(orig.id, end)
                if d is None or d.value is None:
                    break
                orig, end = d.value, d.idx
            a_t, a_d = call_arg(orig, init.node, "times"), call_arg(orig, init.node, "data")
            if a_t is None or a_d is None:
                raise AnalysisError(f"{f.ref}: storage constructor call without times/data arguments")
            n += 1
            sel_t, sel_d = selection(a_t, p, end, "self.times"), selection(a_d, p, end, "self.data")
            if n == 1:
                rep.sample({"construct": f.ref, "times": ast.unparse(a_t), "data": ast.unparse(a_d), "selection(times)": sel_t and sel_t[0], "selection(data)": sel_d and sel_d[0]})
            ok = sel_t is not None and sel_t == sel_d
            rep.oblige(f"derived:{qn}:paired:path{n}", ok, [sel_t, sel_d])
            if not ok:
                rep.violation(
                    "C20.derived-paired",
                    f"{f.ref}::times-vs-data",
                    f"the derived storage takes `times` from `{ast.unparse(a_t)}` but `data` from `{ast.unparse(a_d)}`: not the same entries of the two lists",
                    line=orig.lineno,
                )
            if copies:
                v = clf.classify(a_d, p, end, f)
                ev = v.elem if v.is_list else None
                okc = ev is not None and ev.fresh
                rep.oblige(f"derived:{qn}:copies:path{n}", okc, ev.show() if ev else v.show())
                if not okc:
                    rep.violation(
                        "C20.extract-field-copies",
                        f"{f.ref}::frames",
                        f"frames of the extracted storage are {ev.show() if ev else v.show()} ({(ev or v).why}): they share memory with the frames of the source storage",
                        line=orig.lineno,
                    )
        rep.floor(f"returning paths of {qn}", n, 1)
        n_sites += n
    # items() pairs times[i] with frame i
    f = ix.func(BASE, "StorageBase.items")
    rep.saw("functions", f.ref)
    ny = 0
    for y in ast.walk(f.node):
        if isinstance(y, ast.Yield):
            ny += 1
            v = y.value
            ok = False
            if isinstance(v, ast.Tuple) and len(v.elts) == 2:
                t, fr = v.elts
                if isinstance(t, ast.Subscript) and chain_str(t.value) == "self.times":
                    if isinstance(fr, ast.Subscript) and chain_str(fr.value) == "self":
                        ok = same_expr(t.slice, fr.slice)
                    elif is_self_call(fr) == "_get_field" and len(fr.args) == 1:
                        ok = same_expr(t.slice, fr.args[0])
            rep.oblige(f"items:pairing:{ny}", ok, ast.unparse(v) if v is not None else None)
            if not ok:
                rep.violation("C20.items-pairing", f"{f.ref}::yield", f"items() yields `{ast.unparse(v) if v is not None else None}`: time stamp and frame are not taken at the same index", line=y.lineno)
    rep.floor("yield sites of StorageBase.items", ny, 1)



def check_range_defaults(rep: Report, ix) -> None:
    """extract_time_range: a bound that was given is used as given; the stored range may stand in for `None` only -- a
    truthiness test (`t_start or self.times[0]`) also replaces the legitimate bound 0"""
    f = ix.func(BASE, "StorageBase.extract_time_range")
    rep.saw("functions", f.ref)
    names = set()
    for st in ast.walk(f.node):
        if isinstance(st, ast.Assign) and isinstance(st.targets[0], ast.Tuple) and len(st.targets[0].elts) == 2 and all(isinstance(x, ast.Name) for x in st.targets[0].elts):
            names |= {x.id for x in st.targets[0].elts}
    bounds = {n for n in names if n.startswith("t_")}
    if len(bounds) != 2:
        raise AnalysisError(f"{f.ref}: the two time bounds were not found (candidates {sorted(names)})")
    bad = []
    for x in ast.walk(f.node):
        if isinstance(x, ast.BoolOp) and any(isinstance(v, ast.Name) and v.id in bounds for v in x.values):
            bad.append((ast.unparse(x)[:60], x.lineno))
        if isinstance(x, (ast.If, ast.IfExp)):
            t = x.test
            tt = t.operand if isinstance(t, ast.UnaryOp) and isinstance(t.op, ast.Not) else t
            if isinstance(tt, ast.Name) and tt.id in bounds:
                bad.append((f"if {ast.unparse(t)}", x.lineno))
    none_tests = [x for x in ast.walk(f.node) if isinstance(x, ast.Compare) and isinstance(x.left, ast.Name) and x.left.id in bounds and isinstance(x.ops[0], (ast.Is, ast.IsNot)) and isinstance(x.comparators[0], ast.Constant) and x.comparators[0].value is None]
    rep.oblige("extract_time_range: defaults replace None only", not bad and len(none_tests) >= 2, bad or len(none_tests))
    for src, line in bad[:1]:
        rep.violation(
            "C20.range-default",
            f"{f.ref}::bound-default",
            f"a time bound is replaced by the stored range according to its truth value (`{src}`): the bound 0 (falsy) is treated as not given, so the extracted storage holds frames outside the requested range",
            line=line,
        )
    if not bad and len(none_tests) < 2:
        raise AnalysisError(f"{f.ref}: defaulting idiom of the time bounds not recognised")


# ------------------------------------------------------------------------- entry
def check(tier: str) -> Report:
    rep = Report("C20", tier, "other", "alias typing (FRESH/VIEW) + paired-update rule over structured paths + write-mode table extraction")
    rep.explanation = (
        "pde/storage/memory.py and pde/storage/base.py are parsed (never imported). (1) Every structured path of every method of "
        "MemoryStorage and StorageBase is enumerated; on each path (also the raising ones) the structural mutations of self.times and "
        "self.data must be the same sequence. (2) The value appended by _append_data is classified FRESH/VIEW through its local "
        "definitions; it must be a fresh copy derived from the data parameter. (3) _get_field must return self._field.copy() filled by "
        "value assignment from self.data[t_index]; the data setter of fields must store by value. (4) start_writing is followed under "
        "each value of self.write_mode with super().start_writing spliced in; the extracted (clears, final mode, raise) table must equal "
        "the documented one and readonly must raise before any write to self. (5) extract_field copies frames and pairs all times with "
        "all frames; extract_time_range applies the same index expression to both lists; clear empties both; the constructor checks lengths."
    )
    ix = get_index()
    mem = ix.cls(MEM, "MemoryStorage")
    base = ix.cls(BASE, "StorageBase")
    if base not in mem.mro():
        raise AnalysisError("MemoryStorage no longer derives from StorageBase")
    fbase = ix.cls(FBASE, "FieldBase")
    clf = Classifier(ix, field_base=fbase)
    rep.saw("classes", mem.ref)
    rep.saw("classes", base.ref)

    check_append(rep, ix, clf)
    check_lockstep(rep, ix, mem, clf)
    check_get_field(rep, ix, clf)
    check_mode_table(rep, ix, mem, clf)
    check_clear(rep, ix, clf)
    check_init(rep, ix, clf)
    check_derived(rep, ix, mem, clf)
    check_range_defaults(rep, ix)

    if clf.unresolved:
        rep.note("calls whose result is not classified (UNKNOWN, never accepted as FRESH): " + ", ".join(sorted(clf.unresolved)))
    rep.trusted[:] = ["CPython ast", "numpy: np.array(x) / copy=True / .copy() / np.copy allocate; basic indexing, asarray, reshape share memory"]
    rep.assumptions += [
        "loops are followed zero times and once (the paired-update rule is per iteration)",
        "exceptions other than explicit `raise` statements are not modelled (an exception thrown by np.array between the two appends is out of scope)",
        "MemoryStorage.from_fields and extract_time_range keep references to the given arrays by design (outside the statement)",
        "`self.clear()` in start_writing resolves to MemoryStorage.clear, which is checked separately to empty both lists and not to touch write_mode",
    ]
    # clear must not change the write mode (used by the table above)
    for c in mem.mro():
        for f in c.methods.get("clear", []):
            for n in ast.walk(f.node):
                if isinstance(n, ast.Attribute) and isinstance(n.ctx, ast.Store) and n.attr == "write_mode":
                    rep.violation("C20.mode-table", f"{f.ref}::write_mode", "clear() changes the write mode", line=n.lineno)
    thorough_selftest(rep)
    return rep

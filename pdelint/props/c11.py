"""C11 -- compiling an expression preserves its meaning: NARROW structural clauses only.

The value of a compiled expression is produced at run time by sympy (``parse_expr``,
``simplify``, the code printer, ``lambdify``) and by numba; no static analysis of the
repository can bound it.  This check therefore does NOT decide the behaviour "the
compiled function evaluates to the written formula".  It decides structural necessary
conditions that live in the shape of the repository's own code:

(1) numpy and numba ``make_expression_function`` are siblings: same printer base class,
    same printer settings, same set of overridden printer methods, the custom printer is
    the one handed to ``lambdify``, same layering of user functions (later layer wins),
    same ``modules`` list (user namespace first), same handling of ``single_arg``;
(2) constants reach ``lambdify`` and the call in the same order (``variables + constants``
    <-> ``func(*args, *const_values)``, both built from one iteration order of one dict);
(3) every ``SPECIAL_FUNCTIONS`` key is known to the printer *and* present in the namespace,
    its implementation is the library function of that meaning and has the arity sympy
    prints; names emitted by the custom printer methods exist in the namespace, elements
    are emitted in order; the numba wrapper of namespace functions keeps the arity;
(4) ``differentiate`` / ``derivatives`` differentiate w.r.t. the requested symbol(s), in
    ``self.vars`` order, and the result keeps signature / user_funcs / consts; the copy
    constructors keep the signature;
(5) ``from_expression`` of Scalar/Vector/Tensor fields: signature ``grid.axes`` <-> coordinate
    arrays in axis order, components written in the order they are read;
(7) symbolic rewriting between the parsed text and the printed code is domain-safe: no sympy
    rewriting entry point is called with an option that drops domain checks (``inverse=True``,
    ``force=True``), no ``posify`` / ``nsimplify`` / ``refine``, and variables are created without
    assumptions (the compiled function is called with arbitrary numbers);
(6) ``_check_signature`` / alias tables: the first item of an alias list is the canonical
    name, aliases are renamed *to* it, alias tables map every alias to an axis of the class.

Everything is read from the syntax tree: a small abstract interpreter over the body of
``make_expression_function`` (branches only on the configuration constants
``single_arg`` / ``user_funcs is None`` / "has constants"), reaching definitions
(``cfg.resolve_expr``) for the other clauses, and small extracted tables.
"""

from __future__ import annotations

import ast
import unicodedata
from dataclasses import dataclass

import sympy as sp

from ..cfg import build_cfg, def_value, resolve_expr
from ..core import AnalysisError, Report
from ..index import FuncInfo, dotted, get_index, strip_doc

EXPR = "pde/tools/expressions.py"
NP = "pde/backends/numpy/backend.py"
NB = "pde/backends/numba/backend.py"
COORD_BASE = "pde/grids/coordinates/base.py"
MEF = "make_expression_function"

# mandatory siblings (the property statement names exactly these two routes) and optional
# ones (analysed for the backend-independent clauses only when the file is present)
BACKENDS = {"numpy": (NP, "NumpyBackend"), "numba": (NB, "NumbaBackend")}
OPTIONAL_BACKENDS = {"jax": ("pde/backends/jax/backend.py", "JaxBackend"), "torch": ("pde/backends/torch/backend.py", "TorchBackend")}

# trusted base: documented meaning and arity of library functions that may implement a
# special function (library dotted name -> (mathematical function it computes, arity))
LIB_MEANING = {
    "numpy.heaviside": ("Heaviside", 2),
    "numpy.hypot": ("hypot", 2),
    "scipy.special.erf": ("erf", 1),
    "math.erf": ("erf", 1),
    "scipy.special.erfc": ("erfc", 1),
    "math.erfc": ("erfc", 1),
    "scipy.special.gamma": ("gamma", 1),
    "scipy.special.loggamma": ("loggamma", 1),
}
# callables that return their argument as a callable of the same signature (trusted)
WRAPPERS = ("compile_function", "register_jitable", "jit", "njit")
IGNORED_CALLS = ("self._logger.", "logging.", "warnings.warn", "builtins.print", "_base_logger.")
DICT_METHODS = ("copy", "update", "items", "keys", "values")
SYMBOL_CTORS = {"Symbol", "symbols", "parse_expr", "_prepare_expression", "str", "sympify", "Dummy"}


def _grammar(fi: FuncInfo | str, node: ast.AST | None, what: str) -> AnalysisError:
    ref = fi if isinstance(fi, str) else fi.ref
    ln = getattr(node, "lineno", "?")
    return AnalysisError(f"C11: {ref} (line {ln}): {what} -- outside the grammar this rule understands")


def _leaf(f: ast.AST) -> str:
    if isinstance(f, ast.Attribute):
        return f.attr
    if isinstance(f, ast.Name):
        return f.id
    return ""


# ============================================================================
# Part A -- abstract interpreter for ``make_expression_function``
# ============================================================================
@dataclass(frozen=True)
class Sym:  # opaque reference: parameter attribute, imported object, builtin
    path: str


@dataclass(frozen=True)
class Const:
    value: object


@dataclass(frozen=True)
class CfgBool:
    name: str
    value: bool


@dataclass(frozen=True)
class Iter:  # the items of container `src` (keys for a dict) in order `order`
    src: str
    order: str  # decl | reversed | sorted | sorted-reversed


@dataclass(frozen=True)
class Vals:  # the values src[k] for k running along `along`
    src: str
    along: Iter
    maps: tuple = ()


@dataclass(frozen=True)
class Tup:
    items: tuple


@dataclass(frozen=True)
class Star:
    value: object


@dataclass(frozen=True)
class Cat:
    parts: tuple


@dataclass(frozen=True)
class Opaque:
    what: str


@dataclass(frozen=True)
class VarArg:  # the *args of the returned closure: what the caller supplies
    name: str


@dataclass(eq=False)
class Layers:  # a dict built by layering sources; later layers win
    layers: list
    fresh: bool
    maps: list

    def snap(self) -> "Snap":
        return Snap(tuple(self.layers), self.fresh, tuple(self.maps))


@dataclass(frozen=True)
class Snap:
    layers: tuple
    fresh: bool
    maps: tuple

    def describe(self) -> str:
        s = " < ".join(self.layers)
        return s + ("" if self.fresh else "  [aliases the first layer]")


@dataclass(frozen=True)
class IdMap:  # {k: k for k in <dict>}: every key printed as itself
    over: Snap


@dataclass(eq=False)
class DictLit:
    items: dict


@dataclass(eq=False)
class ClassV:
    node: ast.ClassDef
    bases: tuple


@dataclass(eq=False)
class Inst:
    cls: ClassV
    args: tuple
    kwargs: dict


@dataclass(eq=False)
class Lamb:  # result of sympy.lambdify
    sig: object
    expr: object
    modules: object
    printer: object
    node: ast.Call


@dataclass(eq=False)
class Wrapped:
    inner: object
    by: str


@dataclass(eq=False)
class Clos:
    node: ast.FunctionDef


@dataclass(frozen=True)
class Bound:
    obj: object
    attr: str


@dataclass(frozen=True)
class View:
    obj: object
    kind: str


def _flip(order: str) -> str:
    return {"decl": "reversed", "reversed": "decl", "sorted": "sorted-reversed", "sorted-reversed": "sorted"}.get(order, order + "-reversed")


class MefInterp:
    """Executes the body of one ``make_expression_function`` in the abstract domain above
    under one configuration (single_arg, user_funcs given?, constants present?)."""

    def __init__(self, ix, fi: FuncInfo, cfg: dict):
        self.ix = ix
        self.fi = fi
        self.cfg = cfg
        self.env: dict[str, object] = {}
        self.promoted: dict[str, Layers] = {}
        self.ret = None
        self.lambs: list[Lamb] = []
        self.classes: list[ClassV] = []
        a = fi.node.args
        pos = [p.arg for p in a.posonlyargs + a.args]
        if len(pos) < 2:
            raise _grammar(fi, fi.node, "expected parameters (self, expression, ...)")
        self.env[pos[0]] = Sym("self")
        self.env[pos[1]] = Sym("expression")
        names = pos[2:] + [p.arg for p in a.kwonlyargs]
        if "single_arg" not in names or "user_funcs" not in names:
            raise _grammar(fi, fi.node, "parameters `single_arg` / `user_funcs` not found")
        self.env["single_arg"] = CfgBool("single_arg", cfg["single_arg"])
        self.env["user_funcs"] = Sym("user_funcs")
        for n in names:
            self.env.setdefault(n, Sym(n))

    # ------------------------------------------------------------------ names
    def _import(self, st: ast.stmt) -> None:
        m = self.fi.module
        if isinstance(st, ast.Import):
            for al in st.names:
                self.env[al.asname or al.name.split(".")[0]] = Sym(al.name if al.asname else al.name.split(".")[0])
            return
        parts = m.modname.split(".")
        pkg = parts if m.path.name == "__init__.py" else parts[:-1]
        if st.level:
            base = pkg[: len(pkg) - (st.level - 1)]
            mod = ".".join(base + ([st.module] if st.module else []))
        else:
            mod = st.module or ""
        for al in st.names:
            self.env[al.asname or al.name] = Sym(f"{mod}.{al.name}")

    def name(self, n: ast.Name):
        if n.id in self.env:
            v = self.env[n.id]
            if isinstance(v, Sym) and v.path in self.promoted:
                return self.promoted[v.path]
            return v
        m = self.fi.module
        if n.id in m.imports:
            return Sym(m.imports[n.id])
        if n.id in m.functions or n.id in m.classes or n.id in m.assigns:
            return Sym(f"{m.modname}.{n.id}")
        return Sym(f"builtins.{n.id}")

    # ------------------------------------------------------------------ decisions
    def decide(self, test: ast.expr) -> bool:
        if isinstance(test, ast.UnaryOp) and isinstance(test.op, ast.Not):
            return not self.decide(test.operand)
        if isinstance(test, ast.Compare) and len(test.ops) == 1:
            left, op, right = test.left, test.ops[0], test.comparators[0]
            if isinstance(right, ast.Constant) and right.value is None and isinstance(op, (ast.Is, ast.IsNot)):
                v = self.ev(left)
                if v == Sym("user_funcs"):
                    given = self.cfg["user_funcs_given"]
                    return given if isinstance(op, ast.IsNot) else not given
            if isinstance(left, ast.Call) and _leaf(left.func) == "len" and len(left.args) == 1 and isinstance(right, ast.Constant) and right.value == 0:
                v = self.ev(left.args[0])
                if self._is_consts(v):
                    if isinstance(op, (ast.Gt, ast.NotEq)):
                        return self.cfg["has_consts"]
                    if isinstance(op, ast.Eq):
                        return not self.cfg["has_consts"]
        else:
            v = self.ev(test)
            if isinstance(v, CfgBool):
                return v.value
            if self._is_consts(v):
                return self.cfg["has_consts"]
        raise _grammar(self.fi, test, f"branch on `{ast.unparse(test)}` is not a configuration constant")

    @staticmethod
    def _is_consts(v) -> bool:
        return (isinstance(v, (Iter, Vals)) and v.src == "expression.consts") or v == Sym("expression.consts")

    # ------------------------------------------------------------------ expressions
    def ev(self, e: ast.expr):
        if isinstance(e, ast.Constant):
            return Const(e.value)
        if isinstance(e, ast.Name):
            return self.name(e)
        if isinstance(e, ast.Attribute):
            base = self.ev(e.value)
            if isinstance(base, Sym):
                full = f"{base.path}.{e.attr}"
                if full in self.promoted:
                    return self.promoted[full]
                if e.attr in DICT_METHODS:
                    return Bound(base, e.attr)
                return Sym(full)
            if isinstance(base, Layers):
                return Bound(base, e.attr)
            return Opaque(f"{self._d(base)}.{e.attr}")
        if isinstance(e, ast.IfExp):
            return self.ev(e.body if self.decide(e.test) else e.orelse)
        if isinstance(e, (ast.Tuple, ast.List)):
            return Tup(tuple(Star(self.ev(x.value)) if isinstance(x, ast.Starred) else self.ev(x) for x in e.elts))
        if isinstance(e, ast.BinOp) and isinstance(e.op, ast.Add):
            parts = []
            for side in (self.ev(e.left), self.ev(e.right)):
                parts.extend(side.parts if isinstance(side, Cat) else [side])
            return Cat(tuple(parts))
        if isinstance(e, ast.Dict):
            items = {}
            for k, v in zip(e.keys, e.values):
                if not (isinstance(k, ast.Constant) and isinstance(k.value, str)):
                    raise _grammar(self.fi, e, "dict literal with a non-literal key")
                items[k.value] = self.ev(v)
            return DictLit(items)
        if isinstance(e, ast.DictComp):
            return self._dictcomp(e)
        if isinstance(e, (ast.GeneratorExp, ast.ListComp)):
            return self._gen(e)
        if isinstance(e, ast.Call):
            return self._call(e)
        if isinstance(e, ast.Lambda):
            return Opaque("lambda")
        if isinstance(e, ast.JoinedStr):
            return Opaque("f-string")
        if isinstance(e, ast.Subscript):
            return Opaque(f"{self._d(self.ev(e.value))}[...]")
        raise _grammar(self.fi, e, f"expression `{ast.unparse(e)}`")

    @staticmethod
    def _d(v) -> str:
        if isinstance(v, Sym):
            return v.path
        if isinstance(v, Opaque):
            return v.what
        return type(v).__name__

    def _as_iter(self, v):
        """iteration order of an abstract value, or None"""
        if isinstance(v, Iter):
            return v
        if isinstance(v, Sym):
            return Iter(v.path, "decl")
        if isinstance(v, View) and v.kind == "keys" and isinstance(v.obj, Sym):
            return Iter(v.obj.path, "decl")
        return None

    def _gen(self, e):
        if len(e.generators) != 1 or e.generators[0].ifs or not isinstance(e.generators[0].target, ast.Name):
            raise _grammar(self.fi, e, "comprehension with several generators / filters")
        g = e.generators[0]
        it = self._as_iter(self.ev(g.iter))
        if it is None:
            raise _grammar(self.fi, e, f"comprehension over `{ast.unparse(g.iter)}`")
        tgt = g.target.id
        elt, maps = e.elt, []
        while isinstance(elt, ast.Call) and len(elt.args) == 1 and not elt.keywords:
            maps.append(dotted(elt.func))
            elt = elt.args[0]
        if isinstance(elt, ast.Name) and elt.id == tgt and not maps:
            return it
        if isinstance(elt, ast.Subscript) and isinstance(elt.slice, ast.Name) and elt.slice.id == tgt:
            d = self.ev(elt.value)
            if isinstance(d, Sym):
                return Vals(d.path, it, tuple(maps))
        raise _grammar(self.fi, e, f"comprehension element `{ast.unparse(e.elt)}`")

    def _dictcomp(self, e: ast.DictComp):
        if len(e.generators) != 1 or e.generators[0].ifs:
            raise _grammar(self.fi, e, "dict comprehension with several generators / filters")
        g = e.generators[0]
        src = self.ev(g.iter)
        if isinstance(g.target, ast.Name):  # {k: k for k in D}
            if isinstance(src, Sym):
                src = Layers([src.path], False, [])
            if isinstance(src, Layers) and isinstance(e.key, ast.Name) and e.key.id == g.target.id:
                if isinstance(e.value, ast.Name) and e.value.id == g.target.id:
                    return IdMap(src.snap())
                return Opaque(f"name map `{ast.unparse(e)}` is not the identity")
            raise _grammar(self.fi, e, "dict comprehension")
        if isinstance(g.target, ast.Tuple) and len(g.target.elts) == 2 and all(isinstance(x, ast.Name) for x in g.target.elts):
            k, v = (x.id for x in g.target.elts)
            if isinstance(src, View) and src.kind == "items" and isinstance(e.key, ast.Name) and e.key.id == k:
                base = src.obj if isinstance(src.obj, Layers) else Layers([src.obj.path], False, [])
                if isinstance(e.value, ast.Name) and e.value.id == v:
                    return Layers(list(base.layers), True, list(base.maps))
                if isinstance(e.value, ast.Call) and any(isinstance(a, ast.Name) and a.id == v for a in e.value.args):
                    f = e.value.func
                    fv = self.ev(f) if isinstance(f, (ast.Name, ast.Attribute)) else None
                    tag = f"closure:{fv.node.name}" if isinstance(fv, Clos) else dotted(f)
                    return Layers(list(base.layers), True, [*base.maps, tag])
        raise _grammar(self.fi, e, f"dict comprehension `{ast.unparse(e)}`")

    def _promote(self, s: Sym) -> Layers:
        """a foreign dict that is mutated in place: model it as an aliased layer stack"""
        if s.path not in self.promoted:
            self.promoted[s.path] = Layers([s.path], False, [])
        return self.promoted[s.path]

    def _call(self, e: ast.Call):
        f = self.ev(e.func)
        kw = {k.arg: k.value for k in e.keywords if k.arg}
        if isinstance(f, Bound):
            obj = f.obj
            if f.attr == "copy" and not e.args:
                if isinstance(obj, Sym):
                    return Layers([obj.path], True, [])
                return Layers(list(obj.layers), True, list(obj.maps))
            if f.attr == "update" and len(e.args) == 1:
                if isinstance(obj, Sym):
                    obj = self._promote(obj)
                a = self.ev(e.args[0])
                if isinstance(a, Sym):
                    obj.layers.append(a.path)
                elif isinstance(a, Layers):
                    obj.layers.extend(a.layers)
                elif isinstance(a, DictLit):
                    obj.layers.append("{" + ",".join(sorted(a.items)) + "}")
                else:
                    raise _grammar(self.fi, e, "update() with an argument that is not a named dict")
                return Const(None)
            if f.attr in ("items", "keys", "values") and not e.args:
                return View(obj, f.attr)
            raise _grammar(self.fi, e, f"method `{f.attr}` on a layered dict")
        if isinstance(f, ClassV):
            return Inst(f, tuple(self.ev(a) for a in e.args), {k: self.ev(v) for k, v in kw.items()})
        if isinstance(f, Clos):
            return Opaque(f"{f.node.name}(...)")
        if isinstance(f, Sym):
            p = f.path
            if any(p.startswith(x) or p == x for x in IGNORED_CALLS):
                return Const(None)
            if p in ("builtins.tuple", "builtins.list") and len(e.args) == 1:
                a = self.ev(e.args[0])
                if isinstance(a, (Iter, Vals, Tup)):
                    return a
                if isinstance(a, View) and a.kind == "values" and isinstance(a.obj, Sym):
                    return Vals(a.obj.path, Iter(a.obj.path, "decl"))
                it = self._as_iter(a)
                if it is not None:
                    return it
                raise _grammar(self.fi, e, f"`{ast.unparse(e)}`")
            if p == "builtins.sorted" and len(e.args) == 1:
                it = self._as_iter(self.ev(e.args[0]))
                if it is None:
                    raise _grammar(self.fi, e, f"`{ast.unparse(e)}`")
                rev = kw.get("reverse")
                if "key" in kw or (rev is not None and not isinstance(rev, ast.Constant)):
                    return Iter(it.src, f"sorted-by({ast.unparse(e)})")
                return Iter(it.src, "sorted-reversed" if rev is not None and rev.value else "sorted")
            if p == "builtins.reversed" and len(e.args) == 1:
                a = self.ev(e.args[0])
                if isinstance(a, Vals):
                    return Vals(a.src, Iter(a.along.src, _flip(a.along.order)), a.maps)
                it = self._as_iter(a)
                if it is None:
                    raise _grammar(self.fi, e, f"`{ast.unparse(e)}`")
                return Iter(it.src, _flip(it.order))
            if p == "builtins.dict" and len(e.args) == 1 and not kw:
                a = self.ev(e.args[0])
                if isinstance(a, Sym):
                    return Layers([a.path], True, [])
                if isinstance(a, Layers):
                    return Layers(list(a.layers), True, list(a.maps))
            if p.split(".")[0] == "sympy" and p.endswith(".lambdify"):
                return self._lambdify(e, kw)
            if p.split(".")[-1] in WRAPPERS and e.args:
                inner = self.ev(e.args[0])
                if isinstance(inner, (Lamb, Wrapped, Clos)):
                    return Wrapped(inner, p)
                return Opaque(f"{p}(...)")
            return Opaque(f"{p}(...)")
        raise _grammar(self.fi, e, f"call `{ast.unparse(e)[:80]}`")

    def _lambdify(self, e: ast.Call, kw: dict):
        names = ["args", "expr", "modules", "printer"]
        got = dict(zip(names, e.args))
        for k, v in kw.items():
            got[k] = v
        if "args" not in got or "expr" not in got:
            raise _grammar(self.fi, e, "lambdify without (args, expr)")

        def val(k):
            if k not in got:
                return None
            v = self.ev(got[k])

            def freeze(x):
                if isinstance(x, Layers):
                    return x.snap()
                if isinstance(x, Tup):
                    return Tup(tuple(freeze(i) for i in x.items))
                return x

            return freeze(v)

        lam = Lamb(val("args"), val("expr"), val("modules"), val("printer"), e)
        self.lambs.append(lam)
        return lam

    # ------------------------------------------------------------------ statements
    def run(self) -> None:
        self.block(strip_doc(self.fi.node.body))

    def block(self, body) -> bool:
        """returns True when a ``return`` was executed"""
        for st in body:
            if isinstance(st, ast.Expr):
                if isinstance(st.value, ast.Constant):
                    continue
                self.ev(st.value)
            elif isinstance(st, (ast.Import, ast.ImportFrom)):
                self._import(st)
            elif isinstance(st, ast.Assign) and len(st.targets) == 1 and isinstance(st.targets[0], ast.Name):
                self.env[st.targets[0].id] = self.ev(st.value)
            elif isinstance(st, ast.AnnAssign) and isinstance(st.target, ast.Name):
                if st.value is not None:
                    self.env[st.target.id] = self.ev(st.value)
            elif isinstance(st, ast.If):
                if self.block(st.body if self.decide(st.test) else st.orelse):
                    return True
            elif isinstance(st, ast.FunctionDef):
                self.env[st.name] = Clos(st)
            elif isinstance(st, ast.ClassDef):
                cv = ClassV(st, tuple(self._d(self.ev(b)) for b in st.bases))
                self.classes.append(cv)
                self.env[st.name] = cv
            elif isinstance(st, ast.Return):
                self.ret = self.ev(st.value) if st.value is not None else Const(None)
                return True
            elif isinstance(st, (ast.Pass, ast.Assert)):
                continue
            else:
                raise _grammar(self.fi, st, f"statement `{type(st).__name__}`")
        return False

    # ------------------------------------------------------------------ results
    def call_convention(self):
        """(Lamb finally called, list of argument tokens) for the returned callable"""
        v = self.ret
        while isinstance(v, Wrapped):
            v = v.inner
        if isinstance(v, Lamb):
            return v, None  # the lambdified function is returned itself
        if not isinstance(v, Clos):
            raise _grammar(self.fi, self.fi.node, f"returned value is {self._d(v)}, not a lambdified function or a closure around it")
        a = v.node.args
        if a.posonlyargs or a.args or a.kwonlyargs or a.kwarg or a.vararg is None:
            raise _grammar(self.fi, v.node, "returned closure must take exactly `*args`")
        saved = dict(self.env)
        self.env[a.vararg.arg] = VarArg(a.vararg.arg)
        try:
            body = strip_doc(v.node.body)
            if len(body) != 1 or not isinstance(body[0], ast.Return) or not isinstance(body[0].value, ast.Call):
                raise _grammar(self.fi, v.node, "returned closure must be a single `return f(...)`")
            call = body[0].value
            tgt = self.ev(call.func)
            while isinstance(tgt, Wrapped):
                tgt = tgt.inner
            if not isinstance(tgt, Lamb):
                raise _grammar(self.fi, call, "returned closure does not call the lambdified function")
            if call.keywords:
                raise _grammar(self.fi, call, "keyword arguments in the call of the lambdified function")
            parts = [Star(self.ev(x.value)) if isinstance(x, ast.Starred) else self.ev(x) for x in call.args]
            return tgt, parts
        finally:
            self.env = saved


# ----------------------------------------------------------------------------
# rules over the interpreted rows
# ----------------------------------------------------------------------------
def _ob(rep: Report, rule: str, ref: str, role: str, ok: bool, msg: str, line=None, tag: str = "", **data) -> bool:
    """one obligation; a failed one is a violation keyed rule:file::qualname::role"""
    rep.oblige(f"{rule}:{ref}::{role}{tag}", ok, None if ok else msg)
    if not ok:
        rep.violation(f"C11.{rule}", f"{ref}::{role}", msg, line=line, **data)
    return ok


def _sig_tokens(fi, v) -> list:
    """parameter list handed to lambdify as tokens"""
    if isinstance(v, Cat):
        out = []
        for p in v.parts:
            out.extend(_sig_tokens(fi, p))
        return out
    if isinstance(v, Tup):
        out = []
        for it in v.items:
            if isinstance(it, Star):
                out.extend(_sig_tokens(fi, it.value))
            elif isinstance(it, Sym):
                out.append(("one", it.path))
            else:
                raise _grammar(fi, None, f"lambdify parameter `{it}`")
        return out
    if isinstance(v, Iter):
        return [("each", v.src, v.order)]
    if isinstance(v, Sym):
        return [("each", v.path, "decl")]
    raise _grammar(fi, None, f"lambdify parameter list `{v}`")


def _call_tokens(fi, parts) -> list:
    out = []
    for p in parts:
        if isinstance(p, Star) and isinstance(p.value, VarArg):
            out.append(("user",))
        elif isinstance(p, Star) and isinstance(p.value, Vals):
            v = p.value
            out.append(("each", v.src, v.along.order) if v.along.src == v.src else ("values-of", v.src, "along", v.along.src, v.along.order))
        elif isinstance(p, Star) and isinstance(p.value, Iter):
            out.append(("keys-not-values", p.value.src, p.value.order))
        else:
            raise _grammar(fi, None, f"argument `{p}` in the call of the lambdified function")
    return out


def _collapse(tokens: list) -> list:
    """variables part -> ('user',) (whatever the caller passes), constants part kept"""
    out = []
    for t in tokens:
        u = ("user",) if (t[0] in ("one", "each") and t[1] == "expression.vars") or t == ("user",) else t
        if u == ("user",) and out and out[-1] == ("user",):
            continue
        out.append(u)
    return out


def _printer_emission(fi: FuncInfo, cls: ast.ClassDef, meth: ast.FunctionDef, shape: tuple = (3,)):
    """Interpret a ``_print_<Array>(self, arr)`` method (pdelint/npsem.py, python semantics of the
    string building) on an array stand-in of the given shape whose elements print as E0, E1, ...
    (row-major); nested arrays are printed through the same method, as sympy's printer dispatch
    does.  Returns the emitted code template (a string) and the number of elements."""
    from .. import npsem as ns

    a = meth.args
    if len(a.args) != 2:
        raise _grammar(fi, meth, "printer method must take (self, arr)")
    import itertools as _it

    import numpy as _np

    names = _np.empty(shape, dtype=object)
    for k, idx in enumerate(_it.product(*[range(n) for n in shape])):
        names[idx] = f"E{k}"
    sem = ns.NpSem(where=f"{fi.ref}::{cls.name}.{meth.name}")

    def elem(nm):
        return ns.Stub(nm, __str__=lambda nm=nm: nm, __kind__=("Expr",))

    def arr_stub(view):
        if view.ndim == 0:
            return elem(view[()])

        def getitem(key):
            try:
                sub = view[key]
            except (IndexError, TypeError) as e:
                raise ns.Raised(f"IndexError: {e}") from None
            return arr_stub(sub) if isinstance(sub, _np.ndarray) else elem(sub)

        return ns.Stub(
            f"array{view.shape}",
            shape=tuple(view.shape),
            rank=lambda: view.ndim,
            __iter__=lambda: [getitem(i) for i in range(view.shape[0])],
            __getitem__=getitem,
            __len__=lambda: int(view.size),
            __kind__=("ImmutableDenseNDimArray", "NDimArray"),
        )

    scope = ns.Scope({"np": ns.NP, "sympy": ns.Opaque("sympy")})

    def do_print(x):
        if isinstance(x, ns.Stub) and "shape" in x._attrs:
            return sem.run_function(meth, {}, (self_stub, x), outer=scope)
        if isinstance(x, ns.Stub) and "__str__" in x._attrs:
            return x._attrs["__str__"]()
        if isinstance(x, (int, str)):
            return str(x)
        raise _grammar(fi, meth, f"printer method prints `{x!r}`")

    self_stub = ns.Stub("printer", _print=do_print, doprint=do_print)
    try:
        out = do_print(arr_stub(names))
    except ns.Raised as e:
        raise _grammar(fi, meth, f"printer method raises on an array of shape {shape}: {e.what}") from None
    except ns.Unsupported as e:
        raise _grammar(fi, meth, str(e)) from None
    if not isinstance(out, str):
        raise _grammar(fi, meth, "printer method does not return a string")
    return out, int(names.size)


def _emitted_value(fi: FuncInfo, role: str, tmpl: str, shape: tuple, arrays: set):
    """Interpret the emitted code (second stage): elements listed in ``arrays`` are 1-d arrays of
    three distinct symbols, the others scalars.  Returns (value | None, expected, problem)."""
    import itertools as _it

    import numpy as _np
    import sympy as _sp

    from .. import npsem as ns

    n = int(_np.prod(shape))
    env = {}
    for k in range(n):
        env[f"E{k}"] = ns.sym_array(f"e{k}", (3,)) if k in arrays else _sp.Symbol(f"e{k}")
    for nm, fn in ns.NP_FUNCS.items():
        env[nm] = fn
    exp = _np.empty(shape + ((3,) if arrays else ()), dtype=object)
    for k, idx in enumerate(_it.product(*[range(m) for m in shape])):
        if arrays:
            exp[idx] = env[f"E{k}"] if k in arrays else _np.array([env[f"E{k}"]] * 3, dtype=object)
        else:
            exp[idx] = env[f"E{k}"]
    sem = ns.NpSem(where=f"{fi.ref}::{role} (emitted code)")
    try:
        val = sem.eval(ast.parse(tmpl, mode="eval").body, ns.Scope(env))
    except ns.Raised as e:
        return None, exp, f"the emitted code raises `{e.what}`"
    except ns.Unsupported as e:
        raise AnalysisError(f"C11: {fi.ref}::{role}: emitted code `{tmpl}` is outside the modelled numpy subset: {e}") from None
    if isinstance(val, list):
        try:
            val = ns._np_array(val)
        except ns.Raised as e:
            return None, exp, f"the emitted nested list is ragged: {e.what}"
    diff = ns.arrays_equal(val, exp)
    if diff:
        if diff[0][0] == "shape":
            return val, exp, f"the emitted code gives an array of shape {diff[0][1]}, expected {diff[0][2]} (tensor shape first, then the common broadcast shape)"
        idx, got, want = diff[0]
        return val, exp, f"entry {tuple(idx)} is `{got}`, expected `{want}`"
    return val, exp, None


BOOLEAN_PRINTERS = {"_print_And": "And", "_print_Or": "Or", "_print_Not": "Not", "_print_Xor": "Xor"}


def _check_boolean_printer(rep: Report, fi: FuncInfo, cls: ast.ClassDef, meth: ast.FunctionDef, ref: str) -> None:
    """printer methods for logical connectives: sympy's And / Or are variadic (nested conjunctions are flattened), while the
    numpy ufuncs logical_and / logical_or take exactly two inputs (a third positional argument is `out`).  The method is
    interpreted on nodes with 2, 3 and 4 operands (1 for Not); the emitted code is then interpreted on boolean symbols with
    those numpy semantics and must be equivalent to the connective of all operands."""
    import sympy as _sp

    from .. import npsem as ns

    kind = BOOLEAN_PRINTERS[meth.name]
    role = f"{cls.name}.{meth.name}"
    for n_ops in ((1,) if kind == "Not" else (2, 3, 4)):
        ops = [ns.Stub(f"E{k}", __str__=lambda k=k: f"E{k}", __kind__=("Boolean",)) for k in range(n_ops)]
        node = ns.Stub(kind, args=tuple(ops), __kind__=(kind, "BooleanFunction"))
        sem = ns.NpSem(where=f"{fi.ref}::{role}")

        def do_print(x):
            if isinstance(x, ns.Stub) and "__str__" in x._attrs:
                return x._attrs["__str__"]()
            raise _grammar(fi, meth, f"printer method prints `{x!r}`")

        self_stub = ns.Stub("printer", _print=do_print, doprint=do_print)
        try:
            code = sem.run_function(meth, {}, (self_stub, node), outer=ns.Scope({"np": ns.NP}))
        except ns.Raised as e:
            raise _grammar(fi, meth, f"printer method raises on {kind} with {n_ops} operands: {e.what}") from None
        except ns.Unsupported as e:
            raise _grammar(fi, meth, str(e)) from None
        if not isinstance(code, str):
            raise _grammar(fi, meth, "printer method does not return a string")
        E = [_sp.Symbol(f"E{k}") for k in range(n_ops)]

        def binary(name, f2):
            def g(*a, **kw):
                if len(a) != 2 or kw:
                    raise ns.Raised(f"TypeError: {name}() takes two inputs; a third positional argument is `out` (got {len(a)} positional arguments)")
                return f2(a[0], a[1])

            return g

        env = {f"E{k}": E[k] for k in range(n_ops)}
        env.update(
            {
                "logical_and": binary("logical_and", _sp.And),
                "logical_or": binary("logical_or", _sp.Or),
                "logical_xor": binary("logical_xor", _sp.Xor),
                "logical_not": lambda a: _sp.Not(a),
                "bitwise_and": binary("bitwise_and", _sp.And),
                "bitwise_or": binary("bitwise_or", _sp.Or),
                "invert": lambda a: _sp.Not(a),
            }
        )
        want = {"And": _sp.And, "Or": _sp.Or, "Not": _sp.Not, "Xor": _sp.Xor}[kind](*E)
        sem2 = ns.NpSem(where=f"{fi.ref}::{role} (emitted code)")
        problem = None
        try:
            tree = ast.parse(code, mode="eval").body
            val = _eval_bool(tree, env)
        except ns.Raised as e:
            problem = f"the emitted code `{code}` fails: {e.what}"
            val = None
        except SyntaxError:
            problem = f"the emitted code `{code}` is not an expression"
            val = None
        if problem is None and _sp.simplify_logic(_sp.Equivalent(val, want)) is not _sp.true:
            problem = f"the emitted code `{code}` computes `{val}`, not `{want}`"
        _ob(
            rep,
            "boolean-printer",
            ref + f".{role}",
            f"{n_ops}-operands",
            problem is None,
            f"{kind} of {n_ops} operand(s): {problem}; with numpy semantics the third operand of logical_and/logical_or is taken as `out` and silently dropped from the condition",
            line=meth.lineno,
            tag=f"{role}:{n_ops}",
        )


def _eval_bool(e: ast.AST, env: dict):
    """boolean value of emitted printer code: names, calls of the functions in env, `&`, `|`, `~`, parentheses"""
    import sympy as _sp

    from .. import npsem as ns

    if isinstance(e, ast.Name):
        if e.id in env:
            return env[e.id]
        raise ns.Raised(f"NameError: {e.id}")
    if isinstance(e, ast.BinOp) and isinstance(e.op, (ast.BitAnd, ast.BitOr, ast.BitXor)):
        l, r = _eval_bool(e.left, env), _eval_bool(e.right, env)
        return {ast.BitAnd: _sp.And, ast.BitOr: _sp.Or, ast.BitXor: _sp.Xor}[type(e.op)](l, r)
    if isinstance(e, ast.UnaryOp) and isinstance(e.op, ast.Invert):
        return _sp.Not(_eval_bool(e.operand, env))
    if isinstance(e, ast.Call):
        fn = e.func
        nm = fn.id if isinstance(fn, ast.Name) else ast.unparse(fn)
        args = [_eval_bool(a, env) if not isinstance(a, (ast.List, ast.Tuple)) else [_eval_bool(x, env) for x in a.elts] for a in e.args]
        if nm.endswith(".reduce") and nm.split(".")[0] in ("logical_and", "logical_or") and len(args) == 1 and isinstance(args[0], list):
            return (_sp.And if "and" in nm else _sp.Or)(*args[0])
        if nm in env and callable(env[nm]):
            return env[nm](*args)
        raise AnalysisError(f"C11: emitted boolean code calls `{nm}`, which is not modelled")
    raise AnalysisError(f"C11: emitted boolean code `{ast.unparse(e)[:60]}` is outside the modelled subset")


def _numpy_has(name: str) -> bool:
    try:
        import numpy  # trusted base (the namespace lambdify receives as "numpy"); never the repo
    except Exception as e:  # noqa: BLE001
        raise AnalysisError(f"C11: numpy is needed to look up the names of the lambdify namespace: {e}") from e
    import builtins

    return hasattr(numpy, name) or hasattr(builtins, name)


def _interp_rows(ix, fi: FuncInfo) -> dict:
    rows = {}
    for sa in (False, True):
        for ug in (False, True):
            for hc in (False, True):
                cfg = {"single_arg": sa, "user_funcs_given": ug, "has_consts": hc}
                it = MefInterp(ix, fi, cfg)
                it.run()
                if it.ret is None:
                    raise _grammar(fi, fi.node, f"no return reached under {cfg}")
                rows[(sa, ug, hc)] = it
    return rows


def _settings_of(fi, inst: Inst) -> dict:
    s = inst.args[0] if inst.args else inst.kwargs.get("settings")
    if s is None:
        return {}
    if not isinstance(s, DictLit):
        raise _grammar(fi, None, "printer settings are not a dict literal")
    out = {}
    for k, v in s.items.items():
        if isinstance(v, Const):
            out[k] = repr(v.value)
        elif isinstance(v, IdMap):
            out[k] = "identity name map over the keys of the user namespace"
        elif isinstance(v, Opaque):
            out[k] = v.what
        else:
            out[k] = MefInterp._d(v)
    return out


def _backend_facts(rep: Report, ix, tag: str, fi: FuncInfo, full: bool) -> dict:
    """interpret one make_expression_function under all configurations and apply the
    per-backend (absolute) rules; returns the table used by the sibling comparison"""
    ref = fi.ref
    rows = _interp_rows(ix, fi)
    rep.saw("functions", ref)
    facts: dict = {"ref": ref, "line": fi.node.lineno}
    for key, it in rows.items():
        sa, ug, hc = key
        ctag = f"[single_arg={sa},user_funcs={'given' if ug else 'None'},consts={'yes' if hc else 'no'}]"
        lam, parts = it.call_convention()
        line = lam.node.lineno
        sig = _sig_tokens(fi, lam.sig)
        # (2) constants: order handed to lambdify == order at the call
        want = _collapse(sig)
        if parts is None:
            got = [("user",)] if not hc else None
            ok = not hc  # with constants present somebody has to append their values
            msg = "constants are declared to lambdify but the lambdified function is returned without their values being appended"
        else:
            got = _collapse(_call_tokens(fi, parts))
            ok = got == want
            msg = f"lambdify receives the parameters {sig} but the returned function calls it with {_call_tokens(fi, parts)}: constants (or variables) reach it in a different order/position"
        if hc or parts is not None:
            _ob(rep, "const-order", ref, "lambdify-signature-vs-call", ok, msg, line=line, tag=ctag, signature=sig, call=got)
        # the constants part itself must follow the declaration order only via one container
        cparts = [t for t in sig if t[0] == "each" and t[1] == "expression.consts"]
        _ob(rep, "const-order", ref, "constants-declared", len(cparts) == 1 and sig[-1] == cparts[0], f"lambdify parameter list {sig} does not end with the constants of the expression", line=line, tag=ctag)
        # (1) single_arg
        vparts = [t for t in sig if t[1] == "expression.vars"]
        exp = [("one", "expression.vars")] if sa else [("each", "expression.vars", "decl")]
        _ob(rep, "single-arg", ref, "lambdify-variables", vparts == exp and sig[: len(vparts)] == vparts, f"with single_arg={sa} the variables handed to lambdify are {vparts or sig}, expected {exp} (all variables in one array argument / one argument per variable in `vars` order)", line=line, tag=ctag)
        _ob(rep, "lambdify-expression", ref, "lambdify-expr", lam.expr == Sym("expression._sympy_expr"), f"lambdify compiles `{MefInterp._d(lam.expr)}`, not `expression._sympy_expr`", line=line, tag=ctag)
        # modules: user namespace first
        mods = lam.modules
        okm = isinstance(mods, Tup) and len(mods.items) >= 1 and isinstance(mods.items[0], Snap)
        _ob(rep, "modules-order", ref, "lambdify-modules", okm, "the first entry of `modules` handed to lambdify is not the user-function namespace (earlier entries take priority)", line=line, tag=ctag)
        _ob(rep, "namespace-fresh-copy", ref, "user-namespace", not it.promoted, f"{sorted(it.promoted)} is updated in place while the namespace is built: compiling changes the expression (functions passed for one compilation leak into the next one and into comparisons)", line=line, tag=ctag)
        if not okm:
            facts["broken"] = True
            continue
        ns: Snap = mods.items[0]
        modnames = [m.value if isinstance(m, Const) else MefInterp._d(m) for m in mods.items[1:]]
        # printer
        inst = lam.printer
        okp = isinstance(inst, Inst) and bool(it.classes) and inst.cls in it.classes
        _ob(rep, "printer-handed", ref, "lambdify-printer", okp, "the custom printer instance is not the `printer` handed to lambdify", line=line, tag=ctag)
        settings = _settings_of(fi, inst) if okp else {}
        known = None
        if okp:
            s = inst.args[0] if inst.args else inst.kwargs.get("settings")
            uf = s.items.get("user_functions") if isinstance(s, DictLit) else None
            known = uf.over if isinstance(uf, IdMap) else None
            # (3) names the printer knows == keys of the namespace
            _ob(rep, "printer-names-in-namespace", ref, "printer-user-functions", known is not None and known.layers == ns.layers, f"printer knows the function names of [{known.describe() if known else settings.get('user_functions')}] but the namespace handed to lambdify holds [{ns.describe()}]", line=line, tag=ctag)
        if sa is False and hc is True:
            facts[("row", ug)] = {
                "layers": list(ns.layers),
                "fresh": ns.fresh,
                "maps": list(ns.maps),
                "modules": modnames,
                "settings": settings,
                "printer_base": list(inst.cls.bases) if okp else None,
                "printer_methods": sorted(n.name for n in inst.cls.node.body if isinstance(n, ast.FunctionDef)) if okp else None,
                "signature": {"single_arg=False": sig},
            }
        if sa is True and hc is True and ("row", ug) in facts:
            facts[("row", ug)]["signature"]["single_arg=True"] = sig
        if full:
            sf = [l for l in ns.layers if l.endswith(".SPECIAL_FUNCTIONS")]
            _ob(rep, "special-functions-in-namespace", ref, "namespace-layers", len(sf) == 1, f"SPECIAL_FUNCTIONS is not part of the namespace handed to lambdify ({ns.describe()})", line=line, tag=ctag)
            if known is not None:
                _ob(rep, "special-functions-in-namespace", ref, "printer-layers", any(l.endswith(".SPECIAL_FUNCTIONS") for l in known.layers), f"SPECIAL_FUNCTIONS keys are not known to the printer ({known.describe()}): sympy rewrites e.g. Heaviside to an inline conditional that fails on arrays", line=line, tag=ctag)
    it = rows[(False, True, True)]
    # printer methods: emission order and emitted names
    emitted = {}
    for cv in it.classes:
        for m in cv.node.body:
            if isinstance(m, ast.FunctionDef) and m.name in BOOLEAN_PRINTERS:
                _check_boolean_printer(rep, fi, cv.node, m, ref)
                continue
            if isinstance(m, ast.FunctionDef) and m.name.startswith("_print_"):
                tmpl, n = _printer_emission(fi, cv.node, m)
                role = f"{cv.node.name}.{m.name}"
                # second stage: what the emitted code computes, for array literals of rank 1 and 2 whose entries
                # broadcast differently (the rows of a rank-2 literal must be broadcast *jointly*)
                for shape_, arrays_ in (((3,), set()), ((3,), {0}), ((2, 2), set()), ((2, 2), {0}), ((2, 2), {3}), ((2, 3), {1, 5})):
                    t2, _n2 = _printer_emission(fi, cv.node, m, shape_)
                    val, exp, problem = _emitted_value(fi, role, t2, shape_, arrays_)
                    if problem and isinstance(val, list) is False and arrays_ and "[" == t2.strip()[:1]:
                        # list printers hand nested lists to a separate array builder: only the nesting is theirs
                        continue
                    _ob(
                        rep,
                        "array-literal-joint-broadcast",
                        ref + f".{cv.node.name}.{m.name}",
                        f"rank{len(shape_)}",
                        problem is None,
                        f"array literal of shape {shape_} with array-valued entries {sorted(arrays_)} (others scalar): {problem} (emitted code `{t2[:160]}`); "
                        "all components of a tensor expression must be broadcast to one common shape",
                        line=m.lineno,
                        tag=f"{cv.node.name}:{shape_}:{sorted(arrays_)}",
                    )
                try:
                    tree = ast.parse(tmpl, mode="eval")
                except SyntaxError:
                    _ob(rep, "printer-emission", ref, role, False, f"emitted code `{tmpl}` is not a Python expression", line=m.lineno)
                    continue
                elems = sorted(((x.lineno, x.col_offset), x.id) for x in ast.walk(tree) if isinstance(x, ast.Name) and x.id[:1] == "E" and x.id[1:].isdigit())
                order = [nm for _, nm in elems]
                _ob(rep, "printer-emission", ref, role, order == [f"E{i}" for i in range(n)], f"array elements are emitted in order {order} (template `{tmpl}`), expected each element once in index order", line=m.lineno)
                called = sorted({_leaf(c.func) for c in ast.walk(tree) if isinstance(c, ast.Call)})
                emitted[role] = {"template": tmpl, "calls": called}
                if full:
                    missing = [c for c in called if not _numpy_has(c)]
                    _ob(rep, "printer-emitted-names", ref, role + "::names", not missing, f"printer emits calls to {missing} which the `numpy` namespace handed to lambdify does not provide (template `{tmpl}`)", line=m.lineno)
    facts["emitted"] = emitted
    # (3) arity-preserving wrappers of the namespace functions
    ns_maps = facts.get(("row", True), {}).get("maps", [])
    for mp in ns_maps:
        if mp.startswith("closure:"):
            cl = it.env.get(mp.split(":", 1)[1])
            if not isinstance(cl, Clos):
                raise _grammar(fi, fi.node, f"namespace wrapper `{mp}` not found")
            _check_arity_wrapper(rep, fi, cl.node)
        elif mp.split(".")[-1] not in WRAPPERS:
            raise _grammar(fi, fi.node, f"namespace values are mapped through `{mp}`, whose effect on the arity is unknown")
    return facts


def _check_arity_wrapper(rep: Report, fi: FuncInfo, node: ast.FunctionDef) -> None:
    """``compile_func(func)``: every return must hand back `func` itself or a star-forwarding
    lambda around it, wrapped in a trusted compile call"""
    if len(node.args.args) != 1:
        raise _grammar(fi, node, "namespace wrapper must take one function")
    p = node.args.args[0].arg
    role = f"{node.name}::keeps-arity"
    rets = [n for n in ast.walk(node) if isinstance(n, ast.Return)]
    if not rets:
        raise _grammar(fi, node, "namespace wrapper without return")
    for k, r in enumerate(rets):
        v = r.value
        while isinstance(v, ast.Call) and _leaf(v.func) in WRAPPERS and len(v.args) >= 1:
            v = v.args[0]
        if isinstance(v, ast.Name) and v.id == p:
            ok, why = True, ""
        elif isinstance(v, ast.Lambda):
            la = v.args
            b = v.body
            star = la.vararg is not None and not (la.args or la.posonlyargs or la.kwonlyargs or la.kwarg)
            fwd = isinstance(b, ast.Call) and isinstance(b.func, ast.Name) and b.func.id == p and not b.keywords
            if star and fwd and len(b.args) == 1 and isinstance(b.args[0], ast.Starred) and isinstance(b.args[0].value, ast.Name) and b.args[0].value.id == la.vararg.arg:
                ok, why = True, ""
            elif fwd:
                ok, why = False, f"`{ast.unparse(v)}` fixes the number of arguments of every wrapped function (Heaviside and hypot take two)"
            else:
                raise _grammar(fi, v, f"wrapper lambda `{ast.unparse(v)}`")
        else:
            raise _grammar(fi, r, f"wrapper returns `{ast.unparse(r.value)[:60]}`")
        _ob(rep, "namespace-wrapper-arity", fi.ref, role, ok, why, line=r.lineno, tag=f"#{k}")


def check_backends(rep: Report, ix) -> None:
    facts = {}
    for tag, (rel, cls) in BACKENDS.items():
        fi = ix.func(rel, f"{cls}.{MEF}")
        facts[tag] = _backend_facts(rep, ix, tag, fi, full=True)
    for tag, (rel, cls) in OPTIONAL_BACKENDS.items():
        if rel in ix.modules and f"{cls}.{MEF}" in ix.modules[rel].functions:
            fi = ix.func(rel, f"{cls}.{MEF}")
            facts[tag] = _backend_facts(rep, ix, tag, fi, full=False)
        else:
            rep.note(f"optional sibling {rel}::{cls}.{MEF} not present; skipped")
    # ---- sibling table numpy vs numba
    a, b = facts["numpy"], facts["numba"]
    pair = f"{a['ref']} <-> {b['ref']}"
    for ug in (False, True):
        if a.get("broken") or b.get("broken"):
            if not rep.findings:
                raise AnalysisError(f"C11: no interpreted row for {pair}")
            rep.note(f"sibling comparison {pair} skipped: one side already violates the modules-order rule")
            break
        ra, rb = a.get(("row", ug)), b.get(("row", ug))
        if ra is None or rb is None:
            raise AnalysisError(f"C11: no interpreted row for {pair}")
        t = f"[user_funcs={'given' if ug else 'None'}]"
        for fld, rule, what in (
            ("layers", "sibling-user-func-precedence", "layering of user functions (later wins)"),
            ("fresh", "sibling-user-func-precedence", "whether the namespace is a fresh copy of expression.user_funcs"),
            ("modules", "sibling-modules", "module list after the user namespace"),
            ("settings", "sibling-printer-settings", "printer settings"),
            ("printer_base", "sibling-printer-settings", "printer base class"),
            ("printer_methods", "sibling-printer-settings", "overridden printer methods"),
        ):
            ok = ra[fld] == rb[fld]
            msg = f"{what} differs between the siblings {pair}: numpy {ra[fld]!r} vs numba {rb[fld]!r}"
            _ob(rep, rule, b["ref"], f"vs-numpy::{fld}", ok, msg, line=b["line"], tag=t, numpy=ra[fld], numba=rb[fld])
    rep.sample({"table": "make_expression_function rows (single_arg=False, user_funcs given, constants present)", **{k: dict(v[("row", True)]) for k, v in facts.items() if ("row", True) in v}})
    rep.sample({"table": "code emitted by the custom printer methods for an array [E0, E1, E2]", **{k: v["emitted"] for k, v in facts.items()}})
    rep.floor("make_expression_function siblings interpreted", len(facts), 2)
    rep.floor("custom printer methods evaluated", sum(len(v["emitted"]) for v in facts.values()), 2)


# ============================================================================
# Part B -- the SPECIAL_FUNCTIONS table and the lower-case function alias
# ============================================================================
def _printed_arities(key: str) -> dict | None:
    """number of arguments sympy prints for ``key(...)`` per number of arguments the user
    may write (from sympy itself: trusted base); None when sympy has no such function"""
    cls = getattr(sp, key, None)
    if not (isinstance(cls, type) and issubclass(cls, sp.Function)):
        return None
    try:
        nargs = sorted(int(n) for n in cls.nargs)
    except TypeError:
        return None
    xs = sp.symbols("x0:6", real=True)
    return {n: len(cls(*xs[:n]).args) for n in nargs if 0 < n <= 6}


def special_table(ix) -> tuple[dict, int]:
    m = ix.module(EXPR)
    node = m.assigns.get("SPECIAL_FUNCTIONS")
    if not isinstance(node, ast.Dict):
        raise AnalysisError(f"anchor vanished: {EXPR}::SPECIAL_FUNCTIONS is not a dict literal")
    table = {}
    for k, v in zip(node.keys, node.values):
        if not (isinstance(k, ast.Constant) and isinstance(k.value, str)):
            raise _grammar(f"{EXPR}::SPECIAL_FUNCTIONS", node, "non-literal key")
        d = dotted(v)
        head, _, rest = d.partition(".")
        if head in m.imports:
            d = m.imports[head] + ("." + rest if rest else "")
        table[k.value] = d
    return table, node.lineno


def check_special_functions(rep: Report, ix) -> None:
    ref = f"{EXPR}::SPECIAL_FUNCTIONS"
    table, line = special_table(ix)
    rep.saw("tables", ref)
    rep.floor("SPECIAL_FUNCTIONS entries", len(table), 3)
    rows = {}
    for key, impl in table.items():
        if impl not in LIB_MEANING:
            raise AnalysisError(f"C11: {ref}: implementation `{impl}` of `{key}` is not in the table of library functions whose meaning/arity this rule trusts (extend LIB_MEANING after reading its documentation)")
        meaning, arity = LIB_MEANING[impl]
        _ob(rep, "special-function-implementation", ref, f"{key}::meaning", meaning == key, f"`{key}` is implemented by `{impl}`, which computes `{meaning}`", line=line)
        printed = _printed_arities(key)
        rows[key] = {"implementation": impl, "arity": arity, "sympy prints (user args -> printed args)": printed if printed is not None else "not a sympy function: printed with the arguments the user wrote"}
        if printed is not None:
            bad = {n: p for n, p in printed.items() if p != arity}
            _ob(rep, "special-function-arity", ref, f"{key}::arity", not bad, f"sympy prints `{key}` with {sorted(set(printed.values()))} argument(s) but `{impl}` takes {arity}", line=line)
    rep.sample({"table": "SPECIAL_FUNCTIONS", **rows})

    # lower-case alias substituted after parsing: its target needs an implementation
    f = ix.func(EXPR, "parse_expr_guarded")
    rep.saw("functions", f.ref)
    pairs = []
    for c in ast.walk(f.node):
        if isinstance(c, ast.Call) and _leaf(c.func) == "subs" and len(c.args) == 2:
            a, b = c.args
            if isinstance(a, ast.Call) and _leaf(a.func) == "Function" and len(a.args) == 1 and isinstance(a.args[0], ast.Constant):
                pairs.append((a.args[0].value, _leaf(b), c))
    rep.floor("function aliases substituted in parse_expr_guarded", len(pairs), 1)
    for alias, target, c in pairs:
        _ob(rep, "function-alias-target", f.ref, f"alias::{alias}", target in table, f"`{alias}` is rewritten to sympy `{target}`, which has no entry in SPECIAL_FUNCTIONS {sorted(table)}", line=c.lineno)
        _ob(rep, "function-alias-target", f.ref, f"alias::{alias}::same-function", target.lower() == str(alias).lower() and isinstance(getattr(sp, target, None), type), f"`{alias}` is rewritten to `{target}`, a different function", line=c.lineno)
    # the substitution is applied to what is returned
    inner = {n.name for n in f.node.body if isinstance(n, ast.FunctionDef) and any(p[2] in set(ast.walk(n)) for p in pairs)}
    rets = [r for r in f.node.body if isinstance(r, ast.Return)]
    ok = bool(rets) and all(isinstance(r.value, ast.Call) and (_leaf(r.value.func) in inner or any(p[2] is r.value for p in pairs)) for r in rets)
    _ob(rep, "function-alias-target", f.ref, "alias::applied-to-result", ok, "the parsed expression is returned without the alias substitution", line=rets[0].lineno if rets else f.node.lineno)
    rep.sample({"table": "function aliases", "pairs": [(a, t) for a, t, _ in pairs]})


# ============================================================================
# Part C -- differentiate / derivatives / copy constructors
# ============================================================================
def _parents(root: ast.AST) -> dict:
    par = {}
    for n in ast.walk(root):
        for c in ast.iter_child_nodes(n):
            par[id(c)] = n
    return par


def _comp_env(par: dict, node: ast.AST, g, at) -> dict:
    """comprehension variables visible at `node`: name -> description of what they run over"""
    env = {}
    n = node
    while id(n) in par:
        n = par[id(n)]
        if isinstance(n, (ast.ListComp, ast.GeneratorExp, ast.SetComp)):
            for gen in n.generators:
                if isinstance(gen.target, ast.Name):
                    it = resolve_expr(g, at, gen.iter)
                    env.setdefault(gen.target.id, dotted(it) if isinstance(it, (ast.Name, ast.Attribute)) else f"~{ast.unparse(it)}")
    return env


def _origins(g, at, e: ast.AST, comp: dict, depth: int = 0) -> set:
    """where a symbol expression comes from, following symbol constructors and the
    reaching definitions of local names (all of them, not only unique ones)"""
    if depth > 10:
        return {"too-deep"}
    if isinstance(e, ast.Call) and e.args and _leaf(e.func) in SYMBOL_CTORS:
        return _origins(g, at, e.args[0], comp, depth + 1)
    if isinstance(e, ast.Name):
        if e.id in comp:
            return {f"comp:{comp[e.id]}"}
        defs = g.reaching()[at].get(e.id, frozenset())
        if not defs:
            return {f"global:{e.id}"}
        out = set()
        for d in defs:
            v = def_value(d, e.id)
            if v[0] == "param":
                out.add(f"param:{e.id}")
            elif v[0] == "expr":
                out |= _origins(g, d, v[1], {}, depth + 1)
            elif v[0] == "iter":
                out.add(f"iter:{ast.unparse(v[1])}")
            else:
                out.add(f"other:{v[0]}")
        return out
    return {f"expr:{ast.unparse(e)}"}


DIFF_LEAVES = ("diff", "derive_by_array")


def _depends_on_diff(g, at, e: ast.AST, depth: int = 0) -> bool:
    if depth > 6:
        return False
    for x in ast.walk(e):
        if isinstance(x, ast.Call) and _leaf(x.func) in DIFF_LEAVES:
            return True
    for x in ast.walk(e):
        if isinstance(x, ast.Name) and isinstance(x.ctx, ast.Load):
            for d in g.reaching()[at].get(x.id, frozenset()):
                v = def_value(d, x.id)
                if v[0] == "expr" and _depends_on_diff(g, d, v[1], depth + 1):
                    return True
    return False


def _bind_ctor(ix, fi: FuncInfo, call: ast.Call) -> tuple[str, dict] | None:
    """map the arguments of ``ScalarExpression(...)`` / ``TensorExpression(...)`` /
    ``self.__class__(...)`` to the parameter names of that class's __init__"""
    name = None
    if isinstance(call.func, ast.Name) and call.func.id in ix.module(EXPR).classes:
        name = call.func.id
    elif dotted(call.func) in ("self.__class__", "type(self)", "type()") and fi.cls is not None:
        name = fi.cls.name
    if name is None:
        return None
    init = ix.cls(EXPR, name).find_method("__init__")
    if init is None:
        raise AnalysisError(f"anchor vanished: {EXPR}::{name}.__init__")
    pos = [a.arg for a in init.node.args.args[1:]]
    bound = {}
    for p, a in zip(pos, call.args):
        if isinstance(a, ast.Starred):
            raise _grammar(fi, call, "starred constructor argument")
        bound[p] = a
    for k in call.keywords:
        if k.arg is None:
            raise _grammar(fi, call, "**kwargs in constructor call")
        bound[k.arg] = k.value
    return name, bound


def _shape_tokens(e: ast.AST) -> list:
    if isinstance(e, ast.Tuple):
        out = []
        for x in e.elts:
            out.append("*" + dotted(x.value) if isinstance(x, ast.Starred) else ast.unparse(x))
        return out
    if isinstance(e, ast.BinOp) and isinstance(e.op, ast.Add):
        return _shape_tokens(e.left) + _shape_tokens(e.right)
    if isinstance(e, (ast.Attribute, ast.Name)):
        return ["*" + dotted(e)]
    if isinstance(e, ast.Call) and _leaf(e.func) in ("tuple", "list") and len(e.args) == 1:
        return _shape_tokens(e.args[0])
    return [ast.unparse(e)]


def _strip_seq(e: ast.AST) -> ast.AST:
    while isinstance(e, ast.Call) and _leaf(e.func) in ("Array", "tuple", "list", "ImmutableDenseNDimArray", "Tuple") and len(e.args) >= 1:
        e = e.args[0]
    return e


def check_derivatives(rep: Report, ix) -> None:
    specs = [
        ("ScalarExpression.differentiate", "param", ["len-free"]),
        ("TensorExpression.differentiate", "param", ["*self.shape"]),
        ("ScalarExpression.derivatives", "vars", ["len(self.vars)"]),
        ("TensorExpression.derivatives", "vars", ["len(self.vars)", "*self.shape"]),
    ]
    n_diff = n_ret = n_zero = 0
    table = {}
    for qn, mode, zshape in specs:
        fi = ix.func(EXPR, qn)
        rep.saw("functions", fi.ref)
        g = build_cfg(fi.node)
        par = _parents(fi.node)
        var = None
        if mode == "param":
            if len(fi.node.args.args) != 2:
                raise _grammar(fi, fi.node, "expected (self, var)")
            var = fi.node.args.args[1].arg
        want = {f"param:{var}"} if mode == "param" else {"comp:self.vars"}
        rows = []
        for nd, c in g.find_calls(lambda c: _leaf(c.func) in DIFF_LEAVES):
            leaf = _leaf(c.func)
            if leaf == "diff" and isinstance(c.func, ast.Attribute) and not dotted(c.func).startswith("sympy."):
                recv, syms = c.func.value, list(c.args)
            else:  # sympy.diff(expr, *symbols) / sympy.derive_by_array(expr, symbols)
                if not c.args:
                    raise _grammar(fi, c, f"`{leaf}` without arguments")
                recv, syms = c.args[0], list(c.args[1:])
            n_diff += 1
            role = f"{leaf}#{len(rows)}"
            r = dotted(resolve_expr(g, nd, recv))
            _ob(rep, "derivative-of-expression", fi.ref, role + "::operand", r == "self._sympy_expr", f"`{leaf}` is applied to `{r}`, not to `self._sympy_expr`", line=c.lineno)
            if not syms or c.keywords:
                _ob(rep, "derivative-symbol", fi.ref, role + "::symbol", False, f"`{ast.unparse(c)}` does not name the symbol to differentiate by", line=c.lineno)
                continue
            origin = set()
            for s in syms:
                comp = _comp_env(par, c, g, nd)
                s2 = _strip_seq(resolve_expr(g, nd, s))
                if isinstance(s2, (ast.ListComp, ast.GeneratorExp)):
                    if len(s2.generators) != 1 or s2.generators[0].ifs or not isinstance(s2.generators[0].target, ast.Name):
                        raise _grammar(fi, s2, "symbol comprehension")
                    it = resolve_expr(g, nd, s2.generators[0].iter)
                    comp = dict(comp)
                    comp[s2.generators[0].target.id] = dotted(it) if isinstance(it, (ast.Name, ast.Attribute)) else f"~{ast.unparse(it)}"
                    origin |= _origins(g, nd, s2.elt, comp)
                else:
                    origin |= _origins(g, nd, s, comp)
            rows.append({"call": ast.unparse(c)[:70], "symbol-origin": sorted(origin)})
            what = f"the requested variable `{var}`" if mode == "param" else "each variable of `self.vars` in that order"
            _ob(rep, "derivative-symbol", fi.ref, role + "::symbol", origin == want, f"derivative is taken with respect to {sorted(origin)}, expected {what}", line=c.lineno, origin=sorted(origin))
        # returned expression objects keep signature / user_funcs / consts
        for nd in g.find(lambda n: n.kind == "return" and n.ast.value is not None):
            rv = resolve_expr(g, nd, nd.ast.value)
            if not isinstance(rv, ast.Call):
                raise _grammar(fi, nd.ast, "return value is not a constructor call")
            b = _bind_ctor(ix, fi, rv)
            if b is None:
                raise _grammar(fi, nd.ast, f"return value `{ast.unparse(rv)[:60]}` is not an expression object")
            cname, bound = b
            n_ret += 1
            role = f"return#{sum(1 for r in rows if 'return' in r)}"
            sig = bound.get("signature")
            okS = sig is not None and dotted(sig) == "self.vars"
            _ob(rep, "derivative-keeps-signature", fi.ref, role + "::signature", okS, f"result is built with signature `{ast.unparse(sig) if sig is not None else None}` instead of `self.vars` (argument order of the derivative differs from the original)", line=nd.lineno)
            dep = "expression" in bound and _depends_on_diff(g, nd, nd.ast.value)
            if dep:
                for kw in ("user_funcs", "consts"):
                    v = bound.get(kw)
                    _ob(rep, "derivative-keeps-context", fi.ref, role + f"::{kw}", v is not None and dotted(v) == f"self.{kw}", f"derivative is built with {kw}=`{ast.unparse(v) if v is not None else None}` instead of `self.{kw}`", line=nd.lineno)
            rows.append({"return": cname, "depends-on-derivative": dep, "args": {p: ast.unparse(v)[:50] for p, v in bound.items()}})
            # every value that can reach the `expression` argument is a zero array (constant branch) or the result of
            # diff / derive_by_array (derivative index first); other constructions have another index convention
            ex = bound.get("expression")
            if ex is not None:
                values = []
                if isinstance(ex, ast.Name):
                    for d in g.defs_reaching(nd, ex.id):
                        v = def_value(d, ex.id)
                        values.append((d, v[1] if v[0] == "expr" else None))
                else:
                    values.append((nd, ex))
                for d, v in values:
                    if v is None:
                        raise _grammar(fi, d.ast, "definition of the derivative is not a plain assignment")
                    v = resolve_expr(g, d, v) if d is not nd else v
                    leaves = {_leaf(c.func) for c in ast.walk(v) if isinstance(c, ast.Call)}
                    okv = bool(leaves & set(DIFF_LEAVES)) or "zeros" in leaves or (isinstance(v, ast.Constant) and v.value == 0)
                    if not okv and "jacobian" in leaves:
                        transposed = any(isinstance(x, ast.Attribute) and x.attr in ("T", "transpose") for x in ast.walk(v))
                        _ob(
                            rep,
                            "derivative-index-order",
                            fi.ref,
                            f"jacobian@{cname}",
                            transposed,
                            f"`{ast.unparse(v)[:80]}` builds the derivative with Matrix.jacobian, whose entry [i, j] is d expr[i] / d vars[j]; the convention of this class "
                            "(sympy.derive_by_array, the constant branch, all callers) puts the derivative index first: [i, j] = d expr[j] / d vars[i] -- the result is transposed",
                            line=getattr(v, "lineno", nd.lineno),
                        )
                    elif not okv:
                        raise _grammar(fi, v, f"derivative built by `{ast.unparse(v)[:60]}`: index convention of this construction is unknown to the rule")
        # zero derivative of a constant expression: derivative index first
        for nd, c in g.find_calls(lambda c: _leaf(c.func) == "zeros" and len(c.args) >= 1):
            tok = _shape_tokens(resolve_expr(g, nd, c.args[0]))
            if tok == ["len(self.vars)"] and zshape == ["len(self.vars)"]:
                ok = True
            else:
                ok = tok == zshape
            n_zero += 1
            _ob(rep, "derivative-constant-shape", fi.ref, f"zeros#{n_zero}", ok, f"zero derivative of a constant expression has shape {tok}, expected {zshape} (derivative index first, as sympy.derive_by_array orders it)", line=c.lineno)
            rows.append({"zeros": tok})
        table[qn] = rows
    rep.sample({"table": "differentiate/derivatives", **table})
    rep.floor("diff / derive_by_array sites", n_diff, 4)
    rep.floor("returned derivative objects", n_ret, 6)
    rep.floor("constant-branch zero arrays", n_zero, 3)

    # copy constructors keep what defines the meaning of positional arguments
    n_copy = 0
    for cname in ("ScalarExpression", "TensorExpression"):
        fi = ix.func(EXPR, f"{cname}.__init__")
        rep.saw("functions", fi.ref)
        if len(fi.node.args.args) < 3:
            raise _grammar(fi, fi.node, "expected (self, expression, signature, ...)")
        pe, ps = fi.node.args.args[1].arg, fi.node.args.args[2].arg
        branch = None
        for st in ast.walk(fi.node):
            if isinstance(st, ast.If) and isinstance(st.test, ast.Call) and _leaf(st.test.func) == "isinstance" and len(st.test.args) == 2:
                a0, a1 = st.test.args
                names = [dotted(x) for x in (a1.elts if isinstance(a1, ast.Tuple) else [a1])]
                if isinstance(a0, ast.Name) and a0.id == pe and cname in names:
                    branch = st
                    break
        if branch is None:
            raise AnalysisError(f"anchor vanished: copy-constructor branch `isinstance({pe}, {cname})` in {fi.ref}")
        n_copy += 1
        reads = {x.attr for st in branch.body for x in ast.walk(st) if isinstance(x, ast.Attribute) and isinstance(x.value, ast.Name) and x.value.id == pe}
        keeps_sig = any(
            isinstance(x, ast.Assign) and len(x.targets) == 1 and isinstance(x.targets[0], ast.Name) and x.targets[0].id == ps and dotted(x.value) == f"{pe}.vars"
            for st in branch.body
            for x in ast.walk(st)
        )
        _ob(rep, "copy-ctor-keeps-signature", fi.ref, "copy-branch", keeps_sig, f"copying a {cname} does not take over `{pe}.vars` when no signature is given: the copy re-derives the signature as the sorted free symbols, so positional arguments change meaning", line=branch.lineno)
        for attr in ("_sympy_expr", "user_funcs", "consts"):
            _ob(rep, "copy-ctor-keeps-context", fi.ref, f"copy-branch::{attr}", attr in reads, f"copying a {cname} does not read `{pe}.{attr}`", line=branch.lineno)
    rep.floor("copy-constructor branches", n_copy, 2)


# ============================================================================
# Part D -- from_expression of Scalar / Vector / Tensor fields
# ============================================================================
FIELDS = [
    ("pde/fields/scalar.py", "ScalarField.from_expression", 0),
    ("pde/fields/vectorial.py", "VectorField.from_expression", 1),
    ("pde/fields/tensorial.py", "Tensor2Field.from_expression", 2),
]


def _resolve_comp(g, at, e: ast.AST) -> ast.AST:
    """``resolve_expr`` plus one more step for a name whose single reaching definition is a
    comprehension: its loop variables are local to the comprehension, so a same-named
    variable of the enclosing function must not block the substitution"""
    r = resolve_expr(g, at, e)
    if not isinstance(r, ast.Name):
        return r
    defs = g.reaching()[at].get(r.id, frozenset())
    if len(defs) != 1:
        return r
    (dn,) = defs
    v = def_value(dn, r.id)
    if v[0] != "expr" or not isinstance(v[1], (ast.ListComp, ast.GeneratorExp)):
        return r
    local = {t.id for gen in v[1].generators for t in ast.walk(gen.target) if isinstance(t, ast.Name)}
    for x in ast.walk(v[1]):
        if isinstance(x, ast.Name) and isinstance(x.ctx, ast.Load) and x.id not in local:
            if g.reaching()[dn].get(x.id, frozenset()) != g.reaching()[at].get(x.id, frozenset()):
                return r
    return v[1]


def _coord_seq(fi, g, at, e: ast.AST, grid: str) -> tuple[bool, str]:
    """classify the starred argument of ``expr(*...)``: (ok, description)"""
    r = _resolve_comp(g, at, e)
    while isinstance(r, ast.Call) and _leaf(r.func) in ("tuple", "list") and len(r.args) == 1:
        r = _resolve_comp(g, at, r.args[0])
    if isinstance(r, ast.Attribute) and dotted(r) == f"{grid}.coordinate_arrays":
        return True, "grid.coordinate_arrays (one array per axis, in axis order)"
    if isinstance(r, ast.Subscript) and dotted(r.value) == f"{grid}.cell_coords" and isinstance(r.slice, ast.Name):
        return True, "coordinates of one cell (last axis of cell_coords, in axis order)"
    if isinstance(r, (ast.ListComp, ast.GeneratorExp)) and len(r.generators) == 1 and not r.generators[0].ifs and isinstance(r.generators[0].target, ast.Name):
        gen = r.generators[0]
        i = gen.target.id
        it = resolve_expr(g, at, gen.iter)
        elt = r.elt
        if not (isinstance(elt, ast.Subscript) and dotted(elt.value) == f"{grid}.cell_coords"):
            raise _grammar(fi, e, f"coordinate list element `{ast.unparse(elt)}`")
        sl = elt.slice
        idx = list(sl.elts) if isinstance(sl, ast.Tuple) else [sl]
        last_ok = len(idx) == 2 and isinstance(idx[0], ast.Constant) and idx[0].value is Ellipsis and isinstance(idx[1], ast.Name) and idx[1].id == i
        if not last_ok:
            return False, f"`{ast.unparse(elt)}` does not select coordinate `{i}` on the last axis of cell_coords"
        if isinstance(it, ast.Call) and _leaf(it.func) == "range" and len(it.args) == 1 and not it.keywords:
            n = ast.unparse(it.args[0])
            if n in (f"{grid}.num_axes", f"len({grid}.axes)"):
                return True, "cell_coords[..., i] for i in range(num_axes)"
            return False, f"coordinate arrays run over range({n}) but the signature `{grid}.axes` has num_axes entries"
        return False, f"coordinate arrays are listed over `{ast.unparse(it)}`, not in axis order range({grid}.num_axes)"
    raise _grammar(fi, e, f"coordinate arguments `{ast.unparse(r)[:70]}`")


def check_from_expression(rep: Report, ix) -> None:
    init = ix.func(EXPR, "ScalarExpression.__init__")
    pos = [a.arg for a in init.node.args.args[1:]]
    kwonly = [a.arg for a in init.node.args.kwonlyargs]
    for need in ("expression", "signature", "user_funcs", "consts", "repl", "allow_indexed"):
        if need not in pos + kwonly:
            raise AnalysisError(f"anchor vanished: parameter `{need}` of {init.ref}")
    sib = {}
    n_calls = n_ctor = 0
    for rel, qn, rank in FIELDS:
        fi = ix.func(rel, qn)
        rep.saw("functions", fi.ref)
        g = build_cfg(fi.node)
        args = [a.arg for a in fi.node.args.args]
        if len(args) < 3:
            raise _grammar(fi, fi.node, "expected (cls, grid, expression(s), ...)")
        grid, pexpr = args[1], args[2]
        ctors = g.find_calls(lambda c: isinstance(c.func, ast.Name) and c.func.id == "ScalarExpression")
        if len(ctors) != 1:
            raise _grammar(fi, fi.node, f"{len(ctors)} ScalarExpression(...) calls")
        nd, ctor = ctors[0]
        n_ctor += 1
        bound = dict(zip(pos, ctor.args))
        bound.update({k.arg: k.value for k in ctor.keywords if k.arg})
        # the object the expression is bound to
        asg = nd.ast
        if not (isinstance(asg, ast.Assign) and asg.value is ctor and len(asg.targets) == 1 and isinstance(asg.targets[0], ast.Name)):
            raise _grammar(fi, asg, "ScalarExpression(...) is not bound to a local name")
        obj = asg.targets[0].id
        # signature = grid.axes, aliases, indexed variables, pass-through of user_funcs / consts
        s = bound.get("signature")
        s_res = dotted(resolve_expr(g, nd, s)) if s is not None else None
        _ob(rep, "from-expression-signature", fi.ref, "signature", s_res == f"{grid}.axes", f"expression signature is `{ast.unparse(s) if s is not None else None}`, expected `{grid}.axes` (the coordinate arrays are passed in axis order)", line=ctor.lineno)
        r = bound.get("repl")
        _ob(rep, "from-expression-aliases", fi.ref, "repl", r is not None and dotted(resolve_expr(g, nd, r)) == f"{grid}.c._axes_alt_repl", f"alternative axis names are not replaced (`repl={ast.unparse(r) if r is not None else None}`, expected `{grid}.c._axes_alt_repl`)", line=ctor.lineno)
        for kw in ("user_funcs", "consts"):
            v = bound.get(kw)
            _ob(rep, "from-expression-passthrough", fi.ref, kw, isinstance(v, ast.Name) and v.id == kw, f"parameter `{kw}` is not handed to the expression (`{kw}={ast.unparse(v) if v is not None else None}`)", line=ctor.lineno)
        ai = bound.get("allow_indexed")
        _ob(rep, "from-expression-passthrough", fi.ref, "allow_indexed", isinstance(ai, ast.Constant) and ai.value is True, "indexed variables (`cartesian[0]`) are not enabled", line=ctor.lineno)
        # which text is compiled: the parameter / loop item / indexed item
        src = bound.get("expression")
        if src is None:
            raise _grammar(fi, ctor, "ScalarExpression(...) without expression")
        # coordinate arguments at every call of the expression object
        calls = g.find_calls(lambda c: isinstance(c.func, ast.Name) and c.func.id == obj)
        # evaluation through np.vectorize(obj[, otypes=...])(*coords): the wrapper is looked through, but
        # without explicit `otypes` numpy takes the dtype of the result from the first cell (an integer
        # literal branch of a Piecewise there truncates every other cell)
        wrapped = g.find_calls(lambda c: isinstance(c.func, ast.Call) and _leaf(c.func.func) == "vectorize" and c.func.args and isinstance(c.func.args[0], ast.Name) and c.func.args[0].id == obj)
        for cn, c in wrapped:
            w = c.func
            kws = {k.arg: k.value for k in w.keywords}
            if len(w.args) != 1 or set(kws) - {"otypes"}:
                raise _grammar(fi, w, f"`{ast.unparse(w)}`")
            ot = kws.get("otypes")
            ot_txt = ast.unparse(ot) if ot is not None else None
            ok_ot = ot is not None and any(t in ot_txt for t in ("float", "double", "complex", "'d'", '"d"', "dtype", "np.number", "np.inexact"))
            _ob(rep, "from-expression-value-dtype", fi.ref, "vectorize::otypes", ok_ot, f"`{ast.unparse(w)}`: without an inexact `otypes` numpy infers the dtype of all values from the value of the first cell, so an integer-valued first cell truncates every other cell to an integer", line=w.lineno)
        # any other use of the expression object as a value (map, frompyfunc, stored, returned...) is not understood
        known_nodes = {id(c.func) for _, c in calls} | {id(c.func.args[0]) for _, c in wrapped}
        for cn in g.nodes:
            if cn.ast is None or cn.kind in ("entry", "exit", "raise-exit"):
                continue
            roots = [cn.ast] if not isinstance(cn.ast, (ast.For, ast.While, ast.If, ast.With, ast.Try, ast.FunctionDef, ast.ClassDef)) else [getattr(cn.ast, "test", None) or getattr(cn.ast, "iter", None)]
            for root in roots:
                if root is None:
                    continue
                if nd not in g.reaching()[cn].get(obj, frozenset()):
                    continue
                shadow = {id(y) for q in ast.walk(root) if isinstance(q, (ast.ListComp, ast.SetComp, ast.GeneratorExp, ast.DictComp, ast.Lambda)) and any(isinstance(t, ast.Name) and t.id == obj for gen in getattr(q, "generators", []) for t in ast.walk(gen.target)) for y in ast.walk(q)}
                for x in ast.walk(root):
                    if isinstance(x, ast.Name) and x.id == obj and isinstance(x.ctx, ast.Load) and id(x) not in known_nodes and id(x) not in shadow:
                        par = next((q for q in ast.walk(root) if any(ch is x for ch in ast.iter_child_nodes(q))), None)
                        if isinstance(par, ast.Attribute):
                            continue  # attribute read of the expression object (expr.rank, expr.shape...)
                        raise _grammar(fi, root, f"expression object `{obj}` used as a value in `{ast.unparse(root)[:70]}`")
        calls = calls + wrapped
        descr = []
        for cn, c in calls:
            n_calls += 1
            role = f"call#{len(descr)}"
            if len(c.args) != 1 or not isinstance(c.args[0], ast.Starred) or c.keywords:
                raise _grammar(fi, c, f"call `{ast.unparse(c)}` of the expression")
            ok, what = _coord_seq(fi, g, cn, c.args[0].value, grid)
            descr.append(what)
            _ob(rep, "from-expression-coordinates", fi.ref, role + "::coordinates", ok, f"{what}: arguments do not follow the signature `{grid}.axes`", line=c.lineno)
        if not calls:
            raise _grammar(fi, fi.node, "expression object is never called")
        # component order
        comp = None
        if rank == 0:
            comp = "scalar"
            _ob(rep, "from-expression-components", fi.ref, "expression-source", isinstance(src, ast.Name) and src.id == pexpr, f"compiled text is `{ast.unparse(src)}`, not the parameter `{pexpr}`", line=ctor.lineno)
        elif rank == 1:
            loops = [p for p, _ in g.enclosing(nd) if isinstance(p, ast.For)]
            if len(loops) != 1 or not isinstance(loops[0].target, ast.Name):
                raise _grammar(fi, ctor, "vector components are not built in one loop")
            lp = loops[0]
            it = resolve_expr(g, g.node_of(lp), lp.iter)
            ok_it = isinstance(it, ast.Name) and it.id == pexpr
            ok_src = isinstance(src, ast.Name) and src.id == lp.target.id
            _ob(rep, "from-expression-components", fi.ref, "component-loop", ok_it and ok_src, f"components are compiled from `{ast.unparse(src)}` for `{lp.target.id}` in `{ast.unparse(it)}`, expected the items of `{pexpr}` in order", line=lp.lineno)
            stores = [c for st in lp.body for c in ast.walk(st) if isinstance(c, ast.Call) and isinstance(c.func, ast.Attribute) and c.func.attr in ("append", "insert", "extend", "appendleft")]
            if len(stores) != 1:
                raise _grammar(fi, lp, f"{len(stores)} list stores in the component loop")
            st = stores[0]
            tgt = dotted(st.func.value)
            val = resolve_expr(g, g.node_of(next(s for s in lp.body if st in set(ast.walk(s)))), st.args[-1], stop=[obj]) if st.args else None
            uses = val is not None and any(isinstance(x, ast.Call) and isinstance(x.func, ast.Name) and x.func.id == obj for x in ast.walk(val))
            _ob(rep, "from-expression-components", fi.ref, "component-store", st.func.attr == "append" and uses, f"component values are stored with `{ast.unparse(st)[:60]}`: not an append of the value of the component just compiled", line=st.lineno)
            comp = f"for item in {pexpr}: {tgt}.append(value(item))"
            _check_data_returned(rep, fi, g, tgt)
        else:
            if not isinstance(src, ast.Subscript):
                raise _grammar(fi, ctor, f"tensor component text `{ast.unparse(src)}`")
            rd = _index_chain(src)
            if rd is None or rd[0] != pexpr:
                raise _grammar(fi, ctor, f"tensor component text `{ast.unparse(src)}`")
            loops = [p for p, _ in g.enclosing(nd) if isinstance(p, ast.For)]
            stores = []
            for lp in loops[:1]:
                for st in lp.body:
                    for x in ast.walk(st):
                        if isinstance(x, ast.Assign) and len(x.targets) == 1 and isinstance(x.targets[0], ast.Subscript):
                            stores.append((st, x))
            stores = [(st, x) for st, x in stores if _index_chain(x.targets[0]) is not None]
            if len(stores) != 1:
                raise _grammar(fi, ctor, f"{len(stores)} indexed stores next to the tensor component")
            st, x = stores[0]
            wr = _index_chain(x.targets[0])
            val = resolve_expr(g, g.node_of(x), x.value, stop=[obj])
            uses = any(isinstance(y, ast.Call) and isinstance(y.func, ast.Name) and y.func.id == obj for y in ast.walk(val))
            _ob(rep, "from-expression-components", fi.ref, "component-store", uses and wr[1:] == rd[1:] and len(rd) == 3, f"component text is read at {pexpr}[{']['.join(rd[1:])}] but its values are written to {wr[0]}[{']['.join(wr[1:])}]: tensor components are transposed / misplaced", line=x.lineno)
            # every index is a loop variable over range(grid.dim)
            lv = {}
            for lp in loops:
                if isinstance(lp.target, ast.Name):
                    lv[lp.target.id] = ast.unparse(resolve_expr(g, g.node_of(lp), lp.iter))
            okr = len(set(rd[1:])) == len(rd[1:]) and all(lv.get(i) == f"range({grid}.dim)" for i in rd[1:])
            _ob(rep, "from-expression-components", fi.ref, "component-loop", okr, f"tensor indices {rd[1:]} run over {lv}, expected two distinct loops over range({grid}.dim)", line=ctor.lineno)
            comp = f"{wr[0]}[{']['.join(wr[1:])}] = value({pexpr}[{']['.join(rd[1:])}])"
            _check_data_returned(rep, fi, g, wr[0])
        # the Cartesian helper constant
        cart = None
        for cn in g.nodes:
            a = cn.ast
            # the entry is either stored into the dictionary (`consts["cartesian"] = V`) or a new dictionary with the entry
            # is bound to the name (`consts = {**consts, "cartesian": V}`)
            entry = None
            if cn.kind == "stmt" and isinstance(a, ast.Assign) and len(a.targets) == 1:
                t0 = a.targets[0]
                if isinstance(t0, ast.Subscript) and isinstance(t0.slice, ast.Constant) and t0.slice.value == "cartesian":
                    entry = (a.value, dotted(t0.value))
                elif isinstance(t0, ast.Name) and isinstance(a.value, ast.Dict):
                    for k_, v_ in zip(a.value.keys, a.value.values):
                        if isinstance(k_, ast.Constant) and k_.value == "cartesian":
                            entry = (v_, t0.id)
            if entry is not None:
                v = resolve_expr(g, cn, entry[0])
                if not (isinstance(v, ast.Call) and _leaf(v.func) == "moveaxis" and len(v.args) == 3 and not v.keywords):
                    raise _grammar(fi, a, f"cartesian helper `{ast.unparse(v)[:60]}`")
                cart = (ast.unparse(v.args[0]).replace(grid, "grid"), ast.unparse(v.args[1]), ast.unparse(v.args[2]), entry[1])
                okc = cart[0] == "grid.point_to_cartesian(grid.cell_coords)" and cart[1:3] == ("-1", "0") and cart[3] == "consts"
                _ob(rep, "from-expression-cartesian", fi.ref, "cartesian-constant", okc, f"`cartesian` constant is moveaxis({cart[0]}, {cart[1]}, {cart[2]}) stored in `{cart[3]}`; expected the Cartesian cell coordinates with the component axis moved from last to first, stored in `consts`, so that `cartesian[k]` is the k-th coordinate", line=a.lineno)
        if cart is None:
            raise AnalysisError(f"anchor vanished: `consts['cartesian'] = ...` in {fi.ref}")
        sib[fi.ref] = {"signature": s_res and s_res.replace(grid, "grid"), "coordinates": descr, "components": comp, "cartesian": cart, "ctor": {k: ast.unparse(v).replace(grid, "grid") for k, v in bound.items() if k != "expression"}}
    rep.sample({"table": "from_expression", **sib})
    # siblings: the odd one out (against the majority of the three) is named
    refs = list(sib)
    votes = {r: sum(sib[r]["ctor"] == sib[o]["ctor"] for o in refs) for r in refs}
    major = max(refs, key=lambda r: votes[r])
    for r in refs:
        same = sib[r]["ctor"] == sib[major]["ctor"]
        _ob(rep, "from-expression-siblings", r, "vs-siblings::ctor", same, f"ScalarExpression is configured differently from the sibling {major}: {sib[r]['ctor']} vs {sib[major]['ctor']}")
    rep.floor("from_expression constructors", n_ctor, 3)
    rep.floor("from_expression evaluation calls", n_calls, 4)


def _index_chain(e: ast.AST):
    """``a[i][j]`` / ``a[i, j]`` -> ('a', 'i', 'j') for plain names, else None"""
    idx = []
    while isinstance(e, ast.Subscript):
        sl = e.slice
        items = list(sl.elts) if isinstance(sl, ast.Tuple) else [sl]
        if not all(isinstance(i, ast.Name) for i in items):
            return None
        idx = [i.id for i in items] + idx
        e = e.value
    if not isinstance(e, ast.Name) or not idx:
        return None
    return (e.id, *idx)


def _check_data_returned(rep: Report, fi: FuncInfo, g, data: str) -> None:
    """the list the components were written to is what the field is built from"""
    rets = g.find(lambda n: n.kind == "return" and n.ast.value is not None)
    ok = bool(rets)
    for r in rets:
        v = r.ast.value
        if not isinstance(v, ast.Call):
            raise _grammar(fi, r.ast, "return value is not a constructor call")
        d = {k.arg: k.value for k in v.keywords if k.arg}.get("data", v.args[1] if len(v.args) > 1 else None)
        ok = ok and isinstance(d, ast.Name) and d.id == data
    _ob(rep, "from-expression-components", fi.ref, "data-returned", ok, f"the field is not built from `{data}`, the array the components were written to", line=rets[0].lineno if rets else fi.node.lineno)


# ============================================================================
# Part E -- signature aliases, axis alias tables, pass-through of the options
# ============================================================================
def _peval_sig(e: ast.AST, sig: str, is_str: bool) -> ast.AST:
    """partially evaluate an expression under the assumption isinstance(sig, str) == is_str
    and fold ``[x, ...][k]``; used to read off the canonical name of a signature entry"""

    class T(ast.NodeTransformer):
        def visit_IfExp(self, n):  # noqa: N802
            t = n.test
            if isinstance(t, ast.Call) and _leaf(t.func) == "isinstance" and len(t.args) == 2 and isinstance(t.args[0], ast.Name) and t.args[0].id == sig and dotted(t.args[1]) == "str":
                return self.visit(n.body if is_str else n.orelse)
            return self.generic_visit(n)

        def visit_Subscript(self, n):  # noqa: N802
            n = self.generic_visit(n)
            if isinstance(n.value, (ast.List, ast.Tuple)) and isinstance(n.slice, ast.Constant) and isinstance(n.slice.value, int):
                k = n.slice.value
                if -len(n.value.elts) <= k < len(n.value.elts):
                    return n.value.elts[k]
            return n

    import copy

    return T().visit(copy.deepcopy(e))


def check_signature_aliases(rep: Report, ix) -> None:
    fi = ix.func(EXPR, "ExpressionBase._check_signature")
    rep.saw("functions", fi.ref)
    g = build_cfg(fi.node)
    if len(fi.node.args.args) != 2:
        raise _grammar(fi, fi.node, "expected (self, signature)")
    psig = fi.node.args.args[1].arg
    loops = [n for n in g.nodes if n.kind == "for" and isinstance(n.ast.iter, ast.Name) and n.ast.iter.id == psig and isinstance(n.ast.target, ast.Name)]
    if len(loops) != 1:
        raise _grammar(fi, fi.node, f"{len(loops)} loops over `{psig}`")
    L = loops[0]
    sig = L.ast.target.id
    # --- the name appended to self.vars
    apps = [(n, c) for n, c in g.find_calls(lambda c: isinstance(c.func, ast.Attribute) and dotted(c.func.value) == "self.vars") if g.inside(n, L.ast)]
    if len(apps) != 1:
        raise _grammar(fi, L.ast, f"{len(apps)} updates of self.vars in the signature loop")
    an, ac = apps[0]
    once = [p for p, _ in g.enclosing(an)] == [L.ast] or [p for p, _ in g.enclosing(an) if not isinstance(p, (ast.FunctionDef, ast.ClassDef))] == [L.ast]
    _ob(rep, "signature-vars-order", fi.ref, "vars-append", ac.func.attr == "append" and len(ac.args) == 1 and once, f"`{ast.unparse(ac)}` does not append exactly one name per signature entry, in signature order", line=ac.lineno)
    canon_raw = resolve_expr(g, an, ac.args[-1], stop=[sig])
    canon = {}
    for is_str in (True, False):
        c = _peval_sig(canon_raw, sig, is_str)
        canon[is_str] = ast.unparse(c)
    _ob(rep, "signature-canonical-name", fi.ref, "canonical::plain-name", canon[True] == sig, f"for a plain signature entry the variable is named `{canon[True]}`, expected the entry itself", line=ac.lineno)
    _ob(rep, "signature-canonical-name", fi.ref, "canonical::alias-list", canon[False] == f"{sig}[0]", f"for an alias list the variable is named `{canon[False]}`, expected its first item `{sig}[0]` (documented: the first item is the definite name)", line=ac.lineno)
    # --- self.vars starts empty
    vd = [d for d in g.reaching()[L].get("self.vars", frozenset()) if not g.inside(d, L.ast)]
    ok0 = len(vd) == 1 and def_value(vd[0], "self.vars")[0] == "expr" and isinstance(def_value(vd[0], "self.vars")[1], (ast.List, ast.Tuple)) and not def_value(vd[0], "self.vars")[1].elts
    _ob(rep, "signature-vars-order", fi.ref, "vars-initial", ok0, "self.vars does not start as an empty list before the signature loop", line=L.lineno)
    # --- renaming of a used alias
    subs = [(n, c) for n, c in g.find_calls(lambda c: _leaf(c.func) == "subs") if g.inside(n, L.ast)]
    rep.floor("alias renamings in _check_signature", len(subs), 1)
    for k, (sn, sc) in enumerate(subs):
        role = f"rename#{k}"
        if len(sc.args) != 2:
            raise _grammar(fi, sc, "subs call")
        inner = [p for p, _ in g.enclosing(sn) if isinstance(p, ast.For) and p is not L.ast]
        if len(inner) != 1 or not isinstance(inner[0].target, ast.Name):
            raise _grammar(fi, sc, "renaming is not inside one loop over the used arguments")
        arg = inner[0].target.id
        recv = dotted(resolve_expr(g, sn, sc.func.value))
        tgt = sn.ast.targets[0] if isinstance(sn.ast, ast.Assign) and len(sn.ast.targets) == 1 else None
        _ob(rep, "signature-alias-rename", fi.ref, role + "::stored", recv == "self._sympy_expr" and tgt is not None and dotted(tgt) == "self._sympy_expr", "the renamed expression is not stored back into self._sympy_expr", line=sc.lineno)
        old = _origins(g, sn, sc.args[0], {})
        new_raw = sc.args[1]
        while isinstance(new_raw, ast.Name):
            ds = g.reaching()[sn].get(new_raw.id, frozenset())
            if len(ds) != 1 or def_value(next(iter(ds)), new_raw.id)[0] != "expr":
                break
            new_raw = def_value(next(iter(ds)), new_raw.id)[1]
        while isinstance(new_raw, ast.Call) and new_raw.args and _leaf(new_raw.func) in SYMBOL_CTORS:
            new_raw = new_raw.args[0]
        new_res = resolve_expr(g, sn, new_raw, stop=[sig])
        new = {s: ast.unparse(_peval_sig(new_res, sig, s)) for s in (True, False)}
        _ob(rep, "signature-alias-rename", fi.ref, role + "::old", old == {f"iter:{ast.unparse(inner[0].iter)}"} and any(isinstance(t, ast.Compare) and isinstance(t.left, ast.Name) and t.left.id == arg and isinstance(t.ops[0], ast.In) for p, _ in g.enclosing(sn) if isinstance(p, ast.If) for t in [p.test]), f"the symbol that is replaced comes from {sorted(old)}, expected the used argument `{arg}` found in the alias list", line=sc.lineno)
        _ob(rep, "signature-alias-rename", fi.ref, role + "::new", new == canon, f"a used alias is renamed to `{new[False]}` but the variable list holds `{canon[False]}`", line=sc.lineno)
    rep.sample({"table": "_check_signature", "canonical name (plain entry / alias list)": [canon[True], canon[False]], "vars update": ast.unparse(ac), "renamings": [ast.unparse(c) for _, c in subs]})

    # --- ExpressionBase.__init__: replacements applied before the signature is checked
    fi2 = ix.func(EXPR, "ExpressionBase.__init__")
    rep.saw("functions", fi2.ref)
    g2 = build_cfg(fi2.node)
    prepl = "repl"
    if prepl not in [a.arg for a in fi2.node.args.kwonlyargs + fi2.node.args.args]:
        raise AnalysisError(f"anchor vanished: parameter `repl` of {fi2.ref}")
    rs = [(n, c) for n, c in g2.find_calls(lambda c: _leaf(c.func) == "subs" and len(c.args) == 1 and isinstance(c.args[0], ast.Name) and c.args[0].id == prepl)]
    cs = [(n, c) for n, c in g2.find_calls(lambda c: dotted(c.func) == "self._check_signature")]
    if len(cs) != 1:
        raise _grammar(fi2, fi2.node, f"{len(cs)} calls of self._check_signature")
    ok = len(rs) == 1
    if ok:
        rn, rc = rs[0]
        ok = isinstance(rn.ast, ast.Assign) and dotted(rn.ast.targets[0]) == "self._sympy_expr" and dotted(rc.func.value) == "self._sympy_expr" and g2.no_path([cs[0][0]], [rn]) and rn in g2.reachable([g2.entry])
    _ob(rep, "alias-replacement-applied", fi2.ref, "repl-before-signature", ok, "`repl` (alternative axis names) is not substituted into self._sympy_expr before the signature is checked", line=cs[0][1].lineno)
    sigarg = cs[0][1].args[0] if cs[0][1].args else {k.arg: k.value for k in cs[0][1].keywords}.get("signature")
    _ob(rep, "alias-replacement-applied", fi2.ref, "signature-forwarded", isinstance(sigarg, ast.Name) and sigarg.id == "signature", "the `signature` parameter is not handed to _check_signature", line=cs[0][1].lineno)

    # --- CoordinatesBase._axes_alt_repl: alias -> canonical
    fi3 = ix.func(COORD_BASE, "CoordinatesBase._axes_alt_repl")
    rep.saw("functions", fi3.ref)
    g3 = build_cfg(fi3.node)
    stores = [n for n in g3.nodes if n.kind == "stmt" and isinstance(n.ast, ast.Assign) and len(n.ast.targets) == 1 and isinstance(n.ast.targets[0], ast.Subscript)]
    if len(stores) != 1:
        raise _grammar(fi3, fi3.node, f"{len(stores)} stores into the replacement dict")
    sn = stores[0]
    fors = [p for p, _ in g3.enclosing(sn) if isinstance(p, ast.For)]
    if len(fors) != 2:
        raise _grammar(fi3, sn.ast, "expected two nested loops")
    inner, outer = fors[0], fors[1]
    oi = outer.iter
    ok_outer = isinstance(oi, ast.Call) and _leaf(oi.func) == "items" and dotted(oi.func.value) == "self._axes_alt" and isinstance(outer.target, ast.Tuple) and len(outer.target.elts) == 2 and all(isinstance(x, ast.Name) for x in outer.target.elts)
    if not ok_outer or not isinstance(inner.target, ast.Name) or not isinstance(inner.iter, ast.Name):
        raise _grammar(fi3, outer, "loops over self._axes_alt.items() and the alias list")
    kname, vname = (x.id for x in outer.target.elts)
    key, val = sn.ast.targets[0].slice, sn.ast.value
    ok = inner.iter.id == vname and isinstance(key, ast.Name) and key.id == inner.target.id and isinstance(val, ast.Name) and val.id == kname
    _ob(rep, "axis-alias-direction", fi3.ref, "alias-to-canonical", ok, f"replacement rule is `{ast.unparse(sn.ast)}` for `{kname}, {vname}` in _axes_alt.items(): expected each alias of the list mapped to the canonical axis name (the dict key)", line=sn.lineno)
    rets = g3.find(lambda n: n.kind == "return")
    _ob(rep, "axis-alias-direction", fi3.ref, "returned", len(rets) == 1 and dotted(rets[0].ast.value) == dotted(sn.ast.targets[0].value), "the filled replacement dict is not what is returned", line=fi3.node.lineno)

    # --- the alias tables of the coordinate classes
    base = ix.cls(COORD_BASE, "CoordinatesBase")
    greek = {}
    n_tab = n_alias = 0
    tables = {}
    for c in ix.subclasses(base, strict=True):
        if "_axes_alt" not in c.attrs:
            continue
        t = c.attrs["_axes_alt"]
        axes = c.attrs.get("axes")
        try:
            tab = ast.literal_eval(t)
            ax = ast.literal_eval(axes) if axes is not None else None
        except Exception as e:  # noqa: BLE001
            raise _grammar(c.ref, t, "alias table / axes are not literals") from e
        if ax is None:
            raise _grammar(c.ref, t, "class with `_axes_alt` but without literal `axes`")
        n_tab += 1
        rep.saw("tables", f"{c.ref}._axes_alt")
        tables[c.name] = {"axes": ax, "aliases": tab}
        seen = {}
        for k, lst in tab.items():
            _ob(rep, "axis-alias-table", c.ref, f"_axes_alt::{k}::is-axis", k in ax, f"alias table key `{k}` is not an axis of {c.name} {ax}", line=t.lineno)
            for al in lst:
                n_alias += 1
                _ob(rep, "axis-alias-table", c.ref, f"_axes_alt::{al}::unique", al not in seen and al not in ax, f"alias `{al}` is claimed by `{seen.get(al, al)}` and `{k}` / shadows an axis name", line=t.lineno)
                seen[al] = k
                # an alias that spells a Greek letter must belong to that letter
                for ch in ax:
                    if len(ch) == 1 and "GREEK SMALL LETTER" in unicodedata.name(ch, ""):
                        greek[ch] = unicodedata.name(ch).split()[-1].lower()
                owner = [ch for ch, nm in greek.items() if nm == al and ch in ax]
                if owner:
                    _ob(rep, "axis-alias-table", c.ref, f"_axes_alt::{al}::letter", owner[0] == k, f"alias `{al}` spells the axis `{owner[0]}` but is mapped to `{k}`", line=t.lineno)
    rep.sample({"table": "axis alias tables", **tables})
    rep.floor("coordinate classes with alias tables", n_tab, 5)
    rep.floor("axis aliases", n_alias, 11)


def check_passthrough(rep: Report, ix) -> None:
    """get_function and its deprecated wrappers forward single_arg / user_funcs"""
    n = 0
    for qn in ("ExpressionBase.get_function", "ExpressionBase._get_function", "ExpressionBase.get_compiled"):
        fi = ix.func(EXPR, qn)
        rep.saw("functions", fi.ref)
        params = {a.arg for a in fi.node.args.args + fi.node.args.kwonlyargs}
        calls = [c for c in ast.walk(fi.node) if isinstance(c, ast.Call) and _leaf(c.func) in (MEF, "get_function") and isinstance(c.func, ast.Attribute)]
        if not calls:
            raise _grammar(fi, fi.node, "no call of make_expression_function / get_function")
        for k, c in enumerate(calls):
            n += 1
            kws = {x.arg: x.value for x in c.keywords if x.arg}
            for p in ("single_arg", "user_funcs"):
                if p in params:
                    v = kws.get(p)
                    _ob(rep, "option-passthrough", fi.ref, f"call#{k}::{p}", isinstance(v, ast.Name) and v.id == p, f"parameter `{p}` is not forwarded by `{ast.unparse(c)[:70]}`", line=c.lineno)
            if _leaf(c.func) == MEF:
                _ob(rep, "option-passthrough", fi.ref, f"call#{k}::expression", len(c.args) == 1 and isinstance(c.args[0], ast.Name) and c.args[0].id == "self", "make_expression_function is not called with the expression itself", line=c.lineno)
    rep.floor("forwarding calls", n, 4)


# ============================================================================
NOT_DECIDED = (
    "NOT decided: the behaviour itself -- that the value returned by the compiled function equals "
    "the written formula -- is produced at run time by sympy (parse_expr, simplify, the code "
    "printer, lambdify) and numba and cannot be bounded by a static analysis of the repository. "
    "Only the structural necessary conditions listed in the explanation are decided."
)


# ============================================================================
# Part G -- symbolic rewriting between the parsed text and the printed code is domain-safe
# ============================================================================
# sympy rewriting entry points and the options that make them valid only on a sub-domain of the
# arguments (documented by sympy: "without checking whether x belongs to the set where this
# relation is true" / "force=True ... assumptions about variables will be ignored")
REWRITE_UNSAFE_FLAGS = {
    "simplify": {"inverse"},
    "expand": {"force"},
    "expand_log": {"force"},
    "expand_power_base": {"force"},
    "expand_power_exp": {"force"},
    "logcombine": {"force"},
    "powsimp": {"force"},
    "powdenest": {"force"},
    "trigsimp": set(),
    "factor": set(),
    "cancel": set(),
    "together": set(),
    "collect": set(),
    "radsimp": set(),
    "ratsimp": set(),
}
# entry points that change values whatever their options
REWRITE_UNSAFE_CALLS = {
    "posify": "replaces symbols by positive ones: the result holds for positive arguments only",
    "nsimplify": "replaces floating-point numbers by nearby 'simple' exact numbers",
    "refine": "rewrites under assumptions that the arguments of the compiled function need not meet",
}
SYMBOL_MAKERS = {"Symbol", "symbols", "Dummy", "Wild", "IndexedBase"}
ASSUMPTIONS = {"positive", "negative", "nonnegative", "nonpositive", "nonzero", "integer", "even", "odd", "real", "imaginary", "rational", "finite", "zero", "prime", "commutative", "extended_real", "extended_positive", "extended_nonnegative"}


def _truthy_const(e: ast.AST):
    """True/False for a literal option value, None when it is not a literal"""
    if isinstance(e, ast.Constant):
        return bool(e.value)
    return None


def check_rewriting(rep: Report, ix) -> None:
    funcs = list(ix.module(EXPR).functions.values())
    for key, (rel, cls) in BACKENDS.items():
        funcs.append(ix.func(rel, f"{cls}.{MEF}"))
    n_rw = n_sym = 0
    seen_fn = set()
    for fi in funcs:
        if fi.ref in seen_fn:
            continue
        seen_fn.add(fi.ref)
        own = {id(x) for x in ast.walk(fi.node)} - {id(y) for d in ast.walk(fi.node) if d is not fi.node and isinstance(d, (ast.FunctionDef, ast.AsyncFunctionDef)) for y in ast.walk(d)}
        k_rw = k_sym = 0
        for c in ast.walk(fi.node):
            if not isinstance(c, ast.Call) or id(c) not in own:
                continue
            leaf = _leaf(c.func)
            kws = {k.arg: k.value for k in c.keywords if k.arg}
            star = any(k.arg is None for k in c.keywords)
            if leaf in REWRITE_UNSAFE_FLAGS:
                # function form sympy.simplify(e, ...) or method form e.simplify(...)
                recv = dotted(c.func) or ""
                if not (recv.startswith("sympy.") or isinstance(c.func, ast.Attribute)):
                    continue
                n_rw += 1
                role = f"{leaf}#{k_rw}"
                k_rw += 1
                rep.saw("call sites", f"{fi.ref}::{role}")
                if star:
                    raise _grammar(fi, c, f"`{ast.unparse(c)[:60]}` takes its options from a ** dictionary")
                for flag in sorted(REWRITE_UNSAFE_FLAGS[leaf] & set(kws)):
                    v = _truthy_const(kws[flag])
                    if v is None:
                        raise _grammar(fi, c, f"option `{flag}={ast.unparse(kws[flag])}` of {leaf} is not a literal")
                    _ob(rep, "rewriting-domain-safe", fi.ref, f"{role}::{flag}", not v, f"`{ast.unparse(c)[:70]}`: with `{flag}=True` sympy rewrites without checking the domain (e.g. acos(cos(x)) -> x, log(exp(z)) -> z, sqrt(x**2) -> x): the compiled function differs from the written formula outside the principal branch", line=c.lineno)
                if not (REWRITE_UNSAFE_FLAGS[leaf] & set(kws)):
                    rep.oblige(f"rewriting-domain-safe:{fi.ref}::{role}", True)
            elif leaf in REWRITE_UNSAFE_CALLS and ((dotted(c.func) or "").startswith("sympy.") or isinstance(c.func, ast.Name)):
                n_rw += 1
                role = f"{leaf}#{k_rw}"
                k_rw += 1
                _ob(rep, "rewriting-domain-safe", fi.ref, role, False, f"`{ast.unparse(c)[:70]}`: {REWRITE_UNSAFE_CALLS[leaf]}", line=c.lineno)
            elif leaf in SYMBOL_MAKERS and ((dotted(c.func) or "").startswith("sympy.") or isinstance(c.func, ast.Name)):
                n_sym += 1
                role = f"{leaf}#{k_sym}"
                k_sym += 1
                rep.saw("call sites", f"{fi.ref}::{role}")
                bad = sorted(a for a in kws if a in ASSUMPTIONS and _truthy_const(kws[a]) is not False) if leaf != "IndexedBase" else sorted(a for a in kws if a in ASSUMPTIONS)
                if star:
                    raise _grammar(fi, c, f"`{ast.unparse(c)[:60]}` takes assumptions from a ** dictionary")
                _ob(rep, "rewriting-domain-safe", fi.ref, f"{role}::assumptions", not bad, f"`{ast.unparse(c)[:70]}` creates the variable with the assumption(s) {bad}: simplification then uses identities that hold only for such arguments (sqrt(x**2) -> x), but the compiled function is called with arbitrary numbers", line=c.lineno)
    # the sympy_cls handed to fill_locals must be the plain constructors
    rep.floor("sympy rewriting calls (simplify in __init__ and derivatives)", n_rw, 3)
    rep.floor("sympy symbol constructions", n_sym, 3)


def check_evaluate_coordinates(rep: Report, ix) -> None:
    """tools.expressions.evaluate compiles the expression with the signature (*fields, "none", "bc_args", *coordinate names)
    and calls it with (*field data, None, bc_args, *coordinate arrays): the k-th coordinate *name* of the signature must
    be bound to the coordinate array of *that* axis (`grid.cell_coords[..., grid.axes.index(name)]`), and every axis the
    expression depends on must be in the signature.  The statements that compute the signature and the extra arguments
    (backward slice from the call) are interpreted (pdelint/npsem.py) for grids with 2 and 3 axes and every subset of
    axes the expression may depend on."""
    import itertools

    import numpy as np

    from .. import npsem as ns

    fi = ix.func(EXPR, "evaluate")
    rep.saw("functions", fi.ref)
    body = strip_doc(fi.node.body)
    # the call  f(*A, None, <bc_args>, *B)  and  expr.vars = S
    call = None
    for x in ast.walk(fi.node):
        if isinstance(x, ast.Call) and len(x.args) == 4 and isinstance(x.args[0], ast.Starred) and isinstance(x.args[3], ast.Starred) and isinstance(x.args[1], ast.Constant) and x.args[1].value is None:
            call = x
    sig_name = None
    for x in ast.walk(fi.node):
        if isinstance(x, ast.Assign) and len(x.targets) == 1 and isinstance(x.targets[0], ast.Attribute) and x.targets[0].attr == "vars" and isinstance(x.value, ast.Name):
            sig_name = x.value.id
    if call is None or sig_name is None or not isinstance(call.args[3].value, ast.Name):
        raise AnalysisError(f"{fi.ref}: the call `f(*fields, None, bc_args, *coordinates)` / `expr.vars = signature` was not found")
    extra_name = call.args[3].value.id
    params = [a.arg for a in fi.node.args.args + fi.node.args.kwonlyargs]
    roots = {"grid", "expr", "backend", "fields_keys", "np"} | set(params)
    # backward slice over the top-level statements
    needed = {sig_name, extra_name}
    chosen = []
    for st in reversed(body):
        stores = {t.id for q in ast.walk(st) for t in ([q] if isinstance(q, ast.Name) and isinstance(q.ctx, ast.Store) else [])}
        if isinstance(st, (ast.Assign, ast.AugAssign, ast.AnnAssign, ast.If, ast.For)) and stores & needed and not any(isinstance(q, ast.Attribute) and isinstance(q.ctx, ast.Store) for q in ast.walk(st)):
            chosen.append(st)
            needed |= {q.id for q in ast.walk(st) if isinstance(q, ast.Name) and isinstance(q.ctx, ast.Load)} - roots
    chosen.reverse()
    if not chosen:
        raise AnalysisError(f"{fi.ref}: no statement defines `{sig_name}` / `{extra_name}`")
    n_scen = 0
    bad: dict[str, str] = {}
    import os as _os

    grids = (("x", "y"), ("r", "z"), ("x", "y", "z"))
    if _os.environ.get("PDELINT_TIER") == "thorough":
        grids += (("x",), ("r",), ("r", "θ"), ("r", "θ", "φ"), ("σ", "τ", "φ"))
    for axes in grids:
        n = len(axes)
        coords = np.empty((2,) * n + (n,), dtype=object)
        for cell in np.ndindex(*coords.shape[:-1]):
            for k in range(n):
                coords[cell + (k,)] = sp.Symbol(f"{axes[k]}_{'_'.join(map(str, cell))}")
        for r_ in range(n + 1):
            for used in itertools.combinations(axes, r_):
                n_scen += 1
                scen = f"axes={axes} expression depends on {used or 'no coordinate'}"
                grid = ns.Stub("grid", axes=list(axes), num_axes=n, dim=n, cell_coords=coords, shape=(2,) * n)
                expr = ns.Stub("expr", depends_on=lambda c, used=used: c in used, vars=("c", *used))
                backend = ns.Stub("backend", numpy_to_native=lambda a: a, implementation="numpy")
                sem = ns.NpSem(where=fi.ref)
                scope = ns.Scope({"grid": grid, "expr": expr, "backend": backend, "fields_keys": ["c"], "np": ns.NP})
                try:
                    sem.exec_block(chosen, scope)
                    sig = tuple(scope.get(sig_name))
                    extra = tuple(scope.get(extra_name))
                except ns.Raised as e:
                    bad.setdefault("raises", f"{scen}: ends in `{e}`")
                    continue
                except KeyError as e:
                    raise AnalysisError(f"{fi.ref}: {e} is not defined by the interpreted slice") from e
                if sig[:3] != ("c", "none", "bc_args"):
                    bad.setdefault("prefix", f"{scen}: signature starts with {sig[:3]}, the call passes (*fields, None, bc_args)")
                    continue
                names = sig[3:]
                if len(names) != len(extra):
                    bad.setdefault("count", f"{scen}: {len(names)} coordinate names {names} but {len(extra)} coordinate arrays")
                    continue
                miss = [a for a in used if a not in names]
                if miss:
                    bad.setdefault("missing", f"{scen}: the signature {names} lacks {miss}")
                for k, nm in enumerate(names):
                    if nm not in axes:
                        bad.setdefault("unknown", f"{scen}: `{nm}` in the signature is no axis of the grid")
                        continue
                    want = coords[..., axes.index(nm)]
                    got = extra[k]
                    if not isinstance(got, np.ndarray) or got.shape != want.shape or ns.arrays_equal(got, want):
                        which = [a for j, a in enumerate(axes) if isinstance(got, np.ndarray) and got.shape == want.shape and not ns.arrays_equal(got, coords[..., j])]
                        bad.setdefault("binding", f"{scen}: the name `{nm}` is bound to the coordinates of axis {which or '?'} (argument {k} of the extra arguments)")
    rep.floor("evaluate(): coordinate-binding scenarios", n_scen, 16)
    rep.oblige(f"{fi.ref}: coordinate names of the signature are bound to the coordinate arrays of their own axes", not bad, bad)
    for role, msg in bad.items():
        rep.violation("C11.evaluate-coordinates", f"{fi.ref}::{role}", f"evaluate(): {msg}; the compiled expression is evaluated with the wrong coordinate values", line=call.lineno)


def check(tier: str) -> Report:
    rep = Report("C11", tier, "other", "sibling tables from an abstract interpretation of make_expression_function + def-use rules (narrow structural clauses)")
    rep.explanation = (
        "NARROW CLAUSE ONLY. " + NOT_DECIDED + " Decided, from the syntax tree of the working tree: "
        "(1) numpy/numba make_expression_function interpreted abstractly under every configuration of (single_arg, user_funcs given, "
        "constants present) give the same table: printer base class, printer settings, overridden printer methods, the custom printer is "
        "the one handed to lambdify, layering of user functions (expression.user_funcs < user_funcs < SPECIAL_FUNCTIONS), modules list with "
        "the user namespace first, variables as one argument / one per variable; (2) the parameter list handed to lambdify and the argument "
        "list of the returned closure agree token by token (constants iterate one dict in one order); (3) SPECIAL_FUNCTIONS keys are known to "
        "the printer and present in the namespace, each is implemented by the library function of that meaning with the arity sympy prints, "
        "names emitted by custom printer methods exist in numpy and array elements are emitted in index order, the numba wrapper forwards "
        "*args, the lower-case alias targets a SPECIAL_FUNCTIONS key; (4) diff/derive_by_array are applied to self._sympy_expr with symbols "
        "originating from the requested parameter / from self.vars in order, results keep signature, user_funcs, consts, constant branches "
        "put the derivative index first, copy constructors take over the signature; (5) from_expression: signature grid.axes, coordinates "
        "cell_coords[..., i] for i in range(num_axes), alias replacement, component text index == data store index, Cartesian helper constant; "
        "(6) _check_signature: canonical name is item 0, appended once per entry, aliases renamed to it; _axes_alt_repl maps alias -> axis; "
        "alias tables name axes of their class, no alias twice, Greek spellings belong to their letter; options are forwarded by get_function."
    )
    rep.assumptions += [
        NOT_DECIDED,
        "sympy semantics trusted: lambdify gives earlier `modules` entries priority and binds parameters positionally; a function listed in the printer's "
        "`user_functions` is printed as name(all args); Heaviside(x) carries the default second argument; derive_by_array puts the derivative index first.",
        "library functions in LIB_MEANING (numpy.heaviside, numpy.hypot, scipy.special.erf ...) compute the function of that name with that arity (documentation).",
        "dicts iterate in insertion order (Python >= 3.7); numba's jit / register_jitable and the backends' compile_function keep the call signature of what they wrap.",
        "whether numba can actually compile a namespace function (e.g. scipy.special.erf without numba-scipy) is environment dependent and not decided.",
        "the private array route NumbaBackend._make_expression_array (str printer, no constants, no SPECIAL_FUNCTIONS) and `evaluate` are not covered; the PDE class route is C10.",
    ]
    rep.trusted += ["numpy module attribute names (namespace handed to lambdify)", "Unicode character names (Greek axis letters)"]
    ix = get_index()
    check_backends(rep, ix)
    check_special_functions(rep, ix)
    check_derivatives(rep, ix)
    check_from_expression(rep, ix)
    check_evaluate_coordinates(rep, ix)
    check_signature_aliases(rep, ix)
    check_passthrough(rep, ix)
    check_rewriting(rep, ix)
    rep.floor("obligations", len(rep.obligations), 200)
    rep.note(NOT_DECIDED)
    return rep
